(* Tie between the Gallina text GENERATED on this run from DirectCollocation.add_constraints
   (rockit/direct_collocation.py: step length, root times, collocation defect, arguments of the system function,
   quadrature update, continuity equation) and the hand-written model Mech/Colloc.v about which the theorems of
   C02, C03, C05 are stated. *)
From Coq Require Import ZArith QArith List Bool Arith Lia.
From RV Require Import Base.Num Base.PyList Base.Vec Expr Ocp Rows Mech.Grid Mech.Intg Mech.Sampling Mech.Shooting Mech.Colloc Gen.DcGen.
Local Open Scope nat_scope.
Import ListNotations.

Section Tie.
Context {F : Type} {OF : Ops F}.
Variable oc : ocp.
Variable pt : point F.
Let me := o_method oc.
Let N := m_N me.
Let M := m_M me.
Let tau : list F := map of_Q (m_tau me).
Let cg := grid_of oc pt.
Let ig := integrator_grid cg N M.

(* dt = (control_grid[k+1] - control_grid[k]) / M  — the interval's own length, both where the root times are made and
   in the main loop *)
Lemma tie_dc_dt k : dt_k oc pt k = gen_dc_dt (nth k cg o0) (nth (S k) cg o0) M.
Proof. reflexivity. Qed.

(* tr[k][i][j] = integrator_grid[k][i] + dt * tau[j] *)
Lemma tie_dc_t_root k i j :
  t_root oc pt k i j = gen_dc_t_root (nth i (nth k ig []) o0) (dt_k oc pt k) tau j.
Proof. reflexivity. Qed.

(* Pidot_j = Xc[k][i] * C[:,j] / dt *)
Lemma tie_dc_Pidot k i j :
  Pidot oc pt k i j = gen_dc_Pidot (Xc_full pt k i) (coeff_C tau) j (dt_k oc pt k).
Proof. reflexivity. Qed.

(* the system function is called with x = column j+1 of Xc[k][i] (the j-th helper state), u = U[k],
   z = column j of Zc[k][i], t = tr[k][i][j] *)
Lemma tie_dc_sys_args k i j :
  e_x (root_env oc pt k i j) = gen_dc_sys_x (Xc_full pt k i) j /\
  e_z (root_env oc pt k i j) = gen_dc_sys_z (zvals pt k i) j /\
  e_u (root_env oc pt k i j) = nth k (p_U pt) [] /\
  e_t (root_env oc pt k i j) = t_root oc pt k i j.
Proof. repeat split; reflexivity. Qed.

(* q = q + quad * dt * B[j] *)
Lemma tie_dc_quad k i j (q : list F) :
  vadd q (quad_term oc pt k i j)
  = gen_dc_quad q (map (eval0 (root_env oc pt k i j)) (o_quad oc)) (dt_k oc pt k) (coeff_B tau) j.
Proof. reflexivity. Qed.

(* x_next = X[k+1] if i == M-1 else Xc[k][i+1][:,0] *)
Lemma tie_dc_x_next k i : 0 < m_M (o_method oc) ->
  x_next oc pt k i = gen_dc_x_next (nth (S k) (p_X pt) []) (Xc_full pt k (S i)) i (m_M (o_method oc)).
Proof.
  intro HM. unfold x_next, gen_dc_x_next.
  destruct (Nat.eqb_spec (S i) (m_M (o_method oc))) as [E|E];
    destruct (Nat.eqb_spec i (m_M (o_method oc) - 1)) as [E'|E']; try reflexivity; lia.
Qed.

(* continuity: Xc[k][i] * D == x_next *)
Lemma tie_dc_cont_lhs k i :
  wsum (coeff_D tau) (Xc_full pt k i) = gen_dc_cont_lhs (Xc_full pt k i) (coeff_D tau).
Proof. reflexivity. Qed.

End Tie.

Print Assumptions tie_dc_dt.
Print Assumptions tie_dc_t_root.
Print Assumptions tie_dc_Pidot.
Print Assumptions tie_dc_sys_args.
Print Assumptions tie_dc_quad.
Print Assumptions tie_dc_x_next.
Print Assumptions tie_dc_cont_lhs.
