From RV Require Import Base.Num Base.Vec Mech.Spline Proofs.DerProofs Proofs.SplineProofs Proofs.SplineDerList
     Proofs.SplineDerReal Proofs.SplineChain Proofs.SplineTime Gen.SplineGen.
(* Source tie for SplineMethod (rockit/spline_method.py): the definitions of Gen/SplineGen.v, GENERATED from the
   source, are related to the model's chain_coeffs and to the analytic statement "the declared integrator-chain
   dynamics hold identically in time" (Proofs/SplineChain.v, Proofs/SplineTime.v), over the reals.
     gen_spline_member c xi d T r : coefficients of chain member r (r-fold  bspline_derivative(., xi, d - i) / T  on
       the NORMALIZED knots xi), gen_spline_width / gen_spline_basis_degree : the basis member r is sampled with,
     gen_spline_time : the physical sampling instants. *)
From Coq Require Import Reals ZArith List Lia Lra.
From Coquelicot Require Import Coquelicot.
Import ListNotations.
Local Open Scope nat_scope.

(* ---- 1. the generated chain member is the model's chain member times (1/T)^r (no side condition is needed: the
   division by T is a multiplication by / T, and bspline_derivative is linear in the coefficients) *)
Lemma tie_spline_member_R (c xi : list R) (d r : nat) (T : R) :
  @gen_spline_member R ROps c xi d T r = map (fun v => (v * (/ T) ^ r)%R) (chain_coeffs c xi d r).
Proof.
  induction r as [|r IH]; cbn [gen_spline_member chain_coeffs pow].
  - rewrite <- (map_id c) at 1. apply map_ext. intro v. ring.
  - unfold gen_spline_next, vdivs. rewrite IH, bspline_derivative_scale_R, map_map.
    apply map_ext. intro v. cbn [odiv ROps]. unfold Rdiv. ring.
Qed.

(* the form asked for, with the side conditions under which chain_coeffs is meaningful *)
Lemma tie_spline_member_cond_R (c xi : list R) (d r : nat) (T : R) :
  T <> 0%R -> 1 <= length xi -> length c <= length xi + d ->
  @gen_spline_member R ROps c xi d T r = map (fun v => (v * (/ T) ^ r)%R) (chain_coeffs c xi d r).
Proof. intros _ _ _. apply tie_spline_member_R. Qed.

(* ---- 2. member r has gen_spline_width N d r coefficients and is sampled with the basis of its own degree d - r *)
Lemma tie_spline_member_length {F : Type} {OF : Ops F} (c xi : list F) (d r : nat) (T : F) :
  length (gen_spline_member c xi d T r) = length c - r.
Proof.
  induction r as [|r IH]; cbn [gen_spline_member]; [lia|].
  unfold gen_spline_next, vdivs. rewrite map_length, bspline_derivative_length, IH. lia.
Qed.

Lemma tie_spline_member_width {F : Type} {OF : Ops F} (c xi : list F) (N d r : nat) (T : F) :
  length c = gen_spline_ncoeff N d -> length xi = N + 1 -> r <= d ->
  length (gen_spline_member c xi d T r) = gen_spline_width N d r /\
  length (chain_coeffs c xi d r) = gen_spline_width N d r /\
  gen_spline_basis_degree N (gen_spline_width N d r) = d - r /\
  (* the head satisfies the length condition of the chain theorems, member r that of its own level *)
  length c = length xi - 1 + d /\
  length (gen_spline_member c xi d T r) = length xi - 1 + (d - r) /\
  (* and the basis of that degree on the clamped knots has exactly that many functions *)
  length (clamped xi (d - r)) - (d - r) - 1 = gen_spline_width N d r.
Proof.
  intros Hc Hxi Hr. unfold gen_spline_width, gen_spline_basis_degree, gen_spline_ncoeff in *.
  rewrite tie_spline_member_length, chain_coeffs_length, clamped_length, Hc, Hxi.
  repeat split; lia.
Qed.

(* ---- spline_value is linear in the coefficients *)
Lemma tie_fold_left_scale (a : R) (l : list R) (acc : R) :
  fold_left Rplus (map (fun x => (x * a)%R) l) (acc * a)%R = (fold_left Rplus l acc * a)%R.
Proof.
  revert acc. induction l as [|y l IH]; intro acc; cbn [map fold_left]; [reflexivity|].
  rewrite <- IH. f_equal. ring.
Qed.

Lemma tie_spline_value_scale_R (a : R) (c b : list R) :
  @spline_value R ROps (map (fun v => (v * a)%R) c) b = (@spline_value R ROps c b * a)%R.
Proof.
  unfold spline_value, vdot, osum. cbn [oadd omul o0 ROps].
  assert (E : map (fun p : R * R => (fst p * snd p)%R) (combine (map (fun v => (v * a)%R) c) b)
              = map (fun x => (x * a)%R) (map (fun p : R * R => (fst p * snd p)%R) (combine c b))).
  { revert b. induction c as [|x c IH]; intros [|y b]; cbn [map combine fst snd]; try reflexivity.
    rewrite IH. f_equal. ring. }
  rewrite E. replace 0%R with (0 * a)%R at 1 by ring. apply tie_fold_left_scale.
Qed.

(* ---- 3. under SplineMethod the declared integrator-chain dynamics hold identically in time: the spline of the
   GENERATED member r, sampled with the basis of degree d - r at the normalized time (t - t0)/T, is the r-th
   derivative with respect to the physical time t of the spline of the head *)
Lemma tie_spline_chain_dynamics_R (c xi : list R) (d j r : nat) (t0 T : R) :
  T <> 0%R ->
  length c = length xi - 1 + d -> strictly_increasing xi -> d <= j -> j < length c -> r <= d ->
  forall t : R,
    is_derive_n (fun s => @spline_value R ROps c
                            (@basis_values R ROps (@clamped R ROps xi d) d j ((s - t0) / T)%R)) r t
                (@spline_value R ROps (@gen_spline_member R ROps c xi d T r)
                               (@basis_values R ROps (@clamped R ROps xi (d - r)) (d - r) (j - r)
                                              ((t - t0) / T)%R)).
Proof.
  intros HT Hc Hs Hd Hj Hr t.
  rewrite tie_spline_member_R, tie_spline_value_scale_R, Rmult_comm.
  apply spline_physical_time_derivative_R; assumption.
Qed.

(* the same with the lengths expressed by the generated definitions: a chain of length Lc on N intervals *)
Lemma tie_spline_chain_dynamics_gen_R (c xi : list R) (N Lc j r : nat) (t0 T : R) :
  let d := gen_spline_degree Lc in
  T <> 0%R -> 1 <= Lc ->
  length c = gen_spline_ncoeff N d -> length xi = N + 1 -> strictly_increasing xi ->
  d <= j -> j < N + d -> r <= d ->
  forall t : R,
    is_derive_n (fun s => @spline_value R ROps c
                            (@basis_values R ROps (@clamped R ROps xi d) d j ((s - t0) / T)%R)) r t
                (@spline_value R ROps (@gen_spline_member R ROps c xi d T r)
                   (@basis_values R ROps (@clamped R ROps xi (gen_spline_basis_degree N (gen_spline_width N d r)))
                                  (gen_spline_basis_degree N (gen_spline_width N d r)) (j - r)
                                  ((t - t0) / T)%R)).
Proof.
  intros d HT HL Hc Hxi Hs Hd Hj Hr t.
  destruct (tie_spline_member_width c xi N d r T Hc Hxi Hr) as (_ & _ & E & Hc' & _).
  rewrite E. apply tie_spline_chain_dynamics_R; try assumption.
  unfold gen_spline_ncoeff in Hc. lia.
Qed.

(* ---- 4. sampling instants and evaluation argument are inverse to each other *)
Lemma tie_spline_time (t0 T t : R) : T <> 0%R -> @gen_spline_time R ROps t0 T ((t - t0) / T)%R = t.
Proof. intro HT. unfold gen_spline_time. cbn [oadd omul ROps]. field. exact HT. Qed.

Lemma tie_spline_time_inv (t0 T tau : R) : T <> 0%R -> ((@gen_spline_time R ROps t0 T tau - t0) / T)%R = tau.
Proof. intro HT. unfold gen_spline_time. cbn [oadd omul ROps]. field. exact HT. Qed.

Print Assumptions tie_spline_member_R.
Print Assumptions tie_spline_member_cond_R.
Print Assumptions tie_spline_member_length.
Print Assumptions tie_spline_member_width.
Print Assumptions tie_fold_left_scale.
Print Assumptions tie_spline_value_scale_R.
Print Assumptions tie_spline_chain_dynamics_R.
Print Assumptions tie_spline_chain_dynamics_gen_R.
Print Assumptions tie_spline_time.
Print Assumptions tie_spline_time_inv.
