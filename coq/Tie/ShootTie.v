(* Tie between the Gallina text GENERATED on this run from the first pass of MultipleShooting.add_constraints and
   SingleShooting.add_constraints (which state starts interval k, the start time and length handed to the discretised
   system, the accumulators q, Q, xk, xqk, and whether gap-closing rows X[k+1] == xf are imposed) and the hand-written
   model Mech/Shooting.v (shoot_step) about which the theorems of C01, C05, C07 are stated. *)
From Coq Require Import ZArith QArith List Bool.
From RV Require Import Base.Num Base.PyList Base.Vec Expr Ocp Rows Mech.Grid Mech.Intg Mech.Sampling Mech.Shooting Gen.ShootGen.
Import ListNotations.

Section Tie.
Context {F : Type} {OF : Ops F}.

Lemma tie_ms_step (oc : ocp) (pt : point F) (cg : list F) (a : shoot_acc F) (k : nat) :
  gen_ms_step oc pt cg a k = shoot_step oc pt cg false a k.
Proof. reflexivity. Qed.

Lemma tie_ss_step (oc : ocp) (pt : point F) (cg : list F) (a : shoot_acc F) (k : nat) :
  gen_ss_step oc pt cg a k = shoot_step oc pt cg true a k.
Proof. reflexivity. Qed.

(* MultipleShooting imposes the gap-closing rows (scaled by the state scale), SingleShooting propagates instead *)
Lemma tie_gap_rows : gen_ms_step_has_gap_rows = true /\ gen_ss_step_has_gap_rows = false.
Proof. split; reflexivity. Qed.

End Tie.

Print Assumptions tie_ms_step.
Print Assumptions tie_ss_step.
Print Assumptions tie_gap_rows.
