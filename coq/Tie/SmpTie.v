(* Tie between the Gallina text GENERATED on this run from the index logic of SamplingMethod
   (rockit/sampling_method.py: get_DT_control_at, get_DT_at, the offset loop of eval_at_control, the keyword
   environments handed to Stage._expr_apply by eval_at_control and _eval_at_control) and the hand-written model
   Mech/Grid.v, Mech/Sampling.v about which the theorems of C04, C07, C09 are stated (which column of which
   per-interval quantity, which time, which step lengths an expression sees at node k, with Python's negative indices). *)
From Coq Require Import ZArith QArith List Bool Lia.
From RV Require Import Base.Num Base.PyList Base.Vec Expr Mech.Grid Mech.Sampling Gen.SmpGen.
Import ListNotations.

Section Tie.
Context {F : Type} {OF : Ops F}.

Lemma tie_get_DT_control_at (cg : list F) (N : nat) (k : Z) :
  gen_get_DT_control_at cg N k = get_DT_control_at cg N k.
Proof. reflexivity. Qed.

Lemma tie_get_DT_at (ig : list (list F)) (k : Z) (i : nat) :
  gen_get_DT_at ig k i = get_DT_at ig k i.
Proof. reflexivity. Qed.

(* the operand of an offset n at index k is evaluated at knode + n; it is dropped exactly when the model says it cannot
   be placed for one of the two explicit reasons (the third reason of the model, X[k+n] beyond the last node, is the
   IndexError of Python's own list indexing inside _eval_at_control) *)
Lemma tie_offset_target (L : mlists F) (k n : Z) :
  gen_offset_target L k n = (knode L k n + n)%Z.
Proof. reflexivity. Qed.

Lemma tie_offset_ok (L : mlists F) (k n : Z) :
  offset_ok L k n = negb (gen_offset_dropped L k n) && (gen_offset_target L k n <? Z.of_nat (length (L_X L)))%Z.
Proof.
  unfold offset_ok, gen_offset_dropped, gen_offset_target, knode.
  destruct (k =? -1)%Z; destruct (0 <? n)%Z; cbn [andb orb negb];
    repeat match goal with |- context [(?a <=? ?b)%Z] => destruct (Z.leb_spec a b) end;
    repeat match goal with |- context [(?a <? ?b)%Z] => destruct (Z.ltb_spec a b) end;
    cbn [andb orb negb]; try reflexivity; lia.
Qed.

Lemma tie_env_control (L : mlists F) (k : Z) : gen_env_control L k = env_control L k.
Proof. reflexivity. Qed.

Lemma bool_if_negb {A} (b : bool) (x y : A) : (if negb b then x else y) = (if b then y else x).
Proof. destruct b; reflexivity. Qed.

Lemma tie_env_inner (L : mlists F) (k : Z) : gen_env_inner L k = env_inner L k.
Proof. unfold gen_env_inner, env_inner. rewrite !bool_if_negb. reflexivity. Qed.

(* a non-negative index: Python's l[k] is the k-th element, the default when k is beyond the end *)
Lemma pygetd_of_nat {A} (d : A) (l : list A) (k : nat) : pygetd d l (Z.of_nat k) = nth k l d.
Proof.
  unfold pygetd, pyget.
  destruct (Z.leb_spec 0 (Z.of_nat k)) as [_|H]; [|lia].
  destruct (Z.ltb_spec (Z.of_nat k) (Z.of_nat (length l))) as [H|H].
  - rewrite Nat2Z.id. destruct (nth_error l k) eqn:E.
    + symmetry. apply nth_error_nth with (d := d) in E. exact E.
    + apply nth_error_None in E. lia.
  - symmetry. apply nth_overflow. lia.
Qed.

(* eval_at_integrator(k, i): state / quadrature / algebraic value of integrator point k*M+i, interval k's control and
   per-interval quantities, time integrator_grid[k][i], the step's own DT *)
Lemma tie_env_integrator (L : mlists F) (k i : nat) : gen_env_integrator L k i = env_integrator L k i.
Proof. unfold gen_env_integrator, env_integrator. rewrite pygetd_of_nat. reflexivity. Qed.

(* eval_at_integrator_root(k, i, j): helper state and algebraic value of root j of step (k, i), the root's own time *)
Lemma tie_env_root (L : mlists F) (k i j : nat) : gen_env_root L k i j = env_root L k i j.
Proof. reflexivity. Qed.

End Tie.

Print Assumptions tie_get_DT_control_at.
Print Assumptions tie_get_DT_at.
Print Assumptions tie_offset_target.
Print Assumptions tie_offset_ok.
Print Assumptions tie_env_control.
Print Assumptions tie_env_inner.
Print Assumptions tie_env_integrator.
Print Assumptions tie_env_root.
