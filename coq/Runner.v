(* Entry points evaluated by the generated Run/Cases_*.v files. *)
From Coq Require Import ZArith QArith Qcanon List Bool.
From Coq Require PrimFloat.
From RV Require Import Base.Num Base.Vec Expr Rows Ocp Mech.Grid Mech.Intg Mech.Sampling Mech.Shooting Mech.Colloc Mech.Sample Mech.Refine Mech.Initial Inst.
Import ListNotations.

Section Conv.
Context {F : Type} {OF : Ops F}.
Definition cvl (l : list Q) : list F := map of_Q l.
Definition cvll (l : list (list Q)) : list (list F) := map cvl l.
Definition cvlll (l : list (list (list Q))) := map cvll l.
Definition cvllll (l : list (list (list (list Q)))) := map cvlll l.
Definition point_of_Q (p : point Q) : point F :=
  {| p_X := cvll (p_X p); p_U := cvll (p_U p);
     p_V := cvl (p_V p); p_VC := cvll (p_VC p); p_VP := cvll (p_VP p);
     p_P := cvl (p_P p); p_PC := cvll (p_PC p); p_PP := cvll (p_PP p);
     p_T := of_Q (p_T p); p_t0 := of_Q (p_t0 p);
     p_t0loc := cvl (p_t0loc p); p_Tloc := cvl (p_Tloc p);
     p_Xi := cvlll (p_Xi p); p_Xc := cvllll (p_Xc p); p_Zc := cvllll (p_Zc p) |}.

Definition out_row (r : row F) : Z * Z * Z * Z * F :=
  (kind_code (rw_kind r), Z.of_nat (rw_id r), rw_pt r, sense_code (rw_sense r), rw_h r).

(* NLP of a shooting transcription at a point: objective, rows, node states *)
Definition run_shooting (oc : ocp) (pq : point Q) :=
  let pt := point_of_Q pq in
  let single := match m_kind (o_method oc) with SS => true | _ => false end in
  let L := lists_of oc pt single in
  let rows := match transcribe_shooting oc pt single with Some r => r | None => [] end in
  let N := m_N (o_method oc) in
  let nodes := map Z.of_nat (seq 0 N) ++ [(-1)%Z] in
  (objective L (o_objective oc), map out_row rows, L_X L, shooting_accepts oc,
   (* time read-back: control grid, integrator grid, DT and DT_control at the nodes *)
   (L_cg L, concat (L_ig L), map (fun k => e_DT (env_control L k)) nodes,
    map (fun k => e_DTc (env_control L k)) nodes)).

(* NLP of a DirectCollocation transcription at a point *)
Definition run_dc (oc : ocp) (pq : point Q) :=
  let pt := point_of_Q pq in
  let L := dc_lists oc pt in
  let N := m_N (o_method oc) in
  let nodes := map Z.of_nat (seq 0 N) ++ [(-1)%Z] in
  (objective L (o_objective oc), map out_row (rows_dc oc pt), L_X L, true,
   (L_cg L, concat (L_ig L), map (fun k => e_DT (env_control L k)) nodes,
    map (fun k => e_DTc (env_control L k)) nodes)).

Definition run_any (oc : ocp) (pq : point Q) :=
  match m_kind (o_method oc) with
  | DC => run_dc oc pq
  | _ => run_shooting oc pq
  end.

(* symbolic sampling: specs are (grid code, entries); grid codes 0 control, 1 control-,
   2 integrator, 3 integrator_roots *)
Definition lists_any (oc : ocp) (pt : point F) : mlists F :=
  match m_kind (o_method oc) with
  | DC => dc_lists oc pt
  | SS => lists_of oc pt true
  | MS => lists_of oc pt false
  end.

Definition run_samples (oc : ocp) (specs : list (nat * list expr)) (vals : list pexpr) (pq : point Q) :=
  let pt := point_of_Q pq in
  let L := lists_any oc pt in
  (map (fun s => match fst s with
                 | 0%nat => sample_control L (snd s) true
                 | 1%nat => sample_control L (snd s) false
                 | 2%nat => sample_integrator L (snd s)
                 | _ => sample_roots L (length (m_tau (o_method oc))) (snd s)
                 end) specs,
   map (value_of L) vals).

(* collocation coefficients computed from the collocation points *)
Definition run_coeffs (tauq : list Q) :=
  let tau := map of_Q tauq in (coeff_C tau, coeff_D tau, coeff_B tau).
End Conv.

Definition run_shooting_float := @run_any _ FloatOps.
Definition run_coeffs_float := @run_coeffs _ FloatOps.
Definition run_samples_float := @run_samples _ FloatOps.

(* refined integrator sampling and the sampler function *)
Definition run_fine_float (oc : ocp) (specs : list (nat * list expr)) (sspecs : list (list expr * list Q))
           (pq : point Q) :=
  let pt := @point_of_Q _ FloatOps pq in
  let L := @lists_any _ FloatOps oc pt in
  (map (fun s => @sample_fine _ FloatOps L (snd s) (fst s)) specs,
   map (fun s => map (fun t => @sampler_at _ FloatOps PrimFloat.leb L (fst s) (@of_Q _ FloatOps t)) (snd s)) sspecs).
Definition qc_out (q : Qc) : Z * positive := (Qnum (this q), Qden (this q)).

Definition q (n : Z) (d : positive) : Q := Qmake n d.

(* starting point from the set_initial calls *)
Definition run_initial_float (oc : ocp) (nv nvc nvp : nat) (calls : list gcall) (pvals : list Q) :=
  let s := @start_values _ FloatOps oc nv nvc nvp calls pvals in
  (s_X s, s_U s, s_V s, s_VC s, s_VP s, (s_T s, s_t0 s), (s_Xi s, s_Xc s, s_Zc s), (s_t0loc s, s_Tloc s)).

(* der(): value of the total time derivative of e along the dynamics *)
From RV Require Import Mech.Der.
Definition run_der_float (ode : list expr) (es : list expr) (envs : list (list Q * list Q * list Q * Q)) :=
  map (fun en => let '(x, u, p, t) := en in
         let e := @mkEnv PrimFloat.float (map (@of_Q _ FloatOps) x) (map (@of_Q _ FloatOps) u) [] []
                         (map (@of_Q _ FloatOps) p) [] [] [] [] [] (@of_Q _ FloatOps t)
                         (@o0 _ FloatOps) (@o0 _ FloatOps) (@o0 _ FloatOps) (@o0 _ FloatOps) in
         map (fun ex => (@eval0 _ FloatOps e (tder ode ex), @eval0 _ FloatOps e (grad_form ode ex))) es) envs.

(* B-spline kernels *)
From RV Require Import Mech.Spline.
Definition cvf (l : list Q) := map (@of_Q _ FloatOps) l.
Definition run_spline_float (xi : list Q) (d : nat) (taus : list Q) (edges : bool) (c : list Q) :=
  (@eval_on_knots _ FloatOps (cvf xi) d (cvf taus) edges,
   @bspline_derivative _ FloatOps (cvf c) (cvf xi) d,
   @greville _ FloatOps (cvf xi) d).

(* grid='inf' rows of affine constraints *)
From RV Require Import Mech.Inf.
Definition run_inf_float (oc : ocp) (ics : list iconstr) (pq : point Q) :=
  let pt := @point_of_Q _ FloatOps pq in
  let L := @lists_any _ FloatOps oc pt in
  map (fun r => (Z.of_nat (rw_id r), rw_pt r, rw_h r)) (@inf_rows _ FloatOps L ics).

(* grid='inf' rows of constraints polynomial in the states *)
From RV Require Import Mech.Bern.
Definition run_infp_float (oc : ocp) (pcs : list bconstr) (pq : point Q) :=
  let pt := @point_of_Q _ FloatOps pq in
  let L := @lists_any _ FloatOps oc pt in
  map (fun r => (Z.of_nat (rw_id r), rw_pt r, rw_h r)) (@infp_rows _ FloatOps L pcs).

(* multi-stage NLP: objective, rows (constraint ids offset by 1000 * stage tag), acceptance *)
From RV Require Import Mech.Stages.
Definition run_multi_float (mu : multi) (pq : list (point Q) * list Q) :=
  let pts := map (@point_of_Q _ FloatOps) (fst pq) in
  let V := cvf (snd pq) in
  (@multi_objective _ FloatOps mu pts V,
   map (fun r => (kind_code (rw_kind (snd r)),
                  (Z.of_nat (fst r) * 1000 + Z.of_nat (rw_id (snd r)))%Z,
                  rw_pt (snd r), sense_code (rw_sense (snd r)), rw_h (snd r)))
       (@multi_rows _ FloatOps mu pts V),
   @nil (list (list PrimFloat.float)), multi_accepts mu).
