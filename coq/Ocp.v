(* The case language: an OCP specification as the harness writes it (mirrors
   the fields of rockit's Stage that transcription reads). *)
From Coq Require Import ZArith QArith List Bool.
From RV Require Import Base.Num Expr.
Import ListNotations.

Inductive intg_kind := IRK | IEuler | INext.
Inductive method_kind := MS | SS | DC.

(* time-grid classes of sampling_method.py; irrational/implementation-computed
   numbers (growth factor root, density nodes, user function values) are inputs *)
Inductive grid_spec :=
| GUniform
| GGeometric (g : Q) (local : bool)     (* g = growth_factor(N) as computed by rockit *)
| GNodes (n : list Q)                   (* FunctionGrid / DensityGrid: normalized nodes *)
| GFree.

Record grid_opts := mkGridOpts {
  go_spec : grid_spec;
  go_localize_t0 : bool;
  go_localize_T : bool;
  go_min : option Q;       (* None = 0 (default) *)
  go_max : option Q }.     (* None = inf *)

Record cmethod := mkMethod {
  m_kind : method_kind;
  m_N : nat;
  m_M : nat;
  m_intg : intg_kind;
  m_grid : grid_opts;
  m_tau : list Q }.        (* DirectCollocation: collocation_points(degree, scheme) as returned by CasADi *)

Inductive rel := REq | RLe.

(* one scalar relation  lhs (==|<=) rhs, all sides divided by scale *)
Record constr := mkConstr {
  c_id : nat;
  c_rel : rel;
  c_lhs : expr;
  c_rhs : expr;
  c_scale : Q;
  c_first : bool;
  c_last : bool;
  c_goffs : list Z }.   (* offsets occurring anywhere in the declared (vector) constraint this
                          relation belongs to: an instance is placed or dropped as a whole *)

(* non-signal expressions: objective terms and boundary constraints *)
Inductive pexpr :=
| PC (q : Q)
| PAt0 (e : expr) | PAtf (e : expr)
| PInt (i : nat)            (* ocp.integral(e): quadrature slot i at tf *)
| PSum (e : expr) | PSumP (e : expr)
| PIntC (e : expr)          (* ocp.integral(e, grid='control') *)
| PSym (s : sym)            (* global symbols only: SP, SV, SbigT, St0 *)
| PAdd (a b : pexpr) | PSub (a b : pexpr) | PMul (a b : pexpr) | PDiv (a b : pexpr)
| PNeg (a : pexpr) | PPow (a : pexpr) (n : nat).

Record pconstr := mkPConstr {
  pc_id : nat;
  pc_rel : rel;
  pc_lhs : pexpr;
  pc_rhs : pexpr;
  pc_scale : Q }.

Inductive horizon := HFixed (q : Q) | HFree (guess : Q) | HParam (i : nat) | HVar (i : nat).

Record ocp := mkOcp {
  o_nx : nat; o_nu : nat; o_nz : nat;
  o_ode : list expr;          (* one right-hand side (or update rule) per state slot *)
  o_quad : list expr;         (* explicit quadrature states, then the integrands of ocp.integral *)
  o_alg : list expr;
  o_scale_x : list Q; o_scale_u : list Q; o_scale_z : list Q; o_scale_der : list Q;
  o_c_control : list constr;
  o_c_integrator : list constr;
  o_c_roots : list constr;
  o_c_point : list pconstr;
  o_objective : list pexpr;
  o_t0 : horizon; o_T : horizon;
  o_method : cmethod }.
