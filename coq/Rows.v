(* Normal form of NLP rows.  A canonical Opti row (lb, g, ub) is represented by
   its normal rows: an equality h = 0 (lb = ub) or inequalities h <= 0
   (g - ub, lb - g for each finite bound).  Both sides of the correspondence
   are brought to this form, which is independent of how constant parts are
   distributed between g and its bounds. *)
From Coq Require Import ZArith List.
Import ListNotations.

Inductive sense := SEq | SLe.
Inductive kind := KDyn | KGrid | KPath | KPoint | KFreeT | KColl | KAlg | KCont | KInf.

Record row (F : Type) : Type := mkRow {
  rw_kind : kind;
  rw_id : nat;        (* index of the declared constraint (0 for structural rows) *)
  rw_pt : Z;          (* grid point / interval the row belongs to *)
  rw_sense : sense;
  rw_h : F }.
Arguments mkRow {F}. Arguments rw_kind {F}. Arguments rw_id {F}.
Arguments rw_pt {F}. Arguments rw_sense {F}. Arguments rw_h {F}.

Definition kind_code (k : kind) : Z :=
  match k with KDyn => 1 | KGrid => 2 | KPath => 3 | KPoint => 4 | KFreeT => 5
             | KColl => 6 | KAlg => 7 | KCont => 8 | KInf => 9 end%Z.
Definition sense_code (s : sense) : Z := match s with SEq => 0 | SLe => 1 end%Z.
