(* Expression language of the case files and its evaluation.

   A rockit expression over the stage's symbols is modelled by [expr]; vector
   and matrix valued symbols are flattened (column major) to scalar slots by
   the harness.  [EOff n e] is rockit's ocp.offset(e, n) / next / prev
   placeholder; its body must itself be offset free ([off_free]). *)
From Coq Require Import ZArith QArith List Bool.
From RV Require Import Base.Num.
Import ListNotations.

Inductive sym : Type :=
| SX (i : nat)    (* state slot *)
| SU (i : nat)    (* control slot *)
| SZ (i : nat)    (* algebraic slot *)
| SQ (i : nat)    (* quadrature state slot *)
| SP (i : nat)    (* global parameter slot *)
| SPC (i : nat)   (* per-interval parameter slot (grid='control') *)
| SPP (i : nat)   (* per-interval parameter with include_last *)
| SV (i : nat)    (* global variable slot *)
| SVC (i : nat)   (* per-interval variable slot *)
| SVP (i : nat)   (* per-interval variable with include_last *)
| St | SbigT | St0 | SDT | SDTc.

Inductive expr : Type :=
| EC (q : Q)
| ES (s : sym)
| EAdd (a b : expr) | ESub (a b : expr) | EMul (a b : expr) | EDiv (a b : expr)
| ENeg (a : expr)
| EPow (a : expr) (n : nat)
| EOff (n : Z) (a : expr).

Section Eval.
Context {F : Type} {OF : Ops F}.

Record env : Type := mkEnv {
  e_x : list F; e_u : list F; e_z : list F; e_q : list F;
  e_p : list F; e_pc : list F; e_pp : list F;
  e_v : list F; e_vc : list F; e_vp : list F;
  e_t : F; e_T : F; e_t0 : F; e_DT : F; e_DTc : F }.

Definition lookup (en : env) (s : sym) : F :=
  match s with
  | SX i => nth i (e_x en) o0 | SU i => nth i (e_u en) o0
  | SZ i => nth i (e_z en) o0 | SQ i => nth i (e_q en) o0
  | SP i => nth i (e_p en) o0 | SPC i => nth i (e_pc en) o0
  | SPP i => nth i (e_pp en) o0
  | SV i => nth i (e_v en) o0 | SVC i => nth i (e_vc en) o0
  | SVP i => nth i (e_vp en) o0
  | St => e_t en | SbigT => e_T en | St0 => e_t0 en
  | SDT => e_DT en | SDTc => e_DTc en
  end.

(* [off n] is the environment in which an offset-n operand is evaluated *)
Fixpoint eval (en : env) (off : Z -> env) (e : expr) : F :=
  match e with
  | EC q => of_Q q
  | ES s => lookup en s
  | EAdd a b => eval en off a +! eval en off b
  | ESub a b => eval en off a -! eval en off b
  | EMul a b => eval en off a *! eval en off b
  | EDiv a b => eval en off a /! eval en off b
  | ENeg a => oopp (eval en off a)
  | EPow a n => opow (eval en off a) n
  | EOff n a => eval (off n) off a
  end.

(* evaluation of offset-free expressions *)
Definition eval0 (en : env) (e : expr) : F := eval en (fun _ => en) e.

End Eval.
Arguments env F : clear implicits.

Fixpoint offsets (e : expr) : list Z :=
  match e with
  | EC _ | ES _ => []
  | EAdd a b | ESub a b | EMul a b | EDiv a b => offsets a ++ offsets b
  | ENeg a | EPow a _ => offsets a
  | EOff n a => n :: offsets a
  end.

Fixpoint off_free (e : expr) : bool :=
  match e with
  | EC _ | ES _ => true
  | EAdd a b | ESub a b | EMul a b | EDiv a b => off_free a && off_free b
  | ENeg a | EPow a _ => off_free a
  | EOff _ _ => false
  end.

(* well formed: bodies of offsets are offset free *)
Fixpoint wf_off (e : expr) : bool :=
  match e with
  | EC _ | ES _ => true
  | EAdd a b | ESub a b | EMul a b | EDiv a b => wf_off a && wf_off b
  | ENeg a | EPow a _ => wf_off a
  | EOff _ a => off_free a
  end.

Definition sym_eqb (a b : sym) : bool :=
  match a, b with
  | SX i, SX j | SU i, SU j | SZ i, SZ j | SQ i, SQ j | SP i, SP j
  | SPC i, SPC j | SPP i, SPP j | SV i, SV j | SVC i, SVC j | SVP i, SVP j => Nat.eqb i j
  | St, St | SbigT, SbigT | St0, St0 | SDT, SDT | SDTc, SDTc => true
  | _, _ => false
  end.

Fixpoint mentions (p : sym -> bool) (e : expr) : bool :=
  match e with
  | EC _ => false
  | ES s => p s
  | EAdd a b | ESub a b | EMul a b | EDiv a b => mentions p a || mentions p b
  | ENeg a | EPow a _ => mentions p a
  | EOff _ a => mentions p a
  end.

