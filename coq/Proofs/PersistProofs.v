(* C18: if the codec returns the declaration it was given, the loaded OCP and the original after
   saving are both fresh OCPs with the final specification: same next NLP, and the same behaviour
   under any further history. *)
From Coq Require Import List Bool.
From RV Require Import Mech.History Mech.Persist Proofs.HistProofs.
Import ListNotations.

Section PersistProofs.
Variables (Spec Edit Upd NLP Bytes : Type).
Variable apply_edit : Spec -> Edit -> Spec.
Variable apply_upd : Spec -> Upd -> Spec.
Variable transcribe : Spec -> NLP.
Variable live_upd : NLP -> Upd -> NLP.
Variable ser : Spec -> Bytes.
Variable deser : Bytes -> option Spec.
Hypothesis upd_commutes : forall sp u, live_upd (transcribe sp) u = transcribe (apply_upd sp u).
Hypothesis codec_roundtrip : forall sp, deser (ser sp) = Some sp.

Notation hrun := (hrun Spec Edit Upd NLP apply_edit apply_upd transcribe live_upd).
Notation next_nlp := (next_nlp Spec Edit Upd NLP apply_edit apply_upd transcribe live_upd).
Notation final_spec := (final_spec Spec Edit Upd apply_edit apply_upd).
Notation save := (save Spec NLP Bytes ser).
Notation load := (load Spec NLP Bytes deser).

Lemma save_spec s : h_spec Spec NLP (fst (save s)) = h_spec Spec NLP s.
Proof. reflexivity. Qed.

Lemma save_is_fresh s : fst (save s) = hinit Spec NLP (h_spec Spec NLP s).
Proof. reflexivity. Qed.

Lemma load_save s : load (snd (save s)) = Some (hinit Spec NLP (h_spec Spec NLP s)).
Proof. unfold Persist.load, Persist.save. cbn [snd]. rewrite codec_roundtrip. reflexivity. Qed.

(* whatever history preceded the save and whatever history follows, the loaded OCP behaves like a
   freshly written OCP with the specification at the time of saving *)
Theorem loaded_behaves_fresh sp ops ops' :
  let s := hrun (hinit Spec NLP sp) ops in
  exists l, load (snd (save s)) = Some l /\
    next_nlp (hrun l ops') = Some (transcribe (final_spec (final_spec sp ops) ops')).
Proof.
  intro s. exists (hinit Spec NLP (h_spec Spec NLP s)). split; [apply load_save|].
  rewrite (history_independent Spec Edit Upd NLP apply_edit apply_upd transcribe live_upd upd_commutes).
  subst s. rewrite (spec_run Spec Edit Upd NLP apply_edit apply_upd transcribe live_upd). reflexivity.
Qed.

(* saving does not damage the original: it keeps its declaration and goes on like a fresh OCP *)
Theorem original_survives_save sp ops ops' :
  let s := hrun (hinit Spec NLP sp) ops in
  h_spec Spec NLP (fst (save s)) = final_spec sp ops /\
  next_nlp (hrun (fst (save s)) ops') = Some (transcribe (final_spec (final_spec sp ops) ops')).
Proof.
  intro s. split.
  - subst s. rewrite save_spec. apply (spec_run Spec Edit Upd NLP apply_edit apply_upd transcribe live_upd).
  - rewrite save_is_fresh.
    rewrite (history_independent Spec Edit Upd NLP apply_edit apply_upd transcribe live_upd upd_commutes).
    subst s. rewrite (spec_run Spec Edit Upd NLP apply_edit apply_upd transcribe live_upd). reflexivity.
Qed.

(* hence the loaded OCP and the original work on the same NLP after any common continuation *)
Corollary loaded_eq_original sp ops ops' l :
  load (snd (save (hrun (hinit Spec NLP sp) ops))) = Some l ->
  next_nlp (hrun l ops') = next_nlp (hrun (fst (save (hrun (hinit Spec NLP sp) ops))) ops').
Proof.
  intro Hl. destruct (loaded_behaves_fresh sp ops ops') as (l' & Hl' & Hn).
  rewrite Hl in Hl'. injection Hl' as <-. rewrite Hn.
  symmetry. apply (proj2 (original_survives_save sp ops ops')).
Qed.

End PersistProofs.
