(* C17: over the reals, dcdb is the derivative of the Cox-de Boor basis function on its knot span
   (Coquelicot), hence the spline with the coefficients of bspline_derivative is the analytic
   derivative of the spline. *)
From Coq Require Import Reals ZArith List Lia Lra Bool.
From Coquelicot Require Import Coquelicot.
From RV Require Import Base.Num Base.Vec Mech.Spline Proofs.DerProofs Proofs.SplineProofs Proofs.SplineDer.
Import ListNotations.
Local Open Scope R_scope.

Lemma affine_over_const_derive (a c x : R) : is_derive (fun y : R => (y - a) / c) x (1 / c).
Proof. auto_derive; [trivial|]. unfold Rdiv. ring. Qed.

Lemma const_minus_over_const_derive (a c x : R) : is_derive (fun y : R => (a - y) / c) x (- (1) / c).
Proof. auto_derive; [trivial|]. unfold Rdiv. ring. Qed.

Theorem cdb_is_derive (k : nat -> R) (j e : nat) :
  forall (i : nat) (x : R), is_derive (fun y => @cdb R ROps k j y e i) x (@dcdb R ROps k j x e i).
Proof.
  induction e as [|e' IH]; intros i x.
  - cbn [cdb dcdb]. destruct (Nat.eqb i j); apply R_derive_const.
  - cbn [cdb dcdb]. cbn [oadd omul osub odiv oopp o0 o1 ROps].
    apply (is_derive_plus
             (fun y => if (Nat.leb (j - e') i && Nat.leb i j)%bool
                       then (y - k i) / (k (i + S e')%nat - k i) * @cdb R ROps k j y e' i else 0)
             (fun y => if (Nat.leb (j - e') (S i) && Nat.leb (S i) j)%bool
                       then (k (S (i + S e')) - y) / (k (S (i + S e')) - k (S i)) * @cdb R ROps k j y e' (S i) else 0)).
    + destruct (Nat.leb (j - e') i && Nat.leb i j)%bool; [|apply R_derive_const].
      apply (is_derive_mult (fun y => (y - k i) / (k (i + S e')%nat - k i)) (fun y => @cdb R ROps k j y e' i)).
      * apply affine_over_const_derive.
      * apply IH.
      * intros n m. apply Rmult_comm.
    + destruct (Nat.leb (j - e') (S i) && Nat.leb (S i) j)%bool; [|apply R_derive_const].
      apply (is_derive_mult (fun y => (k (S (i + S e')) - y) / (k (S (i + S e')) - k (S i)))
                            (fun y => @cdb R ROps k j y e' (S i))).
      * apply const_minus_over_const_derive.
      * apply IH.
      * intros n m. apply Rmult_comm.
Qed.

Lemma R_field_laws : FieldLaws ROps.
Proof. exact RealField.Rfield. Qed.

Lemma sumf_is_derive (f : nat -> R -> R) (df : nat -> R) (c : nat -> R) (x : R) n :
  (forall i, is_derive (f i) x (df i)) ->
  is_derive (fun y => @sumf R ROps (fun i => c i * f i y) n) x (@sumf R ROps (fun i => c i * df i) n).
Proof.
  intro H. induction n as [|n IH]; cbn [sumf].
  - apply R_derive_const.
  - cbn [oadd ROps].
    apply (is_derive_plus (fun y => @sumf R ROps (fun i => c i * f i y) n) (fun y => c n * f n y)); [exact IH|].
    apply (is_derive_scal (f n) x (c n) (df n)). apply H.
Qed.

(* the analytic derivative of the spline sum_i c_i B_{i,d}(y) at x in knot span j (d = S e' <= j < n, knots
   distinct across the span) is the spline of degree d-1 with the coefficients of bspline_derivative *)
Theorem spline_is_derive (k : nat -> R) (j : nat) (c : nat -> R) (e' n : nat) (x : R) :
  (forall a b, (a <= j)%nat -> (j < b)%nat -> k b - k a <> 0) ->
  (S e' <= j)%nat -> (j < n)%nat ->
  is_derive (fun y => @sumf R ROps (fun i => c i * @cdb R ROps k j y (S e') i) n) x
            (@sumf R ROps (fun i => @of_nat R ROps (S e') * (c (S i) - c i) / (k (S i + S e')%nat - k (S i))
                                   * @cdb R ROps k j x e' (S i)) (n - 1)).
Proof.
  intros Hsep Hd Hn.
  pose proof (@spline_derivative R ROps R_field_laws k j x Hsep c e' n Hd Hn) as E.
  cbn [oadd omul osub odiv oopp o0 o1 ROps] in E. rewrite <- E.
  apply (sumf_is_derive (fun i y => @cdb R ROps k j y (S e') i) (fun i => @dcdb R ROps k j x (S e') i)).
  intro i. apply cdb_is_derive.
Qed.
