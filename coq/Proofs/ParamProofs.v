(* C09: parameters behave like the numbers written in; set_value is last-wins per parameter and
   independent of whether it happens before or after transcription. *)
From Coq Require Import ZArith QArith List Field Lia Bool.
From RV Require Import Base.Num Base.PyList Base.Vec Expr Ocp Rows Mech.Grid Mech.Sampling Mech.Params
     Proofs.NumLemmas.
Import ListNotations.
Local Open Scope nat_scope.

(* replace the global-parameter symbols by their values *)
Fixpoint subst_p (vals : list Q) (e : expr) : expr :=
  match e with
  | ES (SP i) => EC (nth i vals 0%Q)
  | EC _ | ES _ => e
  | EAdd a b => EAdd (subst_p vals a) (subst_p vals b)
  | ESub a b => ESub (subst_p vals a) (subst_p vals b)
  | EMul a b => EMul (subst_p vals a) (subst_p vals b)
  | EDiv a b => EDiv (subst_p vals a) (subst_p vals b)
  | ENeg a => ENeg (subst_p vals a)
  | EPow a n => EPow (subst_p vals a) n
  | EOff n a => EOff n (subst_p vals a)
  end.

Section ParamProofs.
Context {F : Type} {OF : Ops F}.
Hypothesis Fth : field_theory o0 o1 oadd omul osub oopp odiv oinv (@eq F).
Add Field FFpp : Fth.

Lemma of_Q_0 : (@of_Q F OF 0%Q) = o0.
Proof. unfold of_Q. cbn. field. destruct Fth as [_ H _ _]. exact H. Qed.

Lemma nth_map_of_Q (vals : list Q) i : nth i (map (@of_Q F OF) vals) o0 = of_Q (nth i vals 0%Q).
Proof.
  revert i. induction vals as [|v vals IH]; intro i.
  - destruct i; cbn [map nth]; symmetry; apply of_Q_0.
  - destruct i; cbn [map nth]; [reflexivity|apply IH].
Qed.

(* an expression with the parameter values written in evaluates like the parametric expression in
   any environment (and any offset environments) that carries those values *)
Theorem eval_subst_p (vals : list Q) (e : expr) :
  forall (en : env F) (off : Z -> env F),
    e_p en = map of_Q vals -> (forall n, e_p (off n) = map of_Q vals) ->
    eval en off (subst_p vals e) = eval en off e.
Proof.
  induction e as [q|s|a IHa b IHb|a IHa b IHb|a IHa b IHb|a IHa b IHb|a IHa|a IHa m|n a IHa];
    intros en off Hen Hoff; cbn [subst_p eval];
    try (rewrite IHa, IHb by assumption; reflexivity);
    try (rewrite IHa by assumption; reflexivity);
    try reflexivity.
  - destruct s; try reflexivity. cbn [subst_p eval Expr.lookup]. rewrite Hen. symmetry. apply nth_map_of_Q.
  - apply IHa; [apply Hoff|exact Hoff].
Qed.

(* every environment the transcription evaluates in carries the parameter values of the method *)
Theorem envs_share_params (L : mlists F) :
  (forall k, e_p (env_control L k) = L_P L) /\
  (forall k, e_p (env_inner L k) = L_P L) /\
  (forall k i, e_p (env_integrator L k i) = L_P L) /\
  (forall k i j, e_p (env_root L k i j) = L_P L) /\
  e_p (global_env L) = L_P L.
Proof. repeat split. Qed.

Corollary param_as_constant_control (L : mlists F) (vals : list Q) k e :
  L_P L = map of_Q vals ->
  eval_control L k (subst_p vals e) = eval_control L k e.
Proof. intro H. unfold eval_control. apply eval_subst_p; [exact H|intro n; exact H]. Qed.

Corollary param_as_constant_integrator (L : mlists F) (vals : list Q) k i e :
  L_P L = map of_Q vals ->
  eval0 (env_integrator L k i) (subst_p vals e) = eval0 (env_integrator L k i) e.
Proof. intro H. unfold eval0. apply eval_subst_p; [exact H|intro n; exact H]. Qed.

Corollary param_as_constant_root (L : mlists F) (vals : list Q) k i j e :
  L_P L = map of_Q vals ->
  eval0 (env_root L k i j) (subst_p vals e) = eval0 (env_root L k i j) e.
Proof. intro H. unfold eval0. apply eval_subst_p; [exact H|intro n; exact H]. Qed.

End ParamProofs.

(* ---- set_value histories *)
Section SetValue.
Variable V : Type.
Notation pstate := (pstate V).

(* while transcribed, the live values are the declared ones *)
Definition PInv (s : pstate) : Prop :=
  ps_transcribed s = true -> forall i, lookup (ps_live s) i = lookup (ps_declared s) i.

Lemma pinv_init (a : assoc V) : PInv (pinit a).
Proof. intro H. discriminate H. Qed.

Lemma pinv_step (s : pstate) (o : pop V) : PInv s -> PInv (pstep s o).
Proof.
  intros I. destruct o as [i v| |]; unfold pstep.
  - destruct (ps_transcribed s) eqn:E.
    + intros _ j. cbn [ps_live ps_declared lookup upd]. rewrite (I E j). reflexivity.
    + intro H. discriminate H.
  - destruct (ps_transcribed s) eqn:E; [exact I|]. intros _ j. reflexivity.
  - intro H. discriminate H.
Qed.

Lemma pinv_run (s : pstate) (ops : list (pop V)) : PInv s -> PInv (prun s ops).
Proof. revert s. induction ops as [|o ops IH]; intros s I; [exact I|]. apply IH. apply pinv_step. exact I. Qed.

(* what the next solve sees is the declared table *)
Lemma seen_declared (s : pstate) i : PInv s -> seen s i = lookup (ps_declared s) i.
Proof.
  intro I. unfold seen, pstep. destruct (ps_transcribed s) eqn:E; [|reflexivity]. apply I. exact E.
Qed.

Lemma declared_run (s : pstate) (ops : list (pop V)) i :
  lookup (ps_declared (prun s ops)) i = last_set ops i (lookup (ps_declared s) i).
Proof.
  revert s. induction ops as [|o ops IH]; intro s; [reflexivity|].
  cbn [prun fold_left last_set]. fold (prun (pstep s o) ops). rewrite IH.
  destruct o as [j v| |]; unfold pstep.
  - destruct (ps_transcribed s); cbn [ps_declared lookup upd]; destruct (Nat.eqb j i); reflexivity.
  - destruct (ps_transcribed s); reflexivity.
  - reflexivity.
Qed.

(* last call wins, whatever transcriptions, queries and edits are interleaved *)
Theorem set_value_last_wins (a : assoc V) (ops : list (pop V)) i :
  seen (prun (pinit a) ops) i = last_set ops i (lookup a i).
Proof.
  rewrite seen_declared by (apply pinv_run; apply pinv_init).
  apply declared_run.
Qed.

(* a set_value replaces that parameter's value only *)
Theorem set_value_only_that_param (s : pstate) i (v : V) j : PInv s -> j <> i ->
  seen (pstep s (SetValue i v)) j = seen s j.
Proof.
  intros I Hne. rewrite !seen_declared by (try apply pinv_step; exact I).
  unfold pstep. destruct (ps_transcribed s); cbn [ps_declared lookup upd];
    (destruct (Nat.eqb i j) eqn:E; [apply Nat.eqb_eq in E; congruence|reflexivity]).
Qed.

(* supplying a value before the first transcription or changing it afterwards is the same *)
Theorem set_value_before_eq_after (a : assoc V) i (v : V) j :
  seen (prun (pinit a) [SetValue i v; Transcribe]) j =
  seen (prun (pinit a) [Transcribe; SetValue i v]) j.
Proof. rewrite !set_value_last_wins. reflexivity. Qed.

End SetValue.
