(* C03 (analytic part, over the reals): a one-step method whose step map is Lipschitz and whose local
   error is C*h^(p+1) has global error O(h^p) (discrete Gronwall); the time rescaling rockit puts
   around CasADi integrators and sys_simulator integrates the declared model. *)
From Coq Require Import Reals Lra Lia.
From Coquelicot Require Import Coquelicot.
Local Open Scope R_scope.

Fixpoint geom (a : R) (n : nat) : R := match n with O => 0 | S n => 1 + a * geom a n end.

Lemma geom_nonneg a n : 0 <= a -> 0 <= geom a n.
Proof.
  intro Ha. induction n as [|n IH]; cbn [geom]; [lra|].
  assert (0 <= a * geom a n) by (apply Rmult_le_pos; assumption). lra.
Qed.

Theorem discrete_gronwall (e : nat -> R) (a d : R) :
  0 <= a -> (forall n, e (S n) <= a * e n + d) ->
  forall n, e n <= a ^ n * e 0%nat + d * geom a n.
Proof.
  intros Ha Hstep n. induction n as [|n IH].
  - cbn [pow geom]. lra.
  - specialize (Hstep n).
    assert (H1 : a * e n <= a * (a ^ n * e 0%nat + d * geom a n)) by (apply Rmult_le_compat_l; assumption).
    cbn [pow geom]. lra.
Qed.

Lemma geom_closed a n : a <> 1 -> geom a n = (a ^ n - 1) / (a - 1).
Proof.
  intro Ha. induction n as [|n IH]; cbn [geom pow].
  - field. lra.
  - rewrite IH. field. lra.
Qed.

Lemma pow_le_exp (x : R) (n : nat) : 0 <= x -> (1 + x) ^ n <= exp (INR n * x).
Proof.
  intro Hx. induction n as [|n IH].
  - cbn [pow INR]. rewrite Rmult_0_l, exp_0. lra.
  - rewrite S_INR. replace ((INR n + 1) * x) with (x + INR n * x) by ring.
    rewrite exp_plus. cbn [pow].
    pose proof (exp_ineq1_le x) as H1.
    assert (0 <= (1 + x) ^ n) by (apply pow_le; lra).
    assert (0 <= exp x) by (left; apply exp_pos).
    apply Rmult_le_compat; lra.
Qed.

(* global error of a one-step method: stability constant L of the step map, local error C*h^(p+1) *)
Theorem one_step_global_error (e : nat -> R) (h L C : R) (p : nat) :
  0 < h -> 0 < L -> 0 <= C -> e 0%nat = 0 ->
  (forall n, e (S n) <= (1 + h * L) * e n + C * h ^ (S p)) ->
  forall n, e n <= C * h ^ p * ((exp (INR n * h * L) - 1) / L).
Proof.
  intros Hh HL HC H0 Hstep n.
  assert (HhL : 0 < h * L) by (apply Rmult_lt_0_compat; assumption).
  pose proof (discrete_gronwall e (1 + h * L) (C * h ^ S p) ltac:(lra) Hstep n) as G.
  rewrite H0, Rmult_0_r, Rplus_0_l in G.
  rewrite geom_closed in G by lra.
  replace (1 + h * L - 1) with (h * L) in G by ring.
  eapply Rle_trans; [exact G|].
  cbn [pow].
  replace (C * (h * h ^ p) * (((1 + h * L) ^ n - 1) / (h * L)))
    with (C * h ^ p * (((1 + h * L) ^ n - 1) / L)) by (field; lra).
  apply Rmult_le_compat_l.
  - apply Rmult_le_pos; [exact HC|apply pow_le; lra].
  - unfold Rdiv. apply Rmult_le_compat_r; [left; apply Rinv_0_lt_compat; exact HL|].
    pose proof (pow_le_exp (h * L) n ltac:(lra)) as E.
    replace (INR n * h * L) with (INR n * (h * L)) by ring. lra.
Qed.

(* on a horizon of length T covered by n steps of size h: error <= K * h^p with K independent of h *)
Corollary global_error_order (e : nat -> R) (h L C T : R) (p n : nat) :
  0 < h -> 0 < L -> 0 <= C -> e 0%nat = 0 -> INR n * h <= T ->
  (forall k, e (S k) <= (1 + h * L) * e k + C * h ^ (S p)) ->
  e n <= (C * ((exp (T * L) - 1) / L)) * h ^ p.
Proof.
  intros Hh HL HC H0 HT Hstep.
  pose proof (one_step_global_error e h L C p Hh HL HC H0 Hstep n) as G.
  eapply Rle_trans; [exact G|].
  replace (C * ((exp (T * L) - 1) / L) * h ^ p) with (C * h ^ p * ((exp (T * L) - 1) / L)) by ring.
  apply Rmult_le_compat_l.
  - apply Rmult_le_pos; [exact HC|apply pow_le; lra].
  - unfold Rdiv. apply Rmult_le_compat_r; [left; apply Rinv_0_lt_compat; exact HL|].
    assert (INR n * h * L <= T * L) by (apply Rmult_le_compat_r; lra).
    assert (exp (INR n * h * L) <= exp (T * L)).
    { destruct H as [H|H]; [left; apply exp_increasing; exact H|rewrite H; lra]. }
    lra.
Qed.

(* ---- the rescaling of intg_builtin / sys_simulator (sampling_method.py:508-526, ocp.py:235-283):
   the integrator is given y' = DT * f(y, t0 + s*DT) on s in [0,1]; if x solves x' = f(x,t) then
   y(s) = x(t0 + s*DT) solves the rescaled problem, so y(1) = x(t0 + DT).  States are indexed
   families of component functions. *)
Theorem rescaled_flow (f : nat -> (nat -> R) -> R -> R) (x : nat -> R -> R) (t0 DT : R) :
  (forall i t, is_derive (x i) t (f i (fun j => x j t) t)) ->
  forall i s,
    is_derive (fun s' => x i (t0 + s' * DT)) s
              (DT * f i (fun j => x j (t0 + s * DT)) (t0 + s * DT)).
Proof.
  intros Hx i s.
  evar_last.
  - apply (is_derive_comp (x i) (fun s' => t0 + s' * DT) s).
    + apply Hx.
    + instantiate (1 := DT). auto_derive; [exact I|]. ring.
  - unfold scal. cbn. unfold mult. cbn. ring.
Qed.

Lemma rescaled_flow_endpoints (x : nat -> R -> R) (t0 DT : R) i :
  (fun s' => x i (t0 + s' * DT)) 0 = x i t0 /\ (fun s' => x i (t0 + s' * DT)) 1 = x i (t0 + DT).
Proof. split; cbn beta; f_equal; ring. Qed.

(* the quadrature of the rescaled problem accumulates the integral of the declared integrand *)
Theorem rescaled_quadrature (q : R -> R) (Q : R -> R) (t0 DT : R) :
  (forall t, is_derive Q t (q t)) ->
  forall s, is_derive (fun s' => Q (t0 + s' * DT)) s (DT * q (t0 + s * DT)).
Proof.
  intros HQ s.
  evar_last.
  - apply (is_derive_comp Q (fun s' => t0 + s' * DT) s).
    + apply HQ.
    + instantiate (1 := DT). auto_derive; [exact I|]. ring.
  - unfold scal. cbn. unfold mult. cbn. ring.
Qed.
