(* Generic list facts used by the refinement proofs. *)
From Coq Require Import ZArith List Lia Bool.
Import ListNotations.

Lemma fold_left_seq_inv {A} (f : A -> nat -> A) (P : nat -> A -> Prop) (N : nat) (init : A) :
  P 0 init ->
  (forall k a, k < N -> P k a -> P (S k) (f a k)) ->
  P N (fold_left f (seq 0 N) init).
Proof.
  intros H0 Hs.
  assert (G : forall n s a, s + n = N -> P s a -> P N (fold_left f (seq s n) a)).
  { induction n as [|n IH]; intros s a Hsn Pa.
    - cbn. replace N with s by lia. exact Pa.
    - cbn [seq fold_left]. apply IH; [lia|]. apply Hs; [lia|exact Pa]. }
  apply (G N 0 init); [lia|exact H0].
Qed.

Lemma nth_app_l {A} (l l' : list A) d i : i < length l -> nth i (l ++ l') d = nth i l d.
Proof. intro H. apply app_nth1. exact H. Qed.

Lemma nth_app_last {A} (l : list A) x d : nth (length l) (l ++ [x]) d = x.
Proof. rewrite app_nth2 by lia. rewrite Nat.sub_diag. reflexivity. Qed.

Lemma in_flat_map_seq {A} (f : nat -> list A) N x :
  In x (flat_map f (seq 0 N)) <-> exists k, k < N /\ In x (f k).
Proof.
  rewrite in_flat_map. split.
  - intros (k & Hk & Hx). apply in_seq in Hk. exists k. split; [lia|exact Hx].
  - intros (k & Hk & Hx). exists k. split; [apply in_seq; lia|exact Hx].
Qed.

Lemma in_map_seq {A} (f : nat -> A) N x :
  In x (map f (seq 0 N)) <-> exists i, i < N /\ x = f i.
Proof.
  rewrite in_map_iff. split.
  - intros (i & Hx & Hi). apply in_seq in Hi. exists i. split; [lia|symmetry; exact Hx].
  - intros (i & Hi & Hx). exists i. split; [symmetry; exact Hx|apply in_seq; lia].
Qed.

Lemma last_nth {A} (l : list A) d k : length l = S k -> last l d = nth k l d.
Proof.
  revert k. induction l as [|x l IH]; intros k Hl; [discriminate|].
  destruct l as [|y l].
  - cbn in Hl. assert (k = 0) by lia. subst. reflexivity.
  - destruct k as [|k]; [cbn in Hl; lia|].
    change (last (x :: y :: l) d) with (last (y :: l) d).
    cbn [nth]. apply IH. cbn in *. lia.
Qed.

Lemma nth_map_seq {A} (f : nat -> A) n s i d : i < n -> nth i (map f (seq s n)) d = f (s + i).
Proof.
  revert s i. induction n as [|n IH]; intros s i H; [lia|].
  destruct i as [|i]; cbn [seq map nth].
  - f_equal. lia.
  - rewrite IH by lia. f_equal. lia.
Qed.

Lemma flat_map_ext_in {A B} (f g : A -> list B) l :
  (forall a, In a l -> f a = g a) -> flat_map f l = flat_map g l.
Proof.
  induction l as [|x l IH]; intro H; [reflexivity|]. cbn [flat_map].
  rewrite (H x) by (left; reflexivity). rewrite IH; [reflexivity|].
  intros y Hy. apply H. right. exact Hy.
Qed.

From Coq Require Import Permutation.

Lemma flat_map_app_perm {A B} (f g : A -> list B) l :
  Permutation (flat_map f l ++ flat_map g l) (flat_map (fun x => f x ++ g x) l).
Proof.
  induction l as [|x l IH]; [constructor|]. cbn [flat_map].
  rewrite <- app_assoc.
  apply Permutation_trans with (f x ++ g x ++ flat_map f l ++ flat_map g l).
  - apply Permutation_app_head. rewrite !app_assoc. apply Permutation_app_tail.
    apply Permutation_app_comm.
  - rewrite <- app_assoc. do 2 apply Permutation_app_head. exact IH.
Qed.

Lemma flat_map_nil_fun {A B} (l : list A) : flat_map (fun _ : A => @nil B) l = [].
Proof. induction l; [reflexivity|exact IHl]. Qed.

Lemma flat_map_swap {A B C} (f : A -> B -> list C) la lb :
  Permutation (flat_map (fun a => flat_map (f a) lb) la)
              (flat_map (fun b => flat_map (fun a => f a b) la) lb).
Proof.
  induction la as [|a la IH].
  - cbn [flat_map]. rewrite flat_map_nil_fun. constructor.
  - cbn [flat_map].
    apply Permutation_trans with (flat_map (f a) lb ++ flat_map (fun b => flat_map (fun a0 => f a0 b) la) lb).
    + apply Permutation_app_head. exact IH.
    + apply flat_map_app_perm.
Qed.

Lemma nth_firstn_lt {A} (l : list A) n i d : i < n -> nth i (firstn n l) d = nth i l d.
Proof.
  revert l i. induction n as [|n IH]; intros l i H; [lia|].
  destruct l as [|x l]; [destruct i; reflexivity|].
  destruct i as [|i]; [reflexivity|]. cbn [firstn nth]. apply IH. lia.
Qed.
