(* Generic list facts used by the refinement proofs. *)
From Coq Require Import ZArith List Lia Bool.
Import ListNotations.

Lemma fold_left_seq_inv {A} (f : A -> nat -> A) (P : nat -> A -> Prop) (N : nat) (init : A) :
  P 0 init ->
  (forall k a, k < N -> P k a -> P (S k) (f a k)) ->
  P N (fold_left f (seq 0 N) init).
Proof.
  intros H0 Hs.
  assert (G : forall n s a, s + n = N -> P s a -> P N (fold_left f (seq s n) a)).
  { induction n as [|n IH]; intros s a Hsn Pa.
    - cbn. replace N with s by lia. exact Pa.
    - cbn [seq fold_left]. apply IH; [lia|]. apply Hs; [lia|exact Pa]. }
  apply (G N 0 init); [lia|exact H0].
Qed.

Lemma nth_app_l {A} (l l' : list A) d i : i < length l -> nth i (l ++ l') d = nth i l d.
Proof. intro H. apply app_nth1. exact H. Qed.

Lemma nth_app_last {A} (l : list A) x d : nth (length l) (l ++ [x]) d = x.
Proof. rewrite app_nth2 by lia. rewrite Nat.sub_diag. reflexivity. Qed.

Lemma in_flat_map_seq {A} (f : nat -> list A) N x :
  In x (flat_map f (seq 0 N)) <-> exists k, k < N /\ In x (f k).
Proof.
  rewrite in_flat_map. split.
  - intros (k & Hk & Hx). apply in_seq in Hk. exists k. split; [lia|exact Hx].
  - intros (k & Hk & Hx). exists k. split; [apply in_seq; lia|exact Hx].
Qed.

Lemma in_map_seq {A} (f : nat -> A) N x :
  In x (map f (seq 0 N)) <-> exists i, i < N /\ x = f i.
Proof.
  rewrite in_map_iff. split.
  - intros (i & Hx & Hi). apply in_seq in Hi. exists i. split; [lia|symmetry; exact Hx].
  - intros (i & Hi & Hx). exists i. split; [symmetry; exact Hx|apply in_seq; lia].
Qed.

Lemma last_nth {A} (l : list A) d k : length l = S k -> last l d = nth k l d.
Proof.
  revert k. induction l as [|x l IH]; intros k Hl; [discriminate|].
  destruct l as [|y l].
  - cbn in Hl. assert (k = 0) by lia. subst. reflexivity.
  - destruct k as [|k]; [cbn in Hl; lia|].
    change (last (x :: y :: l) d) with (last (y :: l) d).
    cbn [nth]. apply IH. cbn in *. lia.
Qed.
