(* C08: the dense-output polynomial of each integrator step starts at the step's start state,
   ends at its end state, and (explicit schemes) has the ODE right-hand side as initial slope. *)
From Coq Require Import ZArith QArith List Field Lia Bool.
From RV Require Import Base.Num Base.PyList Base.Vec Base.Poly Expr Ocp Rows Mech.Grid Mech.Intg
     Mech.Sampling Mech.Refine
     Proofs.NumLemmas Proofs.VecLemmas Proofs.ListLemmas Proofs.DynProofs Proofs.ColProofs.
Import ListNotations.
Local Open Scope nat_scope.

Section RefineProofs.
Context {F : Type} {OF : Ops F}.
Hypothesis Fth : field_theory o0 o1 oadd omul osub oopp odiv oinv (@eq F).
Hypothesis Ch0 : @Char0 F OF.
Add Field FFr : Fth.

Lemma o24_val : (@of_Z F OF 24) = o2 *! o2 *! o2 *! (o1 +! o2).
Proof. cbn. unfold o2. ring. Qed.
Lemma o24_nz : (@of_Z F OF 24) <> o0.
Proof. exact (Ch0 24%positive). Qed.
Lemma o6_nz' : (@of_Z F OF 6) <> o0.
Proof. exact (Ch0 6%positive). Qed.
Lemma o2_nz' : (@o2 F OF) <> o0.
Proof. intro H. apply (Ch0 2%positive). cbn [of_pos]. rewrite H. ring. Qed.

(* pointwise value of the dense polynomial with 5 coefficient columns *)
Lemma dense5_at (c0 c1 c2 c3 c4 : list F) (tau : F) i :
  vnth (dense_eval [c0; c1; c2; c3; c4] tau) i =
  vnth c0 i +! tau *! vnth c1 i +! tau *! tau *! vnth c2 i +! tau *! tau *! tau *! vnth c3 i
  +! tau *! tau *! tau *! tau *! vnth c4 i.
Proof.
  unfold dense_eval, tpower. cbn [length powers_from].
  rewrite (vnth_vlincomb Fth). cbn [lin_at]. ring.
Qed.

Lemma dense2_at (c0 c1 : list F) (tau : F) i :
  vnth (dense_eval [c0; c1] tau) i = vnth c0 i +! tau *! vnth c1 i.
Proof.
  unfold dense_eval, tpower. cbn [length powers_from].
  rewrite (vnth_vlincomb Fth). cbn [lin_at]. ring.
Qed.

Lemma powers_from_length (tau a : F) m : length (powers_from tau a m) = m.
Proof. revert a. induction m as [|m IH]; intro a; [reflexivity|]. cbn [powers_from length]. rewrite IH. reflexivity. Qed.

Lemma dense_length (cols : list (list F)) tau n :
  cols <> [] -> (forall c, In c cols -> length c = n) -> length (dense_eval cols tau) = n.
Proof.
  intros Hne Hn. unfold dense_eval. apply length_vlincomb; [|exact Hne|exact Hn].
  unfold tpower. apply powers_from_length.
Qed.

(* ---- RK4 dense output *)
Section RK.
Variable f : sysfun F.
Variable n : nat.
Hypothesis Hode : forall x t, length (s_ode f x t) = n.
Variables (X : list F) (t0 DT DTc : F).
Hypothesis HX : length X = n.
Hypothesis HDT : DT <> o0.

Let r := intg_rk f X t0 DT DTc.

Lemma rk_poly_shape : exists c1 c2 c3 c4, r_poly r = [X; c1; c2; c3; c4] /\ c1 = s_ode f X t0.
Proof. unfold r, intg_rk. cbn [r_poly]. eexists _, _, _, _. split; reflexivity. Qed.

Ltac vlen' := repeat first [ rewrite length_vadd | rewrite length_vsub | rewrite length_vscale
                           | rewrite length_vdivs ]; cbn [length].

Lemma rk_poly_lengths c : In c (r_poly r) -> length c = n.
Proof.
  unfold r, intg_rk. cbn [r_poly]. intros [<-|[<-|[<-|[<-|[<-|[]]]]]]; vlen'; rewrite ?Hode, ?HX; lia.
Qed.

(* the polynomial starts at the step's start state ... *)
Theorem rk_dense_start : dense_eval (r_poly r) o0 = X.
Proof.
  destruct rk_poly_shape as (c1 & c2 & c3 & c4 & E & _).
  apply vec_ext.
  - rewrite (dense_length _ _ n); [symmetry; exact HX|rewrite E; discriminate|apply rk_poly_lengths].
  - intro i. rewrite E, dense5_at. ring.
Qed.

(* ... has the ODE right-hand side at the start as initial slope ... *)
Theorem rk_dense_slope0 : nth 1 (r_poly r) [] = s_ode f X t0.
Proof. unfold r, intg_rk. reflexivity. Qed.

(* ... and ends at the step's end state *)
Theorem rk_dense_end : dense_eval (r_poly r) DT = r_xf r.
Proof.
  apply vec_ext.
  - rewrite (dense_length _ _ n); [|unfold r, intg_rk; cbn [r_poly]; discriminate|apply rk_poly_lengths].
    symmetry. apply (intg_rk_xf_len f n X t0 DT DTc Hode HX).
  - intro i. unfold r, intg_rk. cbn [r_poly r_xf]. rewrite dense5_at.
    assert (H2 := o2_nz'). assert (H6 := o6_nz'). assert (H24 := o24_nz).
    assert (HD2 : opow DT 2 <> o0) by (apply (opow_nz Fth); exact HDT).
    assert (HD3 : opow DT 3 <> o0) by (apply (opow_nz Fth); exact HDT).
    rewrite !(vnth_vdivs Fth) by assumption.
    rewrite !(vnth_vscale Fth), !(vnth_vadd Fth), !(vnth_vsub Fth), !(vnth_vscale Fth).
    rewrite !(vnth_vadd Fth), !(vnth_vscale Fth).
    assert (A24 : (o2 *! o2 *! o2 *! (o1 +! o2) : F) <> o0) by (rewrite <- o24_val; exact H24).
    assert (A6 : (o2 *! (o1 +! o2) : F) <> o0) by (rewrite <- (o6_val Fth); exact H6).
    assert (B24 : ((o1 +! o1) *! ((o1 +! o1) *! ((o1 +! o1) *! (o1 +! (o1 +! o1)))) : F) <> o0).
    { intro E. apply A24. unfold o2. rewrite <- E. ring. }
    unfold o6, o24, o4. cbn [of_Z of_pos opow]. unfold o2 in *. field.
    repeat split; try assumption.
    all: try (intro E; apply A24; rewrite <- E; ring).
    all: try (intro E; apply A6; rewrite <- E; ring).
    all: try (intro E; apply H2; rewrite <- E; ring).
    all: try exact B24.
Qed.

End RK.

(* ---- explicit Euler dense output: X + k*tau *)
Theorem euler_dense (f : sysfun F) n X t0 DT DTc :
  (forall x t, length (s_ode f x t) = n) -> length X = n ->
  let r := intg_expl_euler f X t0 DT DTc in
  dense_eval (r_poly r) o0 = X /\ nth 1 (r_poly r) [] = s_ode f X t0 /\ dense_eval (r_poly r) DT = r_xf r.
Proof.
  intros Hode HX. cbn zeta. unfold intg_expl_euler. cbn [r_poly r_xf]. repeat split.
  - apply vec_ext.
    + rewrite (dense_length _ _ n); [symmetry; exact HX|discriminate|].
      intros c [<-|[<-|[]]]; [exact HX|apply Hode].
    + intro i. rewrite dense2_at. ring.
  - apply vec_ext.
    + rewrite (dense_length _ _ n); [|discriminate|intros c [<-|[<-|[]]]; [exact HX|apply Hode]].
      rewrite length_vadd, length_vscale, Hode, HX. lia.
    + intro i. rewrite dense2_at, (vnth_vadd Fth), (vnth_vscale Fth). ring.
Qed.

(* ---- collocation: rescaling the power basis by dt^p is evaluation at the normalised time *)
Lemma polyval_scaled_from (c : list F) (dt s : F) (acc : F) : dt <> o0 ->
  polyval (map (fun cp => cp) c) s = polyval c s.
Proof. intros _. rewrite map_id. reflexivity. Qed.

Fixpoint scale_coeffs (c : list F) (dt : F) (p : nat) : list F :=
  match c with [] => [] | cp :: c' => (cp /! opow dt p) :: scale_coeffs c' dt (S p) end.

Theorem polyval_rescaled (c : list F) (dt s : F) (p : nat) : dt <> o0 ->
  opow dt p *! polyval (scale_coeffs c dt p) (s *! dt) = polyval c s.
Proof.
  intro Hdt. revert p. induction c as [|cp c IH]; intro p; cbn [scale_coeffs polyval].
  - ring.
  - assert (Hp : opow dt p <> o0).
    { apply (opow_nz Fth). exact Hdt. }
    specialize (IH (S p)). cbn [opow] in IH.
    replace (opow dt p *! (cp /! opow dt p +! s *! dt *! polyval (scale_coeffs c dt (S p)) (s *! dt)))
      with (cp +! s *! (dt *! opow dt p *! polyval (scale_coeffs c dt (S p)) (s *! dt))) by (field; exact Hp).
    rewrite IH. reflexivity.
Qed.

End RefineProofs.
