(* C15: the power-to-Bernstein matrix is exact, and Bernstein coefficients below a bound certify the
   bound on the whole normalised interval. *)
From Coq Require Import ZArith QArith List Field Lia Bool.
From RV Require Import Base.Num Base.Vec Base.Poly Mech.Inf Proofs.NumLemmas.
Import ListNotations.
Local Open Scope nat_scope.

Section InfProofs.
Context {F : Type} {OF : Ops F}.
Hypothesis Fth : field_theory o0 o1 oadd omul osub oopp odiv oinv (@eq F).
Hypothesis Ch0 : @Char0 F OF.
Add Field FFi : Fth.

Lemma nz2 : (o2 : F) <> o0.
Proof. intro H. apply (Ch0 2%positive). cbn [of_pos]. rewrite H. ring. Qed.
Lemma nz3 : (o1 +! o2 : F) <> o0.
Proof. intro H. apply (Ch0 3%positive). cbn [of_pos]. unfold o2 in *. rewrite <- H. ring. Qed.

(* the literal matrix of add_inf_constraints converts power coefficients into Bernstein coefficients
   of the same polynomial, identically in s *)
Theorem p2b4_correct (a0 a1 a2 a3 a4 s : F) :
  bern4_poly (bernstein4 [a0; a1; a2; a3; a4]) s
  = a0 +! a1 *! s +! a2 *! s *! s +! a3 *! s *! s *! s +! a4 *! s *! s *! s *! s.
Proof.
  unfold bern4_poly, bernstein4, p2b4, bern4, osum, of_Q, of_nat.
  cbn [map combine seq nth fold_left fst snd Qnum Qden of_Z of_pos Z.of_nat Pos.of_succ_nat Pos.succ opow Nat.sub].
  unfold o2. field.
  assert (H2 := nz2). assert (H3 := nz3). unfold o2 in *.
  repeat split; try assumption;
    try (intro E; apply H2; rewrite <- E; ring);
    try (intro E; apply H3; rewrite <- E; ring).
  all: try exact (mul_nz Fth _ _ H2 H2); try exact (mul_nz Fth _ _ H2 H3).
  all: destruct Fth as [_ H1 _ _]; try exact H1.
Qed.

(* ---- positivity: on [0,1] the Bernstein basis is non-negative and sums to one, so coefficients
   below a bound keep the polynomial below it *)
Section Order.
Variable le : F -> F -> Prop.
Hypothesis le_refl : forall a, le a a.
Hypothesis le_trans : forall a b c, le a b -> le b c -> le a c.
Hypothesis le_add : forall a b c d, le a b -> le c d -> le (a +! c) (b +! d).
Hypothesis le_mul_nonneg : forall a b c, le o0 c -> le a b -> le (a *! c) (b *! c).
Hypothesis mul_nonneg : forall a b, le o0 a -> le o0 b -> le o0 (a *! b).
Hypothesis le_0_1 : le o0 o1.

Lemma opow_nonneg a n : le o0 a -> le o0 (opow a n).
Proof. intro H. induction n as [|n IH]; cbn [opow]; [exact le_0_1|apply mul_nonneg; assumption]. Qed.

Lemma of_pos_nonneg p : le o0 (@of_pos F OF p).
Proof.
  assert (H2 : le o0 (o2 : F)).
  { unfold o2. replace (o0 : F) with (o0 +! o0 : F) by ring. apply le_add; exact le_0_1. }
  induction p as [p IH|p IH|]; cbn [of_pos].
  - replace (o0 : F) with (o0 +! o0 : F) by ring. apply le_add; [exact le_0_1|apply mul_nonneg; assumption].
  - apply mul_nonneg; assumption.
  - exact le_0_1.
Qed.

Lemma bern4_nonneg i s : le o0 s -> le s o1 -> le o0 (bern4 i s).
Proof.
  intros H0 H1. unfold bern4.
  assert (H1s : le o0 (o1 -! s)).
  { replace (o0 : F) with (s +! oopp s) by ring. replace (o1 -! s) with (o1 +! oopp s) by ring.
    apply le_add; [exact H1|apply le_refl]. }
  apply mul_nonneg; [apply mul_nonneg|apply opow_nonneg; exact H1s].
  - unfold of_nat. destruct i as [|[|[|[|i]]]]; cbn [Z.of_nat Pos.of_succ_nat Pos.succ of_Z]; apply of_pos_nonneg.
  - apply opow_nonneg. exact H0.
Qed.

Lemma bern4_sum s : bern4 0 s +! bern4 1 s +! bern4 2 s +! bern4 3 s +! bern4 4 s = o1.
Proof.
  unfold bern4, of_nat. cbn [Z.of_nat Pos.of_succ_nat Pos.succ of_Z of_pos opow Nat.sub]. unfold o2. ring.
Qed.

Theorem bernstein_bound (b0 b1 b2 b3 b4 c s : F) :
  le o0 s -> le s o1 ->
  le b0 c -> le b1 c -> le b2 c -> le b3 c -> le b4 c ->
  le (bern4_poly [b0; b1; b2; b3; b4] s) c.
Proof.
  intros H0 H1 L0 L1 L2 L3 L4.
  assert (N := fun i => bern4_nonneg i s H0 H1).
  replace c with (c *! bern4 0 s +! c *! bern4 1 s +! c *! bern4 2 s +! c *! bern4 3 s +! c *! bern4 4 s).
  2:{ transitivity (c *! (bern4 0 s +! bern4 1 s +! bern4 2 s +! bern4 3 s +! bern4 4 s)); [ring|].
      rewrite bern4_sum. ring. }
  unfold bern4_poly, osum. cbn [map seq nth fold_left].
  replace (o0 +! b0 *! bern4 0 s +! b1 *! bern4 1 s +! b2 *! bern4 2 s +! b3 *! bern4 3 s +! b4 *! bern4 4 s)
    with (b0 *! bern4 0 s +! b1 *! bern4 1 s +! b2 *! bern4 2 s +! b3 *! bern4 3 s +! b4 *! bern4 4 s) by ring.
  repeat apply le_add; apply le_mul_nonneg; auto.
Qed.

End Order.
End InfProofs.
