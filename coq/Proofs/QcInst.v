(* The rationals are an instance: field laws and characteristic 0. *)
From Coq Require Import ZArith QArith Qcanon Lia Lqa.
From RV Require Import Base.Num Inst.

Lemma Qc_of_pos_pos (p : positive) : (0 < this (@of_pos Qc QcOps p))%Q.
Proof.
  induction p as [p IH|p IH|]; cbn [of_pos].
  - change (0 < this (Q2Qc 1 + (Q2Qc 1 + Q2Qc 1) * @of_pos Qc QcOps p)%Qc)%Q.
    cbn [this Qcplus Qcmult Q2Qc]. rewrite !Qred_correct. lra.
  - change (0 < this ((Q2Qc 1 + Q2Qc 1) * @of_pos Qc QcOps p)%Qc)%Q.
    cbn [this Qcplus Qcmult Q2Qc]. rewrite !Qred_correct. lra.
  - cbn. reflexivity.
Qed.

Lemma Qc_char0 : @Char0 Qc QcOps.
Proof.
  intros p H. pose proof (Qc_of_pos_pos p) as Hp. rewrite H in Hp.
  cbn in Hp. revert Hp. apply Qlt_irrefl.
Qed.
