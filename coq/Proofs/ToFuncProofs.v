(* C19: the starting point (and parameter values) to_function hands to the solver equals what the
   imperative set_value / set_initial pipeline produces, for every argument list and values; hence
   for any solver oracle the results agree. *)
From Coq Require Import ZArith QArith List Lia Bool.
From RV Require Import Base.Num Base.PyList Base.Vec Expr Ocp Rows Mech.Grid Mech.Initial Mech.ToFunc
     Proofs.ListLemmas Proofs.InitProofs.
Import ListNotations.
Local Open Scope nat_scope.

Section ToFuncProofs.
Context {F : Type} {OF : Ops F}.

Lemma last_call_acc l kd s acc :
  last_call l kd s acc = match last_call l kd s None with Some c => Some c | None => acc end.
Proof.
  revert acc. induction l as [|c l IH]; intro acc; [reflexivity|].
  cbn [last_call]. rewrite (IH (if covers c kd s then Some c else acc)), (IH (if covers c kd s then Some c else None)).
  destruct (last_call l kd s None); [reflexivity|]. destruct (covers c kd s); reflexivity.
Qed.

Lemma last_call_in l kd s c : last_call l kd s None = Some c -> In c l /\ covers c kd s = true.
Proof.
  induction l as [|x l IH] using rev_ind; [discriminate|].
  rewrite last_call_app. cbn [last_call]. destruct (covers x kd s) eqn:E.
  - intro H. injection H as <-. split; [apply in_or_app; right; left; reflexivity|exact E].
  - intro H. destruct (IH H) as (Hi & Hc). split; [apply in_or_app; left; exact Hi|exact Hc].
Qed.

Lemma guess_cols_time_free (a : tfarg) j k (t t' : F) :
  guess_value (call_of a) j k t = guess_value (call_of a) j k t'.
Proof. reflexivity. Qed.

(* the key fact: assigning the arguments after the current calls overrides exactly the listed slots *)
Lemma start_of_args calls (args : list tfarg) kd s k (t : F) :
  start_of (calls ++ map call_of args) kd s k t = arg_value args kd s k (start_of calls kd s k t).
Proof.
  unfold start_of, arg_value. rewrite last_call_app, last_call_acc.
  destruct (last_call (map call_of args) kd s None) as [c|] eqn:E; [|reflexivity].
  apply last_call_in in E. destruct E as (Hin & _).
  apply in_map_iff in Hin. destruct Hin as (a & <- & _). reflexivity.
Qed.

Definition horizon_free (args : list tfarg) : Prop :=
  forall a, In a args -> ta_kind a <> GbigT /\ ta_kind a <> Gt0.

Lemma covers_kind c kd s : covers c kd s = true -> gc_kind c = kd.
Proof.
  unfold covers. intro H. apply andb_true_iff in H. destruct H as (H & _).
  apply andb_true_iff in H. destruct H as (H & _).
  destruct (gc_kind c), kd; try discriminate; reflexivity.
Qed.

Lemma last_call_args_none (args : list tfarg) kd s :
  (forall a, In a args -> ta_kind a <> kd) -> last_call (map call_of args) kd s None = None.
Proof.
  intro H. destruct (last_call (map call_of args) kd s None) as [c|] eqn:E; [|reflexivity].
  apply last_call_in in E. destruct E as (Hin & Hc).
  apply in_map_iff in Hin. destruct Hin as (a & <- & Ha).
  apply covers_kind in Hc. cbn in Hc. exfalso. exact (H a Ha Hc).
Qed.

Definition fixed_or_free (h : horizon) : Prop :=
  match h with HVar _ => False | _ => True end.

Lemma horizon_guess_args h calls (args : list tfarg) kd pvals :
  fixed_or_free h -> (forall a, In a args -> ta_kind a <> kd) ->
  @horizon_guess F OF h (calls ++ map call_of args) kd pvals = horizon_guess h calls kd pvals.
Proof.
  intros Hh Hk. destruct h as [q|g|i|i]; cbn [horizon_guess]; try reflexivity; [|destruct Hh].
  rewrite last_call_app, last_call_acc, (last_call_args_none args kd 0 Hk). reflexivity.
Qed.

(* to_function's starting point = the pipeline's starting point *)
Theorem tf_start_eq_pipeline (oc : ocp) nv nvc nvp calls pvals (args : list tfarg) :
  horizon_free args -> fixed_or_free (o_T oc) -> fixed_or_free (o_t0 oc) ->
  @tf_start F OF oc nv nvc nvp calls pvals args = pipeline_start oc nv nvc nvp calls pvals args.
Proof.
  intros Hf HT Ht0.
  assert (HkT : forall a, In a args -> ta_kind a <> GbigT) by (intros a Ha; exact (proj1 (Hf a Ha))).
  assert (Hkt0 : forall a, In a args -> ta_kind a <> Gt0) by (intros a Ha; exact (proj2 (Hf a Ha))).
  unfold tf_start, pipeline_start, start_values.
  rewrite (horizon_guess_args (o_T oc) calls args GbigT pvals HT HkT).
  rewrite (horizon_guess_args (o_t0 oc) calls args Gt0 pvals Ht0 Hkt0).
  cbn [s_X s_U s_V s_VC s_VP s_T s_t0 s_Xi s_Xc s_Zc s_t0loc s_Tloc].
  rewrite !map_length.
  set (Tg := horizon_guess (o_T oc) calls GbigT pvals).
  set (t0g := horizon_guess (o_t0 oc) calls Gt0 pvals).
  set (N := m_N (o_method oc)). set (M := m_M (o_method oc)).
  set (cg := time_grid (go_spec (m_grid (o_method oc))) t0g Tg N).
  f_equal.
  - (* X *)
    apply map_ext_in. intros k Hk. apply in_seq in Hk. unfold slots.
    apply map_ext_in. intros s Hs. apply in_seq in Hs.
    rewrite start_of_args. f_equal.
    rewrite (nth_map_seq _ _ 0 k []) by lia. unfold slots. rewrite (nth_map_seq _ _ 0 s o0) by lia. reflexivity.
  - apply map_ext_in. intros k Hk. apply in_seq in Hk. unfold slots.
    apply map_ext_in. intros s Hs. apply in_seq in Hs.
    rewrite start_of_args. f_equal.
    rewrite (nth_map_seq _ _ 0 k []) by lia. unfold slots. rewrite (nth_map_seq _ _ 0 s o0) by lia. reflexivity.
  - unfold slots. apply map_ext_in. intros s Hs. apply in_seq in Hs.
    rewrite start_of_args. f_equal. rewrite (nth_map_seq _ _ 0 s o0) by lia. reflexivity.
  - apply map_ext_in. intros k Hk. apply in_seq in Hk. unfold slots.
    apply map_ext_in. intros s Hs. apply in_seq in Hs.
    rewrite start_of_args. f_equal.
    rewrite (nth_map_seq _ _ 0 k []) by lia. unfold slots. rewrite (nth_map_seq _ _ 0 s o0) by lia. reflexivity.
  - apply map_ext_in. intros k Hk. apply in_seq in Hk. unfold slots.
    apply map_ext_in. intros s Hs. apply in_seq in Hs.
    rewrite start_of_args. f_equal.
    rewrite (nth_map_seq _ _ 0 k []) by lia. unfold slots. rewrite (nth_map_seq _ _ 0 s o0) by lia. reflexivity.
  - (* Xi *)
    apply map_ext_in. intros k Hk. apply in_seq in Hk.
    apply map_ext_in. intros i Hi. apply in_seq in Hi. unfold slots.
    apply map_ext_in. intros s Hs. apply in_seq in Hs.
    rewrite start_of_args. f_equal.
    rewrite (nth_map_seq _ _ 0 k []) by lia.
    rewrite (nth_map_seq _ _ 1 (i - 1) []) by lia. unfold slots.
    rewrite (nth_map_seq _ _ 0 s o0) by lia. replace (1 + (i - 1)) with i by lia. reflexivity.
  - (* Xc *)
    apply map_ext_in. intros k Hk. apply in_seq in Hk.
    apply map_ext_in. intros i Hi. apply in_seq in Hi.
    apply map_ext_in. intros j Hj. apply in_seq in Hj. unfold slots.
    apply map_ext_in. intros s Hs. apply in_seq in Hs.
    rewrite start_of_args. f_equal.
    rewrite (nth_map_seq _ _ 0 k []) by lia.
    rewrite (nth_map_seq _ _ 0 i []) by lia.
    rewrite (nth_map_seq _ _ 0 j []) by lia. unfold slots.
    rewrite (nth_map_seq _ _ 0 s o0) by lia. reflexivity.
  - (* Zc *)
    apply map_ext_in. intros k Hk. apply in_seq in Hk.
    apply map_ext_in. intros i Hi. apply in_seq in Hi.
    apply map_ext_in. intros j Hj. apply in_seq in Hj. unfold slots.
    apply map_ext_in. intros s Hs. apply in_seq in Hs.
    rewrite start_of_args. f_equal.
    rewrite (nth_map_seq _ _ 0 k []) by lia.
    rewrite (nth_map_seq _ _ 0 i []) by lia.
    rewrite (nth_map_seq _ _ 0 j []) by lia. unfold slots.
    rewrite (nth_map_seq _ _ 0 s o0) by lia. reflexivity.
Qed.

(* whatever the solver does with (NLP, start, parameter values), both paths obtain the same results *)
Theorem to_function_eq_pipeline {NLP SOL} (solve : NLP -> start_point F -> list Q -> SOL) (results : SOL -> list F)
        (nlp : NLP) (oc : ocp) nv nvc nvp calls pvals (args : list tfarg) (pargs : list (nat * Q)) :
  horizon_free args -> fixed_or_free (o_T oc) -> fixed_or_free (o_t0 oc) ->
  to_function_result solve results nlp oc nv nvc nvp calls pvals args pargs =
  pipeline_result solve results nlp oc nv nvc nvp calls pvals args pargs.
Proof.
  intros H1 H2 H3. unfold to_function_result, pipeline_result.
  rewrite tf_start_eq_pipeline by assumption. reflexivity.
Qed.

(* listed quantities take the argument's column; unlisted ones keep their current start *)
Theorem listed_takes_argument (args : list tfarg) (a : tfarg) kd s k (dflt : F) :
  last_call (map call_of args) kd s None = Some (call_of a) ->
  arg_value args kd s k dflt =
  of_Q (nth (s - ta_slot a) (nth (Nat.min k (length (ta_cols a) - 1)) (ta_cols a) []) 0%Q).
Proof. intro H. unfold arg_value. rewrite H. reflexivity. Qed.

Theorem unlisted_keeps_current (args : list tfarg) kd s k (dflt : F) :
  (forall a, In a args -> covers (call_of a) kd s = false) -> arg_value args kd s k dflt = dflt.
Proof.
  intro H. unfold arg_value.
  rewrite last_call_none; [reflexivity|].
  intros c Hc. apply in_map_iff in Hc. destruct Hc as (a & <- & Ha). apply H. exact Ha.
Qed.

(* parameter arguments: the listed slot takes the value, the others keep theirs *)
Lemma pvals_after_one pvals i v j :
  nth j (pvals_after pvals [(i, v)]) 0%Q = if (Nat.eqb j i && Nat.ltb j (length pvals))%bool then v else nth j pvals 0%Q.
Proof.
  cbn [pvals_after].
  destruct (Nat.ltb j (length pvals)) eqn:E.
  - apply Nat.ltb_lt in E.
    assert (X : forall d, nth j (map (fun jk : nat * Q => if Nat.eqb (fst jk) i then v else snd jk)
                   (combine (seq 0 (length pvals)) pvals)) d
                = (fun jk : nat * Q => if Nat.eqb (fst jk) i then v else snd jk) (nth j (combine (seq 0 (length pvals)) pvals) (0, 0%Q))).
    { intro d. rewrite (nth_indep _ d ((fun jk : nat * Q => if Nat.eqb (fst jk) i then v else snd jk) (0, 0%Q))).
      - exact (map_nth (fun jk : nat * Q => if Nat.eqb (fst jk) i then v else snd jk) (combine (seq 0 (length pvals)) pvals) (0, 0%Q) j).
      - rewrite map_length, combine_length, seq_length. lia. }
    rewrite X, combine_nth by (rewrite seq_length; reflexivity).
    rewrite seq_nth by exact E. cbn [fst snd Nat.add]. rewrite andb_true_r. reflexivity.
  - apply Nat.ltb_ge in E. rewrite andb_false_r.
    rewrite !nth_overflow; [reflexivity|exact E|].
    rewrite map_length, combine_length, seq_length. lia.
Qed.

End ToFuncProofs.
