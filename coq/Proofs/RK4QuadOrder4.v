(* C03 (continued): the VALUE OF ocp.integral under the model's RK4 loop converges with the CLASSICAL ORDER FOUR.
   System: sys = mkSys (fun X _ => [f (nth 0 X 0)]) (fun X _ => [g (nth 0 X 0)]), scalar autonomous state
   equation x' = f(x), one quadrature state with integrand g(x); intg_rk evaluates the integrand at the SAME
   stage states a, a + h/2 k1, a + h/2 k2, a + h k3 as the state update and ds_quad accumulates
   h/6 (g(X1) + 2 g(X2) + 2 g(X3) + g(X4)) over the M steps, starting from the NUMERICAL states.
   - rk4_integral_converges_order4: f four times differentiable with |f'| <= L, |f''| <= F2, |f'''| <= F3,
     |f''''| <= F4 (all states), g four times differentiable with |g'| <= G1, ..., |g''''| <= G4 (all states;
     nothing is assumed on |g|), x a solution, |f(x t)| <= B on [t0, t0+T]:
       |nth 0 (ds_quad st) 0 - RInt (fun s => g (x s)) t0 (t0+T)| <= Cq h^4,  h = T/M, no restriction on h,
     Cq = T (G1 PQ E + rk4_cq5 .. T + rk4_KA5 .. / 120), E the state-error constant of
     rk4_converges_order4_closed, PQ = 1 + Q/2 + Q^2/6 + Q^3/24, Q = T L.  The states are NOT assumed exact.
   Proof: (1) s_quad4_consistency: along the flow started at a, the one-step quadrature differs from
       h g + h^2/2 g1 f + h^3/6 (g2 f^2 + g1 f1 f) + h^4/24 (g3 f^3 + 3 g2 f1 f^2 + g1 f2 f^2 + g1 f1^2 f)
   (fk, gk the k-th derivatives at a) by at most h^5 rk4_cq5 H, 0 < h <= H: gstage_full = stage_full of
   RK4Order4.v applied to the integrand, with the third-order expansions of the slopes k2, k3;
   (2) antiderivative_derivs: the derivatives up to order five of an antiderivative of g(x(t)) along a
   solution, and Taylor-Lagrange to fifth order (taylor5); (3) s_quad4_lipschitz: the one-step quadrature is
   Lipschitz in its start state, constant h G1 (1 + q/2 + q^2/6 + q^3/24), q = h L, combined with the state
   error |y_j - x(t_j)| <= E h^4 (srk4_order4); (4) induction over the steps (telescoping).
   Satisfiable: rk4_integral_order4_exp (f = g = id, x = exp, integral e^{t0+T} - e^{t0}) and
   rk4_integral_order4_sin (f = g = sin, x(t) = 2 atan(e^t), integral x(t0+T) - x(t0)). *)
From Coq Require Import Reals ZArith QArith List Lia Lra.
From Coquelicot Require Import Coquelicot.
From RV Require Import Base.Num Base.Vec Mech.Intg Spec.SpecDyn Proofs.NumLemmas Proofs.VecLemmas Proofs.DynProofs Proofs.DerProofs Proofs.SplineDerReal Proofs.ConvProofs Proofs.ConvReal Proofs.EulerConv Proofs.EulerConvVec Proofs.RK4Conv Proofs.RK4Order4.
Import ListNotations.
Local Open Scope R_scope.

(* ---- the scalar one-step quadrature of intg_rk: the integrand at the four stage states of the step *)
Definition s_quad4 (f g : R -> R) (a h : R) : R :=
  h / 6 * (g a + 2 * g (a + h / 2 * f a) + 2 * g (a + h / 2 * s_k2 f a h) + g (a + h * s_k3 f a h)).

Section QStage.
Variables (f g : R -> R) (a f0 f1 f2 f3 g0 g1 g2 g3 B L F2 F3 F4 G1 G2 G3 G4 : R).
Hypothesis Hf0 : Rabs f0 <= B.
Hypothesis Hf1 : Rabs f1 <= L.
Hypothesis Hf2 : Rabs f2 <= F2.
Hypothesis Hf3 : Rabs f3 <= F3.
Hypothesis Tay : forall d, Rabs (f (a + d) - (f0 + d * f1 + d ^ 2 / 2 * f2 + d ^ 3 / 6 * f3)) <= F4 / 24 * d ^ 4.
Hypothesis Ef0 : f a = f0.
Hypothesis Hg1 : Rabs g1 <= G1.
Hypothesis Hg2 : Rabs g2 <= G2.
Hypothesis Hg3 : Rabs g3 <= G3.
Hypothesis Tayg : forall d, Rabs (g (a + d) - (g0 + d * g1 + d ^ 2 / 2 * g2 + d ^ 3 / 6 * g3)) <= G4 / 24 * d ^ 4.
Hypothesis Eg0 : g a = g0.

(* the integrand at a stage state a + c h k whose slope k is known to third order in h: stage_full of
   RK4Order4.v applied to y |-> g y - g0 + f0, whose Taylor coefficients at a are f0, g1, g2, g3 *)
Lemma gstage_full (k c h H al be ga Aa Ab Ag Rk : R) :
  0 < h <= H -> Rabs c <= c -> Rabs al <= Aa -> Rabs be <= Ab -> Rabs ga <= Ag ->
  Rabs (k - (f0 + h * al + h ^ 2 * be + h ^ 3 * ga)) <= h ^ 4 * Rk ->
  Rabs (g (a + c * h * k) - (g0 + h * nal f0 g1 c + h ^ 2 * nbe f0 g1 g2 c al + h ^ 3 * nga f0 g1 g2 g3 c al be))
  <= h ^ 4 * stage_const B G1 G2 G3 G4 c H Aa Ab Ag Rk.
Proof.
  intros Hh Hc Ha Hb Hg Hk.
  assert (Tay' : forall d, Rabs ((fun y => g y - g0 + f0) (a + d)
                                 - (f0 + d * g1 + d ^ 2 / 2 * g2 + d ^ 3 / 6 * g3)) <= G4 / 24 * d ^ 4).
  { intro d. cbv beta.
    replace (g (a + d) - g0 + f0 - (f0 + d * g1 + d ^ 2 / 2 * g2 + d ^ 3 / 6 * g3))
      with (g (a + d) - (g0 + d * g1 + d ^ 2 / 2 * g2 + d ^ 3 / 6 * g3)) by ring.
    apply Tayg. }
  pose proof (stage_full (fun y => g y - g0 + f0) a f0 g1 g2 g3 B G1 G2 G3 G4 Hf0 Hg1 Hg2 Hg3 Tay'
                k c h H al be ga Aa Ab Ag Rk Hh Hc Ha Hb Hg Hk) as S.
  cbv beta in S.
  match goal with |- Rabs ?e <= _ => match type of S with Rabs ?e' <= _ => replace e with e' by ring end end.
  exact S.
Qed.

Definition rk4_cq5 (H : R) : R :=
  let R2 := stage_const B L F2 F3 F4 (1 / 2) H 0 0 0 0 in
  let A2 := Nal B L (1 / 2) in let B2 := Nbe B L F2 (1 / 2) 0 in let C2 := Nga B L F2 F3 (1 / 2) 0 0 in
  let R3 := stage_const B L F2 F3 F4 (1 / 2) H A2 B2 C2 R2 in
  let B3 := Nbe B L F2 (1 / 2) A2 in let C3 := Nga B L F2 F3 (1 / 2) A2 B2 in
  let S2 := stage_const B G1 G2 G3 G4 (1 / 2) H 0 0 0 0 in
  let S3 := stage_const B G1 G2 G3 G4 (1 / 2) H A2 B2 C2 R2 in
  let S4 := stage_const B G1 G2 G3 G4 1 H A2 B3 C3 R3 in
  (2 * S2 + 2 * S3 + S4) / 6.

(* one-step quadrature consistency: the degree-4 Taylor polynomial of t |-> int_t^{t+h} g(x) along the flow
   started at a, written with the elementary differentials *)
Lemma s_quad4_consistency (h H : R) : 0 < h <= H ->
  Rabs (s_quad4 f g a h - (h * g0 + h ^ 2 / 2 * (g1 * f0) + h ^ 3 / 6 * (g2 * f0 ^ 2 + g1 * f1 * f0)
                           + h ^ 4 / 24 * (g3 * f0 ^ 3 + 3 * g2 * f1 * f0 ^ 2 + g1 * f2 * f0 ^ 2 + g1 * f1 ^ 2 * f0)))
  <= h ^ 5 * rk4_cq5 H.
Proof.
  intros Hh. unfold rk4_cq5.
  set (R2 := stage_const B L F2 F3 F4 (1 / 2) H 0 0 0 0).
  set (A2 := Nal B L (1 / 2)). set (B2 := Nbe B L F2 (1 / 2) 0). set (C2 := Nga B L F2 F3 (1 / 2) 0 0).
  set (R3 := stage_const B L F2 F3 F4 (1 / 2) H A2 B2 C2 R2).
  set (B3 := Nbe B L F2 (1 / 2) A2). set (C3 := Nga B L F2 F3 (1 / 2) A2 B2).
  set (S2 := stage_const B G1 G2 G3 G4 (1 / 2) H 0 0 0 0).
  set (S3 := stage_const B G1 G2 G3 G4 (1 / 2) H A2 B2 C2 R2).
  set (S4 := stage_const B G1 G2 G3 G4 1 H A2 B3 C3 R3).
  assert (Hhalf : Rabs (1 / 2) <= 1 / 2) by (rewrite Rabs_pos_eq; lra).
  assert (Hone : Rabs 1 <= 1) by (rewrite Rabs_pos_eq; lra).
  assert (Hz : Rabs 0 <= 0) by (rewrite Rabs_R0; lra).
  assert (Z0 : Rabs (f0 - (f0 + h * 0 + h ^ 2 * 0 + h ^ 3 * 0)) <= h ^ 4 * 0).
  { match goal with |- Rabs ?e <= _ => replace e with 0 by ring end. rewrite Rabs_R0. lra. }
  (* the slopes k2, k3 to third order (as in s_next_consistency4) *)
  assert (K2 : Rabs (s_k2 f a h - (f0 + h * nal f0 f1 (1 / 2) + h ^ 2 * nbe f0 f1 f2 (1 / 2) 0
                                   + h ^ 3 * nga f0 f1 f2 f3 (1 / 2) 0 0)) <= h ^ 4 * R2).
  { unfold s_k2. rewrite Ef0. replace (a + h / 2 * f0) with (a + 1 / 2 * h * f0) by field.
    apply (stage_full f a f0 f1 f2 f3 B L F2 F3 F4 Hf0 Hf1 Hf2 Hf3 Tay f0 (1 / 2) h H 0 0 0 0 0 0 0
             Hh Hhalf Hz Hz Hz Z0). }
  destruct (coeff_bounds f0 f1 f2 f3 B L F2 F3 Hf0 Hf1 Hf2 Hf3 (1 / 2) 0 0 0 0 Hhalf Hz Hz) as (Ca2 & Cb2 & Cg2).
  fold A2 B2 C2 in Ca2, Cb2, Cg2.
  set (al2 := nal f0 f1 (1 / 2)) in *. set (be2 := nbe f0 f1 f2 (1 / 2) 0) in *.
  set (ga2 := nga f0 f1 f2 f3 (1 / 2) 0 0) in *.
  set (k2 := s_k2 f a h) in *.
  assert (K3 : Rabs (s_k3 f a h - (f0 + h * nal f0 f1 (1 / 2) + h ^ 2 * nbe f0 f1 f2 (1 / 2) al2
                                   + h ^ 3 * nga f0 f1 f2 f3 (1 / 2) al2 be2)) <= h ^ 4 * R3).
  { unfold s_k3. fold k2. replace (a + h / 2 * k2) with (a + 1 / 2 * h * k2) by field.
    apply (stage_full f a f0 f1 f2 f3 B L F2 F3 F4 Hf0 Hf1 Hf2 Hf3 Tay k2 (1 / 2) h H al2 be2 ga2 A2 B2 C2 R2
             Hh Hhalf Ca2 Cb2 Cg2 K2). }
  destruct (coeff_bounds f0 f1 f2 f3 B L F2 F3 Hf0 Hf1 Hf2 Hf3 (1 / 2) al2 be2 A2 B2 Hhalf Ca2 Cb2)
    as (Ca3 & Cb3 & Cg3).
  fold A2 B3 C3 in Ca3, Cb3, Cg3. fold al2 in K3, Ca3.
  set (be3 := nbe f0 f1 f2 (1 / 2) al2) in *. set (ga3 := nga f0 f1 f2 f3 (1 / 2) al2 be2) in *.
  set (k3 := s_k3 f a h) in *.
  (* the integrand at the stage states *)
  assert (Q2 : Rabs (g (a + h / 2 * f a) - (g0 + h * nal f0 g1 (1 / 2) + h ^ 2 * nbe f0 g1 g2 (1 / 2) 0
                                            + h ^ 3 * nga f0 g1 g2 g3 (1 / 2) 0 0)) <= h ^ 4 * S2).
  { rewrite Ef0. replace (a + h / 2 * f0) with (a + 1 / 2 * h * f0) by field.
    apply (gstage_full f0 (1 / 2) h H 0 0 0 0 0 0 0 Hh Hhalf Hz Hz Hz Z0). }
  assert (Q3 : Rabs (g (a + h / 2 * k2) - (g0 + h * nal f0 g1 (1 / 2) + h ^ 2 * nbe f0 g1 g2 (1 / 2) al2
                                           + h ^ 3 * nga f0 g1 g2 g3 (1 / 2) al2 be2)) <= h ^ 4 * S3).
  { replace (a + h / 2 * k2) with (a + 1 / 2 * h * k2) by field.
    apply (gstage_full k2 (1 / 2) h H al2 be2 ga2 A2 B2 C2 R2 Hh Hhalf Ca2 Cb2 Cg2 K2). }
  assert (Q4 : Rabs (g (a + h * k3) - (g0 + h * nal f0 g1 1 + h ^ 2 * nbe f0 g1 g2 1 al2
                                       + h ^ 3 * nga f0 g1 g2 g3 1 al2 be3)) <= h ^ 4 * S4).
  { replace (a + h * k3) with (a + 1 * h * k3) by ring.
    apply (gstage_full k3 1 h H al2 be3 ga3 A2 B3 C3 R3 Hh Hone Ca3 Cb3 Cg3 K3). }
  unfold s_quad4. fold k2 k3. rewrite Eg0.
  set (q2 := g (a + h / 2 * f a)) in *. set (q3 := g (a + h / 2 * k2)) in *. set (q4 := g (a + h * k3)) in *.
  set (p2 := g0 + h * nal f0 g1 (1 / 2) + h ^ 2 * nbe f0 g1 g2 (1 / 2) 0 + h ^ 3 * nga f0 g1 g2 g3 (1 / 2) 0 0) in *.
  set (p3 := g0 + h * nal f0 g1 (1 / 2) + h ^ 2 * nbe f0 g1 g2 (1 / 2) al2
             + h ^ 3 * nga f0 g1 g2 g3 (1 / 2) al2 be2) in *.
  set (p4 := g0 + h * nal f0 g1 1 + h ^ 2 * nbe f0 g1 g2 1 al2 + h ^ 3 * nga f0 g1 g2 g3 1 al2 be3) in *.
  match goal with |- Rabs ?e <= _ =>
    replace e with (0 + h / 6 * (0 + 2 * (q2 - p2) + 2 * (q3 - p3) + (q4 - p4)))
      by (unfold p2, p3, p4, be3, be2, al2, nal, nbe, nga; field) end.
  replace (h ^ 5 * ((2 * S2 + 2 * S3 + S4) / 6)) with (0 + h / 6 * (0 + 2 * (h ^ 4 * S2) + 2 * (h ^ 4 * S3) + h ^ 4 * S4))
    by field.
  apply comb_bound; auto; try (rewrite Rabs_R0; apply Rle_refl). lra.
Qed.
End QStage.

(* ---- the model's quadrature accumulator as a scalar sum *)
Definition qsys (f g : R -> R) : sysfun R :=
  mkSys (fun X (_ : R) => [f (nth 0 X 0)]) (fun X (_ : R) => [g (nth 0 X 0)]).

Lemma rk4_model_quad_step (f g : R -> R) a (t : R) h DTc :
  r_qf (@intg_rk R ROps (qsys f g) [a] t h DTc) = [s_quad4 f g a h].
Proof.
  unfold intg_rk, s_quad4, s_k3, s_k2. cbn [r_qf qsys s_ode s_quad].
  unfold o6. rewrite of_Z_R. reflexivity.
Qed.

Fixpoint rquad (f g : R -> R) (h : R) (j : nat) (y0 : R) : R :=
  match j with O => 0 | S j' => rquad f g h j' y0 + s_quad4 f g (srk4 f h j' y0) h end.

Lemma rk4_model_quad (f g : R -> R) t0 h DTc j y0 :
  iter_quad (fun t X => r_xf (@intg_rk R ROps (qsys f g) X t h DTc))
            (fun t X => r_qf (@intg_rk R ROps (qsys f g) X t h DTc)) t0 h j [y0] [0]
  = [rquad f g h j y0].
Proof.
  induction j as [|j IH]; cbn [iter_quad rquad]; [reflexivity|].
  rewrite IH, rk4_model_iter_vec.
  change (s_ode (qsys f g)) with (fun X (_ : R) => [f (nth 0 X 0)]). rewrite srk4_model.
  rewrite rk4_model_quad_step. reflexivity.
Qed.

(* ---- the one-step quadrature is Lipschitz in its start state *)
Lemma s_quad4_lipschitz (f g : R -> R) L G1 a b h :
  0 <= L -> 0 <= G1 -> 0 <= h ->
  (forall u v, Rabs (f u - f v) <= L * Rabs (u - v)) ->
  (forall u v, Rabs (g u - g v) <= G1 * Rabs (u - v)) ->
  let d := Rabs (a - b) in let q := h * L in
  Rabs (s_quad4 f g a h - s_quad4 f g b h) <= h * (G1 * (d * (1 + q / 2 + q ^ 2 / 6 + q ^ 3 / 24))).
Proof.
  intros HL HG Hh Hl Hgl d q.
  assert (Hd : 0 <= d) by apply Rabs_pos.
  set (m1 := L * d).
  assert (H1 : Rabs (f a - f b) <= m1) by (apply Hl).
  set (m2 := L * (d + h / 2 * m1)).
  assert (A2 : Rabs ((a + h / 2 * f a) - (b + h / 2 * f b)) <= d + h / 2 * m1).
  { apply arg_lip; [lra|apply Rle_refl|exact H1]. }
  assert (H2 : Rabs (s_k2 f a h - s_k2 f b h) <= m2).
  { unfold s_k2. apply lip_le; [exact HL|exact Hl|exact A2]. }
  set (m3 := L * (d + h / 2 * m2)).
  assert (A3 : Rabs ((a + h / 2 * s_k2 f a h) - (b + h / 2 * s_k2 f b h)) <= d + h / 2 * m2).
  { apply arg_lip; [lra|apply Rle_refl|exact H2]. }
  assert (H3 : Rabs (s_k3 f a h - s_k3 f b h) <= m3).
  { unfold s_k3. apply lip_le; [exact HL|exact Hl|exact A3]. }
  assert (A4 : Rabs ((a + h * s_k3 f a h) - (b + h * s_k3 f b h)) <= d + h * m3).
  { apply arg_lip; [lra|apply Rle_refl|exact H3]. }
  assert (Q1 : Rabs (g a - g b) <= G1 * d) by apply Hgl.
  assert (Q2 : Rabs (g (a + h / 2 * f a) - g (b + h / 2 * f b)) <= G1 * (d + h / 2 * m1))
    by (apply lip_le; [exact HG|exact Hgl|exact A2]).
  assert (Q3 : Rabs (g (a + h / 2 * s_k2 f a h) - g (b + h / 2 * s_k2 f b h)) <= G1 * (d + h / 2 * m2))
    by (apply lip_le; [exact HG|exact Hgl|exact A3]).
  assert (Q4 : Rabs (g (a + h * s_k3 f a h) - g (b + h * s_k3 f b h)) <= G1 * (d + h * m3))
    by (apply lip_le; [exact HG|exact Hgl|exact A4]).
  replace (h * (G1 * (d * (1 + q / 2 + q ^ 2 / 6 + q ^ 3 / 24))))
    with (0 + h / 6 * (G1 * d + 2 * (G1 * (d + h / 2 * m1)) + 2 * (G1 * (d + h / 2 * m2)) + G1 * (d + h * m3)))
    by (unfold m3, m2, m1, q; field).
  unfold s_quad4.
  match goal with |- Rabs ?e <= _ =>
    replace e with (0 + h / 6 * ((g a - g b) + 2 * (g (a + h / 2 * f a) - g (b + h / 2 * f b))
       + 2 * (g (a + h / 2 * s_k2 f a h) - g (b + h / 2 * s_k2 f b h))
       + (g (a + h * s_k3 f a h) - g (b + h * s_k3 f b h)))) by field end.
  apply comb_bound; auto. rewrite Rabs_R0. apply Rle_refl.
Qed.

(* ---- the antiderivative of g(x(t)) along a solution: derivatives up to order five *)
Section QSol.
Variables f g x : R -> R.
Hypothesis Hsol : forall t, is_derive x t (f (x t)).
Hypothesis Hexf : forall s k, (k <= 4)%nat -> ex_derive_n f k s.
Hypothesis Hexg : forall s k, (k <= 4)%nat -> ex_derive_n g k s.

Definition gd_at (k : nat) (t : R) : R := Derive_n g k (x t).
Local Notation u := (fd_at f x).
Local Notation w := gd_at.

Lemma gd_at_der k t : (k < 4)%nat -> is_derive (w k) t (w (S k) t * u 0 t).
Proof.
  intro Hk. unfold gd_at, fd_at. cbn [Derive_n].
  evar_last.
  - apply (is_derive_comp (Derive_n g k) x t (Derive (Derive_n g k) (x t)) (f (x t))); [|apply Hsol].
    apply Derive_correct. apply (Hexg (x t) (S k)). lia.
  - unfold scal. cbn. unfold mult. cbn. ring.
Qed.
Lemma gd_at_ex k t : (k < 4)%nat -> ex_derive (w k) t.
Proof. intro Hk. eexists. apply gd_at_der. exact Hk. Qed.
Lemma gd_at_D k t : (k < 4)%nat -> Derive (w k) t = w (S k) t * u 0 t.
Proof. intro Hk. apply is_derive_unique. apply gd_at_der. exact Hk. Qed.
Lemma fd_ex k t : (k < 4)%nat -> ex_derive (u k) t.
Proof. intro Hk. eexists. apply (fd_at_der f x Hsol Hexf). exact Hk. Qed.
Lemma fd_D k t : (k < 4)%nat -> Derive (u k) t = u (S k) t * u 0 t.
Proof. intro Hk. apply is_derive_unique. apply (fd_at_der f x Hsol Hexf). exact Hk. Qed.

Ltac exd :=
  match goal with
  | |- True => exact I
  | |- ex_derive (fun y => gd_at ?k y) ?t => apply (gd_at_ex k t); lia
  | |- ex_derive (fun y => fd_at _ _ ?k y) ?t => apply (fd_ex k t); lia
  end.

Ltac rwd :=
  repeat match goal with
  | |- context [Derive (fun y => gd_at ?k y) ?t] =>
      change (Derive (fun y => gd_at k y) t) with (Derive (gd_at k) t); rewrite (gd_at_D k t) by lia
  | |- context [Derive (fun y => fd_at f x ?k y) ?t] =>
      change (Derive (fun y => fd_at f x k y) t) with (Derive (fd_at f x k) t); rewrite (fd_D k t) by lia
  end.

Definition int_d1 t := w 0 t.
Definition int_d2 t := w 1 t * u 0 t.
Definition int_d3 t := w 2 t * u 0 t ^ 2 + w 1 t * u 1 t * u 0 t.
Definition int_d4 t := w 3 t * u 0 t ^ 3 + 3 * w 2 t * u 1 t * u 0 t ^ 2 + w 1 t * u 2 t * u 0 t ^ 2
                       + w 1 t * u 1 t ^ 2 * u 0 t.
Definition int_d5 t := w 4 t * u 0 t ^ 4 + 6 * w 3 t * u 1 t * u 0 t ^ 3 + 4 * w 2 t * u 2 t * u 0 t ^ 3
                       + 7 * w 2 t * u 1 t ^ 2 * u 0 t ^ 2 + w 1 t * u 3 t * u 0 t ^ 3
                       + 4 * w 1 t * u 2 t * u 1 t * u 0 t ^ 2 + w 1 t * u 1 t ^ 3 * u 0 t.

Lemma int_d2_der t : is_derive int_d1 t (int_d2 t).
Proof. unfold int_d1, int_d2. apply gd_at_der. lia. Qed.
Lemma int_d3_der t : is_derive int_d2 t (int_d3 t).
Proof.
  unfold int_d2, int_d3. auto_derive.
  - repeat match goal with |- _ /\ _ => split end; exd.
  - rwd. ring.
Qed.
Lemma int_d4_der t : is_derive int_d3 t (int_d4 t).
Proof.
  unfold int_d3, int_d4. auto_derive.
  - repeat match goal with |- _ /\ _ => split end; exd.
  - rwd. ring.
Qed.
Lemma int_d5_der t : is_derive int_d4 t (int_d5 t).
Proof.
  unfold int_d4, int_d5. auto_derive.
  - repeat match goal with |- _ /\ _ => split end; exd.
  - rwd. ring.
Qed.

Lemma antiderivative_derivs (A : R -> R) :
  (forall t, is_derive A t (g (x t))) ->
  forall t,
  (forall k, (k <= 5)%nat -> ex_derive_n A k t) /\
  Derive_n A 1 t = int_d1 t /\ Derive_n A 2 t = int_d2 t /\ Derive_n A 3 t = int_d3 t /\
  Derive_n A 4 t = int_d4 t /\ Derive_n A 5 t = int_d5 t.
Proof.
  intros HA t.
  pose proof (Derive_n_step A A int_d1 0 (fun s => eq_refl) HA) as S1.
  pose proof (Derive_n_step A int_d1 int_d2 1 (fun s => proj2 (S1 s)) int_d2_der) as S2.
  pose proof (Derive_n_step A int_d2 int_d3 2 (fun s => proj2 (S2 s)) int_d3_der) as S3.
  pose proof (Derive_n_step A int_d3 int_d4 3 (fun s => proj2 (S3 s)) int_d4_der) as S4.
  pose proof (Derive_n_step A int_d4 int_d5 4 (fun s => proj2 (S4 s)) int_d5_der) as S5.
  split; [|repeat split; [apply S1|apply S2|apply S3|apply S4|apply S5]].
  intros k Hk. destruct k as [|[|[|[|[|[|k]]]]]]; [exact I|apply S1|apply S2|apply S3|apply S4|apply S5|lia].
Qed.

End QSol.

(* ================================================================== the model's accumulator *)
(* the scalar form of rk4_converges_order4_closed *)
Lemma srk4_order4 (f x : R -> R) (t0 T B L F2 F3 F4 : R) (M : nat) :
  0 < T -> 0 < L -> (0 < M)%nat ->
  (forall s k, (k <= 4)%nat -> ex_derive_n f k s) ->
  (forall s, Rabs (Derive_n f 1 s) <= L) -> (forall s, Rabs (Derive_n f 2 s) <= F2) ->
  (forall s, Rabs (Derive_n f 3 s) <= F3) -> (forall s, Rabs (Derive_n f 4 s) <= F4) ->
  (forall t, is_derive x t (f (x t))) ->
  (forall t, t0 <= t <= t0 + T -> Rabs (f (x t)) <= B) ->
  let h := T / INR M in
  let Q := T * L in
  let L' := L * (1 + Q / 2 + Q ^ 2 / 6 + Q ^ 3 / 24) in
  forall j, (j <= M)%nat ->
    Rabs (srk4 f h j (x t0) - x (t0 + INR j * h))
    <= ((rk4_c5 B L F2 F3 F4 T + rk4_K5 B L F2 F3 F4 / 120) * ((exp (T * L') - 1) / L')) * h ^ 4.
Proof.
  intros HT HL HM Hex HfL HfF2 HfF3 HfF4 Hsol HB h Q L' j Hj.
  pose proof (rk4_converges_order4_closed f x t0 T B L F2 F3 F4 M HT HL HM Hex HfL HfF2 HfF3 HfF4 Hsol HB j Hj) as Hc.
  cbv zeta in Hc. rewrite (discrete_system_Xi R_field_laws) in Hc by exact Hj.
  change (@odiv R ROps T (@of_nat R ROps M)) with (T / @of_nat R ROps M) in Hc.
  rewrite of_nat_R, rk4_model_iter_vec in Hc.
  change (s_ode (mkSys (fun X (_ : R) => [f (nth 0 X 0)]) (fun _ _ => []))) with (fun X (_ : R) => [f (nth 0 X 0)]) in Hc.
  rewrite srk4_model in Hc. cbn [nth] in Hc. exact Hc.
Qed.

Definition rk4_KA5 (B L F2 F3 G1 G2 G3 G4 : R) : R :=
  G4 * B ^ 4 + 6 * G3 * L * B ^ 3 + 4 * G2 * F2 * B ^ 3 + 7 * G2 * L ^ 2 * B ^ 2 + G1 * F3 * B ^ 3
  + 4 * G1 * F2 * L * B ^ 2 + G1 * L ^ 3 * B.

Theorem rk4_integral_converges_order4 (f g x : R -> R) (t0 T B L F2 F3 F4 G1 G2 G3 G4 : R) (M : nat) :
  0 < T -> 0 < L -> (0 < M)%nat ->
  (forall s k, (k <= 4)%nat -> ex_derive_n f k s) ->
  (forall s, Rabs (Derive_n f 1 s) <= L) -> (forall s, Rabs (Derive_n f 2 s) <= F2) ->
  (forall s, Rabs (Derive_n f 3 s) <= F3) -> (forall s, Rabs (Derive_n f 4 s) <= F4) ->
  (forall s k, (k <= 4)%nat -> ex_derive_n g k s) ->
  (forall s, Rabs (Derive_n g 1 s) <= G1) -> (forall s, Rabs (Derive_n g 2 s) <= G2) ->
  (forall s, Rabs (Derive_n g 3 s) <= G3) -> (forall s, Rabs (Derive_n g 4 s) <= G4) ->
  (forall t, is_derive x t (f (x t))) ->
  (forall t, t0 <= t <= t0 + T -> Rabs (f (x t)) <= B) ->
  let h := T / INR M in
  let Q := T * L in
  let PQ := 1 + Q / 2 + Q ^ 2 / 6 + Q ^ 3 / 24 in
  let L' := L * PQ in
  let E := (rk4_c5 B L F2 F3 F4 T + rk4_K5 B L F2 F3 F4 / 120) * ((exp (T * L') - 1) / L') in
  let Cq := T * (G1 * PQ * E + rk4_cq5 B L F2 F3 F4 G1 G2 G3 G4 T + rk4_KA5 B L F2 F3 G1 G2 G3 G4 / 120) in
  let sys := mkSys (fun X (_ : R) => [f (nth 0 X 0)]) (fun X (_ : R) => [g (nth 0 X 0)]) in
  let st := @discrete_system R ROps (intg_rk sys) M 1 [x t0] T t0 in
  Rabs (nth 0 (ds_quad st) 0 - RInt (fun s => g (x s)) t0 (t0 + T)) <= Cq * h ^ 4.
Proof.
  intros HT HL HM Hexf HfL HfF2 HfF3 HfF4 Hexg HgG1 HgG2 HgG3 HgG4 Hsol HB h Q PQ L' E Cq sys st.
  assert (HMr : 0 < INR M) by (apply lt_0_INR; exact HM).
  assert (Hh : 0 < h) by (apply Rdiv_lt_0_compat; assumption).
  assert (HhT : h <= T).
  { pose proof (grid_le T M 1 HT HM ltac:(lia)) as G1'. cbn [INR] in G1'. fold h in G1'. lra. }
  assert (HG1 : 0 <= G1) by (eapply Rle_trans; [apply Rabs_pos|apply (HgG1 0)]).
  assert (Hf1 : forall s, ex_derive f s) by (intro s; apply (Hexf s 1%nat); lia).
  assert (Hg1 : forall s, ex_derive g s) by (intro s; apply (Hexg s 1%nat); lia).
  pose proof (lipschitz_of_derivative f L Hf1 HfL) as Hl.
  pose proof (lipschitz_of_derivative g G1 Hg1 HgG1) as Hgl.
  assert (HQ : 0 < Q) by (apply Rmult_lt_0_compat; assumption).
  set (q := h * L).
  assert (Hq0 : 0 <= q) by (apply Rmult_le_pos; lra).
  assert (HqQ : q <= Q) by (apply Rmult_le_compat_r; lra).
  assert (Hq2 : q ^ 2 <= Q ^ 2) by (apply pow_incr; lra).
  assert (Hq3 : q ^ 3 <= Q ^ 3) by (apply pow_incr; lra).
  assert (Hq2p : 0 <= q ^ 2) by (apply pow_le; lra).
  assert (Hq3p : 0 <= q ^ 3) by (apply pow_le; lra).
  assert (HPq : 1 <= 1 + q / 2 + q ^ 2 / 6 + q ^ 3 / 24 <= PQ) by (unfold PQ; lra).
  set (G := fun s => g (x s)).
  assert (HGex : forall t, ex_derive G t).
  { intro t. exists (Derive g (x t) * f (x t)). evar_last.
    - apply (is_derive_comp g x t (Derive g (x t)) (f (x t))); [apply Derive_correct; apply Hg1|apply Hsol].
    - unfold scal. cbn. unfold mult. cbn. ring. }
  set (A := fun t => RInt G t0 t).
  assert (HA : forall t, is_derive A t (g (x t))).
  { intro t. apply (is_derive_RInt G A t0 t).
    - apply filter_forall. intro b. apply (@RInt_correct R_CompleteNormedModule).
      apply (@ex_RInt_continuous R_CompleteNormedModule). intros z _.
      apply (ex_derive_continuous G z). apply HGex.
    - apply (ex_derive_continuous G t). apply HGex. }
  pose proof (antiderivative_derivs f g x Hsol Hexf Hexg A HA) as HAd.
  (* the error of the states *)
  pose proof (srk4_order4 f x t0 T B L F2 F3 F4 M HT HL HM Hexf HfL HfF2 HfF3 HfF4 Hsol HB) as Herr.
  cbv zeta in Herr. fold h Q PQ L' E in Herr.
  assert (HE : 0 <= E).
  { pose proof (Herr 1%nat ltac:(lia)) as E1.
    match type of E1 with Rabs ?e <= _ => pose proof (Rabs_pos e) as P1 end.
    assert (Hh4 : 0 < h ^ 4) by (apply pow_lt; exact Hh).
    destruct (Rle_or_lt 0 E) as [Hp|Hn]; [exact Hp|].
    pose proof (Rmult_lt_compat_r (h ^ 4) E 0 Hh4 Hn) as Hneg. rewrite Rmult_0_l in Hneg. lra. }
  (* reduce the model's accumulator to the scalar sum *)
  subst st. rewrite (discrete_system_quad R_field_laws).
  change (@odiv R ROps T (@of_nat R ROps M)) with (T / @of_nat R ROps M).
  rewrite of_nat_R. fold h.
  change (@vzero R ROps 1) with [0].
  change sys with (qsys f g).
  rewrite (rk4_model_quad f g t0 h T M (x t0)). cbn [nth].
  set (c5 := rk4_cq5 B L F2 F3 F4 G1 G2 G3 G4 T) in *.
  set (KA := rk4_KA5 B L F2 F3 G1 G2 G3 G4) in *.
  set (Qs := fun k => rquad f g h k (x t0)).
  assert (Hind : forall k, (k <= M)%nat ->
            Rabs (Qs k - A (t0 + INR k * h)) <= INR k * ((G1 * PQ * E + c5 + KA / 120) * h ^ 5)).
  { induction k as [|k IH]; intro Hk.
    - unfold Qs, A. cbn [rquad INR]. rewrite !Rmult_0_l, Rplus_0_r.
      rewrite RInt_point. unfold zero. cbn. rewrite Rminus_0_r, Rabs_R0. lra.
    - specialize (IH ltac:(lia)).
      set (tk := t0 + INR k * h) in *.
      pose proof (grid_le T M k HT HM ltac:(lia)) as Gk. fold h in Gk.
      pose proof (grid_le T M (S k) HT HM Hk) as Gk1. fold h in Gk1.
      rewrite S_INR in Gk1.
      replace (t0 + INR (S k) * h) with (tk + h) by (rewrite S_INR; unfold tk; ring).
      assert (Itk : t0 <= tk <= t0 + T) by (unfold tk; lra).
      assert (Isub : forall t, tk <= t <= tk + h -> t0 <= t <= t0 + T).
      { intros t Ht. unfold tk in *. lra. }
      unfold Qs at 1. cbn [rquad]. fold (Qs k).
      set (y := srk4 f h k (x t0)).
      pose proof (Herr k ltac:(lia)) as Ek. fold y tk in Ek.
      (* 1: perturbation of the start state *)
      assert (P1 : Rabs (s_quad4 f g y h - s_quad4 f g (x tk) h) <= G1 * PQ * E * h ^ 5).
      { eapply Rle_trans; [apply (s_quad4_lipschitz f g L G1 y (x tk) h); [lra|exact HG1|lra|exact Hl|exact Hgl]|].
        cbv zeta. fold q.
        set (d := Rabs (y - x tk)) in *. assert (Hd : 0 <= d) by apply Rabs_pos.
        replace (G1 * PQ * E * h ^ 5) with (h * (G1 * ((E * h ^ 4) * PQ))) by ring.
        apply Rmult_le_compat_l; [lra|]. apply Rmult_le_compat_l; [exact HG1|].
        apply Rmult_le_compat; lra. }
      (* 2: consistency at the exact solution *)
      assert (P2 : Rabs (s_quad4 f g (x tk) h - (h * int_d1 g x tk + h ^ 2 / 2 * int_d2 f g x tk
                         + h ^ 3 / 6 * int_d3 f g x tk + h ^ 4 / 24 * int_d4 f g x tk)) <= h ^ 5 * c5).
      { unfold int_d1, int_d2, int_d3, int_d4, gd_at, fd_at. cbn [Derive_n].
        apply (s_quad4_consistency f g (x tk) (f (x tk)) (Derive_n f 1 (x tk)) (Derive_n f 2 (x tk))
                 (Derive_n f 3 (x tk)) (g (x tk)) (Derive_n g 1 (x tk)) (Derive_n g 2 (x tk))
                 (Derive_n g 3 (x tk)) B L F2 F3 F4 G1 G2 G3 G4); auto.
        - intro d. apply taylor4_gen; assumption.
        - intro d. apply taylor4_gen; assumption. }
      (* 3: Taylor to fifth order for the antiderivative *)
      assert (P3 : Rabs (A (tk + h) - A tk - h * Derive_n A 1 tk - h ^ 2 / 2 * Derive_n A 2 tk
                         - h ^ 3 / 6 * Derive_n A 3 tk - h ^ 4 / 24 * Derive_n A 4 tk) <= KA / 120 * h ^ 5).
      { apply taylor5; [exact Hh|intros t k0 _ Hk0; apply (proj1 (HAd t)); exact Hk0|].
        intros t Ht. destruct (HAd t) as (_ & _ & _ & _ & _ & E5). rewrite E5. unfold int_d5.
        assert (U0 : Rabs (fd_at f x 0 t) <= B) by (apply HB; apply Isub; exact Ht).
        assert (U1 : Rabs (fd_at f x 1 t) <= L) by apply HfL.
        assert (U2 : Rabs (fd_at f x 2 t) <= F2) by apply HfF2.
        assert (U3 : Rabs (fd_at f x 3 t) <= F3) by apply HfF3.
        assert (W1 : Rabs (gd_at g x 1 t) <= G1) by apply HgG1.
        assert (W2 : Rabs (gd_at g x 2 t) <= G2) by apply HgG2.
        assert (W3 : Rabs (gd_at g x 3 t) <= G3) by apply HgG3.
        assert (W4 : Rabs (gd_at g x 4 t) <= G4) by apply HgG4.
        eapply Rle_trans; [absb|]. apply Req_le. unfold KA, rk4_KA5. ring. }
      destruct (HAd tk) as (_ & E1 & E2 & E3 & E4 & _). rewrite E1, E2, E3, E4 in P3.
      set (p := h * int_d1 g x tk + h ^ 2 / 2 * int_d2 f g x tk + h ^ 3 / 6 * int_d3 f g x tk
                + h ^ 4 / 24 * int_d4 f g x tk) in *.
      set (sa := s_quad4 f g y h) in *. set (sb := s_quad4 f g (x tk) h) in *.
      replace (Qs k + sa - A (tk + h))
        with ((Qs k - A tk) + (sa - sb) + (sb - p)
              + - (A (tk + h) - A tk - h * int_d1 g x tk - h ^ 2 / 2 * int_d2 f g x tk
                   - h ^ 3 / 6 * int_d3 f g x tk - h ^ 4 / 24 * int_d4 f g x tk)) by (unfold p; ring).
      eapply Rle_trans; [apply Rabs_triang|]. rewrite Rabs_Ropp.
      eapply Rle_trans; [apply Rplus_le_compat_r; apply Rabs_triang|].
      eapply Rle_trans; [apply Rplus_le_compat_r; apply Rplus_le_compat_r; apply Rabs_triang|].
      rewrite S_INR. lra. }
  specialize (Hind M (le_n M)).
  assert (EM : INR M * h = T) by (unfold h; field; lra).
  rewrite EM in Hind. fold (A (t0 + T)). fold (Qs M).
  eapply Rle_trans; [exact Hind|].
  unfold Cq. fold c5 KA.
  replace (INR M * ((G1 * PQ * E + c5 + KA / 120) * h ^ 5))
    with (INR M * h * (G1 * PQ * E + c5 + KA / 120) * h ^ 4) by ring.
  rewrite EM. apply Rle_refl.
Qed.

(* ---- the hypotheses are satisfiable *)
Lemma RInt_of_derivative (F dF : R -> R) (a b : R) :
  (forall t, is_derive F t (dF t)) -> (forall t, ex_derive dF t) ->
  RInt dF a b = F b - F a.
Proof.
  intros HF Hd. apply is_RInt_unique.
  apply (is_RInt_derive F dF a b).
  - intros t _. apply HF.
  - intros t _. apply (ex_derive_continuous dF t). apply Hd.
Qed.

(* (a) linear: x' = x, integrand x, x = exp: the integral is e^{t0+T} - e^{t0} *)
Example rk4_integral_order4_exp (t0 T : R) (M : nat) :
  0 < T -> (0 < M)%nat ->
  let h := T / INR M in
  let sys := mkSys (fun X (_ : R) => [nth 0 X 0]) (fun X (_ : R) => [nth 0 X 0]) in
  let st := @discrete_system R ROps (intg_rk sys) M 1 [exp t0] T t0 in
  let Q := T * 1 in
  let PQ := 1 + Q / 2 + Q ^ 2 / 6 + Q ^ 3 / 24 in
  let L' := 1 * PQ in
  let B := exp (t0 + T) in
  let E := (rk4_c5 B 1 0 0 0 T + rk4_K5 B 1 0 0 0 / 120) * ((exp (T * L') - 1) / L') in
  let Cq := T * (1 * PQ * E + rk4_cq5 B 1 0 0 0 1 0 0 0 T + rk4_KA5 B 1 0 0 1 0 0 0 / 120) in
  Rabs (nth 0 (ds_quad st) 0 - (exp (t0 + T) - exp t0)) <= Cq * h ^ 4.
Proof.
  intros HT HM h sys st Q PQ L' B E Cq.
  assert (Hexp : forall t, t0 <= t <= t0 + T -> Rabs (exp t) <= exp (t0 + T)).
  { intros t Ht. rewrite Rabs_pos_eq by (left; apply exp_pos).
    destruct Ht as [_ [Ht|Ht]]; [left; apply exp_increasing; exact Ht|rewrite Ht; apply Rle_refl]. }
  rewrite <- (RInt_of_derivative exp exp t0 (t0 + T))
    by (intro t; first [apply is_derive_exp|exists (exp t); apply is_derive_exp]).
  apply (rk4_integral_converges_order4 (fun a => a) (fun a => a) exp t0 T (exp (t0 + T)) 1 0 0 0 1 0 0 0 M
           HT Rlt_0_1 HM).
  - intros s k _. apply ex_derive_n_id.
  - intro s. rewrite Derive_n_id_1, Rabs_R1. apply Rle_refl.
  - intro s. rewrite Derive_n_id_S, Rabs_R0. apply Rle_refl.
  - intro s. rewrite Derive_n_id_S, Rabs_R0. apply Rle_refl.
  - intro s. rewrite Derive_n_id_S, Rabs_R0. apply Rle_refl.
  - intros s k _. apply ex_derive_n_id.
  - intro s. rewrite Derive_n_id_1, Rabs_R1. apply Rle_refl.
  - intro s. rewrite Derive_n_id_S, Rabs_R0. apply Rle_refl.
  - intro s. rewrite Derive_n_id_S, Rabs_R0. apply Rle_refl.
  - intro s. rewrite Derive_n_id_S, Rabs_R0. apply Rle_refl.
  - intro t. apply is_derive_exp.
  - exact Hexp.
Qed.

(* (b) nonlinear: x' = sin x, integrand sin x, x(t) = 2 atan (e^t): the integral of sin(x(s)) = x'(s) over
   [t0, t0+T] is x(t0+T) - x(t0); B = L = F2 = F3 = F4 = G1 = G2 = G3 = G4 = 1 *)
Example rk4_integral_order4_sin (t0 T : R) (M : nat) :
  0 < T -> (0 < M)%nat ->
  let h := T / INR M in
  let x := fun t => 2 * atan (exp t) in
  let sys := mkSys (fun X (_ : R) => [sin (nth 0 X 0)]) (fun X (_ : R) => [sin (nth 0 X 0)]) in
  let st := @discrete_system R ROps (intg_rk sys) M 1 [x t0] T t0 in
  let Q := T * 1 in
  let PQ := 1 + Q / 2 + Q ^ 2 / 6 + Q ^ 3 / 24 in
  let L' := 1 * PQ in
  let E := (rk4_c5 1 1 1 1 1 T + rk4_K5 1 1 1 1 1 / 120) * ((exp (T * L') - 1) / L') in
  let Cq := T * (1 * PQ * E + rk4_cq5 1 1 1 1 1 1 1 1 1 T + rk4_KA5 1 1 1 1 1 1 1 1 / 120) in
  Rabs (nth 0 (ds_quad st) 0 - (x (t0 + T) - x t0)) <= Cq * h ^ 4.
Proof.
  intros HT HM h x sys st Q PQ L' E Cq.
  rewrite <- (RInt_of_derivative x (fun s => sin (x s)) t0 (t0 + T)).
  - apply (rk4_integral_converges_order4 sin sin x t0 T 1 1 1 1 1 1 1 1 1 M HT Rlt_0_1 HM).
    + intros s k Hk. apply (proj1 (sin_derivs s)). exact Hk.
    + intro s. destruct (sin_derivs s) as (_ & E1 & _). rewrite E1. apply abs_cos_le.
    + intro s. destruct (sin_derivs s) as (_ & _ & E2 & _). rewrite E2, Rabs_Ropp. apply abs_sin_le.
    + intro s. destruct (sin_derivs s) as (_ & _ & _ & E3 & _). rewrite E3, Rabs_Ropp. apply abs_cos_le.
    + intro s. destruct (sin_derivs s) as (_ & _ & _ & _ & E4). rewrite E4. apply abs_sin_le.
    + intros s k Hk. apply (proj1 (sin_derivs s)). exact Hk.
    + intro s. destruct (sin_derivs s) as (_ & E1 & _). rewrite E1. apply abs_cos_le.
    + intro s. destruct (sin_derivs s) as (_ & _ & E2 & _). rewrite E2, Rabs_Ropp. apply abs_sin_le.
    + intro s. destruct (sin_derivs s) as (_ & _ & _ & E3 & _). rewrite E3, Rabs_Ropp. apply abs_cos_le.
    + intro s. destruct (sin_derivs s) as (_ & _ & _ & _ & E4). rewrite E4. apply abs_sin_le.
    + intro t. apply sin_flow_solution.
    + intros t _. apply abs_sin_le.
  - intro t. apply sin_flow_solution.
  - intro t. unfold x. auto_derive. exact I.
Qed.

Lemma rk4_KA5_sin : rk4_KA5 1 1 1 1 1 1 1 1 = 24.
Proof. unfold rk4_KA5. ring. Qed.

Print Assumptions rk4_integral_converges_order4.
Print Assumptions rk4_integral_order4_sin.
