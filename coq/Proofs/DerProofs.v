(* C16: over the reals, the forward-mode derivative of Mech/Der.v is the time derivative of the
   expression along any differentiable trajectory that satisfies the ODE. *)
From Coq Require Import Reals ZArith QArith List Lia Lra Bool.
From Coquelicot Require Import Coquelicot.
From RV Require Import Base.Num Expr Mech.Der.
Import ListNotations.
Local Open Scope R_scope.

#[export] Instance ROps : Ops R := mkOps R 0 1 Rplus Rmult Rminus Ropp Rdiv Rinv.

Lemma of_pos_R (p : positive) : @of_pos R ROps p = IZR (Zpos p).
Proof.
  induction p as [p IH|p IH|]; cbn [of_pos].
  - rewrite IH. unfold o2. cbn [oadd omul o1 ROps]. rewrite Pos2Z.inj_xI, plus_IZR, mult_IZR. lra.
  - rewrite IH. unfold o2. cbn [oadd omul o1 ROps]. rewrite Pos2Z.inj_xO, mult_IZR. lra.
  - reflexivity.
Qed.

Lemma of_Z_R (z : Z) : @of_Z R ROps z = IZR z.
Proof.
  destruct z as [|p|p]; cbn [of_Z].
  - reflexivity.
  - apply of_pos_R.
  - rewrite of_pos_R. cbn [oopp ROps]. change (Zneg p) with (- Zpos p)%Z. rewrite opp_IZR. reflexivity.
Qed.

Lemma of_Q_R (q : Q) : @of_Q R ROps q = IZR (Qnum q) / IZR (Zpos (Qden q)).
Proof. unfold of_Q. rewrite of_Z_R, of_pos_R. reflexivity. Qed.

Lemma of_Q_0R : @of_Q R ROps 0%Q = 0.
Proof. rewrite of_Q_R. cbn. lra. Qed.
Lemma of_Q_1R : @of_Q R ROps 1%Q = 1.
Proof. rewrite of_Q_R. cbn. lra. Qed.
Lemma of_Q_nat (n : nat) : @of_Q R ROps (inject_Z (Z.of_nat n)) = INR n.
Proof. rewrite of_Q_R. cbn [inject_Z Qnum Qden]. rewrite <- INR_IZR_INZ. lra. Qed.

Lemma opow_R (x : R) n : @opow R ROps x n = x ^ n.
Proof. induction n as [|n IH]; cbn [opow pow]; [reflexivity|]. rewrite IH. reflexivity. Qed.

Lemma R_derive_const (c t : R) : is_derive (fun _ : R => c) t 0.
Proof. apply (@is_derive_const R_AbsRing R_NormedModule). Qed.
Lemma R_derive_id (t : R) : is_derive (fun x : R => x) t 1.
Proof. apply (@is_derive_id R_AbsRing). Qed.

Section DerR.
Variable ode : list expr.
Variable xs : list (R -> R).      (* the state trajectory, component by component *)
Variable base : env R.            (* every other symbol: constant along the trajectory *)

Definition envt (t : R) : env R :=
  {| e_x := map (fun f => f t) xs; e_u := e_u base; e_z := e_z base; e_q := e_q base;
     e_p := e_p base; e_pc := e_pc base; e_pp := e_pp base;
     e_v := e_v base; e_vc := e_vc base; e_vp := e_vp base;
     e_t := t; e_T := e_T base; e_t0 := e_t0 base; e_DT := e_DT base; e_DTc := e_DTc base |}.

Hypothesis Hlen : length ode = length xs.
(* the trajectory solves the ODE at time t *)
Variable t : R.
Hypothesis Hsol : forall i, (i < length xs)%nat ->
  is_derive (nth i xs (fun _ => 0)) t (eval0 (envt t) (nth i ode (EC 0))).

(* no division by zero at t, no offset placeholders *)
Fixpoint safe (e : expr) : Prop :=
  match e with
  | EC _ | ES _ => True
  | EAdd a b | ESub a b | EMul a b => safe a /\ safe b
  | EDiv a b => safe a /\ safe b /\ eval0 (envt t) b <> 0
  | ENeg a | EPow a _ => safe a
  | EOff _ _ => False
  end.

Lemma nth_map_traj i tau : nth i (map (fun f => f tau) xs) 0 = nth i xs (fun _ => 0) tau.
Proof.
  change 0 with ((fun _ : R => 0) tau) at 1.
  rewrite (map_nth (fun f : R -> R => f tau)). reflexivity.
Qed.

Theorem der_is_time_derivative (e : expr) :
  safe e -> is_derive (fun tau => eval0 (envt tau) e) t (eval0 (envt t) (tder ode e)).
Proof.
  unfold eval0.
  induction e as [q|s|a IHa b IHb|a IHa b IHb|a IHa b IHb|a IHa b IHb|a IHa|a IHa n|n a IHa];
    intro Hs; cbn [safe] in Hs; cbn [tder eval].
  - rewrite of_Q_0R. apply R_derive_const.
  - destruct s; cbn [tder eval lookup envt e_x e_u e_z e_q e_p e_pc e_pp e_v e_vc e_vp e_t e_T e_t0 e_DT e_DTc];
      try (rewrite of_Q_0R; apply R_derive_const).
    + (* state *)
      destruct (Nat.lt_ge_cases i (length xs)) as [Hi|Hi].
      * apply (is_derive_ext (nth i xs (fun _ => 0))); [intro tau; symmetry; apply nth_map_traj|].
        apply Hsol. exact Hi.
      * rewrite (nth_overflow ode) by lia. cbn [eval]. rewrite of_Q_0R.
        apply (is_derive_ext (fun _ => 0)); [|apply R_derive_const].
        intro tau. rewrite nth_map_traj. rewrite nth_overflow by exact Hi. reflexivity.
    + (* time *)
      rewrite of_Q_1R. apply R_derive_id.
  - destruct Hs as (Ha & Hb). apply (is_derive_plus (fun tau => eval (envt tau) (fun _ => envt tau) a)
      (fun tau => eval (envt tau) (fun _ => envt tau) b)); [apply IHa; exact Ha|apply IHb; exact Hb].
  - destruct Hs as (Ha & Hb). apply (is_derive_minus (fun tau => eval (envt tau) (fun _ => envt tau) a)
      (fun tau => eval (envt tau) (fun _ => envt tau) b)); [apply IHa; exact Ha|apply IHb; exact Hb].
  - destruct Hs as (Ha & Hb).
    apply (is_derive_mult (fun tau => eval (envt tau) (fun _ => envt tau) a)
      (fun tau => eval (envt tau) (fun _ => envt tau) b) t); [apply IHa; exact Ha|apply IHb; exact Hb|].
    exact Rmult_comm.
  - destruct Hs as (Ha & Hb & Hnz). unfold eval0 in Hnz.
    evar_last.
    + apply (is_derive_div (fun tau => eval (envt tau) (fun _ => envt tau) a)
        (fun tau => eval (envt tau) (fun _ => envt tau) b) t); [apply IHa; exact Ha|apply IHb; exact Hb|exact Hnz].
    + cbn [oadd omul osub odiv ROps]. field. exact Hnz.
  - apply (is_derive_opp (fun tau => eval (envt tau) (fun _ => envt tau) a)). apply IHa. exact Hs.
  - destruct n as [|m].
    + cbn [eval]. rewrite of_Q_0R. apply (is_derive_ext (fun _ => 1)); [intro tau; reflexivity|apply R_derive_const].
    + cbn [eval]. rewrite of_Q_nat.
      apply (is_derive_ext (fun tau => (eval (envt tau) (fun _ => envt tau) a) ^ (S m))).
      { intro tau. symmetry. apply opow_R. }
      evar_last.
      * apply (is_derive_pow (fun tau => eval (envt tau) (fun _ => envt tau) a) (S m) t). apply IHa. exact Hs.
      * pose proof (opow_R (eval (envt t) (fun _ => envt t) a) m) as E.
        cbn [omul ROps Init.Nat.pred]. cbn [omul ROps] in E. rewrite E. ring.
  - destruct Hs.
Qed.

End DerR.
