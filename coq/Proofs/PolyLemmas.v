(* Ring-homomorphism properties of list polynomials and the Lagrange basis. *)
From Coq Require Import ZArith List Field Lia Bool.
From RV Require Import Base.Num Base.Vec Base.Poly Proofs.NumLemmas Proofs.VecLemmas Proofs.ListLemmas.
Import ListNotations.
Local Open Scope nat_scope.

Section PolyLemmas.
Context {F : Type} {OF : Ops F}.
Hypothesis Fth : field_theory o0 o1 oadd omul osub oopp odiv oinv (@eq F).
Add Field FFp : Fth.

Lemma polyval_vadd (p q : list F) x : polyval (vadd p q) x = polyval p x +! polyval q x.
Proof.
  revert q. induction p as [|a p IH]; intros q.
  - cbn. ring.
  - destruct q as [|b q]; cbn [vadd polyval].
    + ring.
    + rewrite IH. ring.
Qed.

Lemma polyval_vscale c (p : list F) x : polyval (vscale c p) x = c *! polyval p x.
Proof.
  induction p as [|a p IH]; cbn [vscale map polyval].
  - ring.
  - unfold vscale in IH. rewrite IH. ring.
Qed.

Lemma polyval_pmul (p q : list F) x : polyval (pmul p q) x = polyval p x *! polyval q x.
Proof.
  induction p as [|a p IH]; cbn [pmul polyval].
  - ring.
  - unfold padd, pscale. rewrite polyval_vadd, polyval_vscale. cbn [polyval]. rewrite IH. ring.
Qed.

(* the Lagrange factor of node r in basis polynomial j *)
Definition lag_factor (nodes : list F) (j r : nat) (x : F) : F :=
  (x -! nth r nodes o0) /! (nth j nodes o0 -! nth r nodes o0).

Lemma polyval_lag_factor nodes j r x :
  nth j nodes o0 -! nth r nodes o0 <> o0 ->
  polyval [oopp (nth r nodes o0) /! (nth j nodes o0 -! nth r nodes o0);
           o1 /! (nth j nodes o0 -! nth r nodes o0)] x = lag_factor nodes j r x.
Proof. intro H. unfold lag_factor. cbn [polyval]. field. exact H. Qed.

(* product over a list of indices, skipping j *)
Definition lag_prod (nodes : list F) (j : nat) (rs : list nat) (x : F) : F :=
  fold_left (fun acc r => if Nat.eqb r j then acc else acc *! lag_factor nodes j r x) rs o1.

Lemma lagrange_fold_val nodes j rs x (acc : list F) :
  (forall r, In r rs -> r <> j -> nth j nodes o0 -! nth r nodes o0 <> o0) ->
  polyval (fold_left (fun a r => if Nat.eqb r j then a
                                 else pmul a [oopp (nth r nodes o0) /! (nth j nodes o0 -! nth r nodes o0);
                                              o1 /! (nth j nodes o0 -! nth r nodes o0)]) rs acc) x
  = fold_left (fun a r => if Nat.eqb r j then a else a *! lag_factor nodes j r x) rs (polyval acc x).
Proof.
  revert acc. induction rs as [|r rs IH]; intros acc H; [reflexivity|].
  cbn [fold_left]. destruct (Nat.eqb r j) eqn:E.
  - apply IH. intros r' Hr'. apply H. right. exact Hr'.
  - rewrite IH by (intros r' Hr'; apply H; right; exact Hr').
    rewrite polyval_pmul, polyval_lag_factor; [reflexivity|].
    apply H; [left; reflexivity|]. apply Nat.eqb_neq. exact E.
Qed.

Theorem lagrange_val nodes j x :
  (forall r, r < length nodes -> r <> j -> nth j nodes o0 -! nth r nodes o0 <> o0) ->
  polyval (lagrange nodes j) x = lag_prod nodes j (seq 0 (length nodes)) x.
Proof.
  intro H. unfold lagrange, lag_prod. rewrite lagrange_fold_val.
  - cbn [polyval]. f_equal. ring.
  - intros r Hr Hne. apply H; [|exact Hne]. apply in_seq in Hr. lia.
Qed.

Lemma fold_mul_zero (f : nat -> F) (cond : nat -> bool) rs :
  fold_left (fun a r => if cond r then a else a *! f r) rs o0 = o0.
Proof.
  induction rs as [|r rs IH]; [reflexivity|]. cbn [fold_left].
  destruct (cond r); [exact IH|]. replace (o0 *! f r) with (o0 : F) by ring. exact IH.
Qed.

Lemma lag_prod_zero nodes j rs s acc :
  In s rs -> s <> j ->
  fold_left (fun a r => if Nat.eqb r j then a else a *! lag_factor nodes j r (nth s nodes o0)) rs acc = o0.
Proof.
  revert acc. induction rs as [|r rs IH]; intros acc Hin Hne; [destruct Hin|].
  cbn [fold_left]. destruct Hin as [->|Hin].
  - assert (E : Nat.eqb s j = false) by (apply Nat.eqb_neq; exact Hne). rewrite E.
    assert (Z : lag_factor nodes j s (nth s nodes o0) = o0).
    { unfold lag_factor. replace (nth s nodes o0 -! nth s nodes o0) with (o0 : F) by ring.
      unfold odiv. destruct Fth as [R _ Fdiv _]. rewrite Fdiv. ring. }
    rewrite Z. replace (acc *! o0) with (o0 : F) by ring.
    apply (fold_mul_zero (fun r => lag_factor nodes j r (nth s nodes o0)) (fun r => Nat.eqb r j)).
  - destruct (Nat.eqb r j); apply IH; assumption.
Qed.

Lemma lag_prod_one nodes j rs :
  (forall r, In r rs -> r <> j -> nth j nodes o0 -! nth r nodes o0 <> o0) ->
  fold_left (fun a r => if Nat.eqb r j then a else a *! lag_factor nodes j r (nth j nodes o0)) rs o1 = o1.
Proof.
  induction rs as [|r rs IH]; intro H; [reflexivity|]. cbn [fold_left].
  destruct (Nat.eqb r j) eqn:E.
  - apply IH. intros r' Hr'. apply H. right. exact Hr'.
  - assert (One : lag_factor nodes j r (nth j nodes o0) = o1).
    { unfold lag_factor. field. apply H; [left; reflexivity|apply Nat.eqb_neq; exact E]. }
    rewrite One. replace (o1 *! o1) with (o1 : F) by ring.
    apply IH. intros r' Hr'. apply H. right. exact Hr'.
Qed.

(* l_j(tau_s) = delta_js for pairwise distinct nodes *)
Theorem lagrange_delta nodes j s :
  j < length nodes -> s < length nodes ->
  (forall a b, a < length nodes -> b < length nodes -> a <> b -> nth a nodes o0 -! nth b nodes o0 <> o0) ->
  polyval (lagrange nodes j) (nth s nodes o0) = if Nat.eqb s j then o1 else o0.
Proof.
  intros Hj Hs Hd. rewrite lagrange_val by (intros r Hr Hne; apply Hd; auto).
  unfold lag_prod. destruct (Nat.eqb s j) eqn:E.
  - apply Nat.eqb_eq in E. subst s. apply lag_prod_one.
    intros r Hr Hne. apply Hd; auto. apply in_seq in Hr. lia.
  - apply lag_prod_zero; [apply in_seq; lia|apply Nat.eqb_neq; exact E].
Qed.

End PolyLemmas.
