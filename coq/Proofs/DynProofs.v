(* C01: the step maps of rockit are the explicit Runge-Kutta schemes of their
   tableaux, and discrete_system's accumulator loop is M-fold composition with
   step j at the absolute time t0 + j*DT. *)
From Coq Require Import ZArith List Field Lia.
From RV Require Import Base.Num Base.Vec Mech.Intg Spec.SpecDyn Proofs.NumLemmas Proofs.VecLemmas.
Import ListNotations.

Lemma iter_S {A} n (f : A -> A) x : Nat.iter (S n) f x = f (Nat.iter n f x).
Proof. reflexivity. Qed.

Section DynProofs.
Context {F : Type} {OF : Ops F}.
Hypothesis Fth : field_theory o0 o1 oadd omul osub oopp odiv oinv (@eq F).
Hypothesis Ch0 : @Char0 F OF.
Add Field FFd : Fth.

Lemma o2_nz : (@o2 F OF) <> o0.
Proof. intro H. apply (Ch0 2%positive). cbn [of_pos]. rewrite H. ring. Qed.
Lemma o3_nz : (@of_Z F OF 3) <> o0.
Proof. exact (Ch0 3%positive). Qed.
Lemma o6_nz : (@of_Z F OF 6) <> o0.
Proof. exact (Ch0 6%positive). Qed.

Lemma o6_val : (@of_Z F OF 6) = o2 *! (o1 +! o2).
Proof. cbn. unfold o2. ring. Qed.
Lemma o3_val : (@of_Z F OF 3) = o1 +! o2.
Proof. cbn. unfold o2. ring. Qed.

Ltac nz := first [ exact o2_nz | exact o3_nz | exact o6_nz | assumption ].
Ltac vlen := repeat first [ rewrite length_vadd | rewrite length_vsub | rewrite length_vscale
                          | rewrite length_vdivs | rewrite length_vzero ]; cbn [length].
Ltac vnths := repeat first [ rewrite (vnth_vadd Fth) | rewrite (vnth_vsub Fth)
                           | rewrite (vnth_vscale Fth) | rewrite vnth_nil ].

(* ------------------------------------------------------------------ RK4 *)
Section RK4.
Variable f : sysfun F.
Variable n nq : nat.
Hypothesis Hode : forall x t, length (s_ode f x t) = n.
Hypothesis Hquad : forall x t, length (s_quad f x t) = nq.
Variables (X : list F) (t0 DT DTc : F).
Hypothesis HX : length X = n.

Lemma rk4_points :
  erk_stage_points rk4_tableau (s_ode f) DT t0 X =
  let h2 := DT /! o2 in
  let k1 := s_ode f X t0 in
  let x2 := vadd X (vscale h2 k1) in
  let k2 := s_ode f x2 (t0 +! h2) in
  let x3 := vadd X (vscale h2 k2) in
  let k3 := s_ode f x3 (t0 +! h2) in
  let x4 := vadd X (vscale DT k3) in
  [(X, t0); (x2, t0 +! h2); (x3, t0 +! h2); (x4, t0 +! DT)].
Proof.
  unfold erk_stage_points, rk4_tableau. cbn [tb_c tb_A tb_b erk_points app vlincomb].
  assert (E0 : vadd X (vscale DT []) = X) by (cbn; apply vadd_nil_r).
  assert (T0 : t0 +! o0 *! DT = t0) by ring.
  rewrite E0, T0.
  set (k1 := s_ode f X t0).
  assert (E1 : vadd X (vscale DT (vadd (vscale half k1) [])) = vadd X (vscale (DT /! o2) k1)).
  { apply vec_ext.
    - vlen. lia.
    - intro i. vnths.
      unfold half. field. nz. }
  assert (T1 : t0 +! half *! DT = t0 +! DT /! o2) by (unfold half; field; nz).
  rewrite E1, T1.
  set (k2 := s_ode f (vadd X (vscale (DT /! o2) k1)) (t0 +! DT /! o2)).
  assert (E2 : vadd X (vscale DT (vadd (vscale o0 k1) (vadd (vscale half k2) [])))
               = vadd X (vscale (DT /! o2) k2)).
  { apply vec_ext.
    - vlen. unfold k1, k2. rewrite !Hode. lia.
    - intro i. vnths.
      unfold half. field. nz. }
  rewrite E2.
  set (k3 := s_ode f (vadd X (vscale (DT /! o2) k2)) (t0 +! DT /! o2)).
  assert (E3 : vadd X (vscale DT (vadd (vscale o0 k1) (vadd (vscale o0 k2) (vadd (vscale o1 k3) []))))
               = vadd X (vscale DT k3)).
  { apply vec_ext.
    - vlen. unfold k1, k2, k3. rewrite !Hode. lia.
    - intro i. vnths.
      ring. }
  assert (T3 : t0 +! o1 *! DT = t0 +! DT) by ring.
  rewrite E3, T3. reflexivity.
Qed.

Lemma rk4_comb (a1 a2 a3 a4 : list F) (m : nat) :
  length a1 = m -> length a2 = m -> length a3 = m -> length a4 = m ->
  vscale (DT /! o6) (vadd (vadd (vadd a1 (vscale o2 a2)) (vscale o2 a3)) a4)
  = vscale DT (vadd (vscale sixth a1) (vadd (vscale third a2)
                 (vadd (vscale third a3) (vadd (vscale sixth a4) [])))).
Proof.
  intros H1 H2 H3 H4. apply vec_ext.
  - vlen. lia.
  - intro i. vnths.
    assert (A : (o2 *! (o1 +! o2) : F) <> o0) by (rewrite <- o6_val; nz).
    assert (B : (o1 +! o2 : F) <> o0) by (rewrite <- o3_val; nz).
    unfold sixth, third, o6. cbn [of_Z of_pos]. unfold o2 in *. field.
    split; [exact A|exact B].
Qed.

Theorem intg_rk_is_erk :
  r_xf (intg_rk f X t0 DT DTc) = erk_step rk4_tableau (s_ode f) DT t0 X.
Proof.
  unfold erk_step. rewrite rk4_points. cbn zeta. cbn [map fst snd tb_b rk4_tableau vlincomb].
  unfold intg_rk. cbn [r_xf]. f_equal.
  apply (rk4_comb _ _ _ _ n); apply Hode.
Qed.

Theorem intg_rk_quad_is_erk :
  r_qf (intg_rk f X t0 DT DTc) = erk_quad rk4_tableau (s_ode f) (s_quad f) DT t0 X.
Proof.
  unfold erk_quad. rewrite rk4_points. cbn zeta. cbn [map fst snd tb_b rk4_tableau vlincomb].
  unfold intg_rk. cbn [r_qf].
  apply (rk4_comb _ _ _ _ nq); apply Hquad.
Qed.

End RK4.

(* ------------------------------------------------------------------ Euler *)
Theorem intg_euler_is_erk (f : sysfun F) X t0 DT DTc :
  r_xf (intg_expl_euler f X t0 DT DTc) = erk_step euler_tableau (s_ode f) DT t0 X.
Proof.
  unfold erk_step, erk_stage_points, euler_tableau.
  cbn [tb_c tb_A tb_b erk_points app vlincomb map fst snd].
  assert (E0 : vadd X (vscale DT []) = X) by (cbn; apply vadd_nil_r).
  assert (T0 : t0 +! o0 *! DT = t0) by ring.
  rewrite E0, T0. unfold intg_expl_euler. cbn [r_xf]. f_equal.
  apply vec_ext.
  - vlen. lia.
  - intro i. vnths. ring.
Qed.

Theorem intg_euler_quad_is_erk (f : sysfun F) X t0 DT DTc :
  r_qf (intg_expl_euler f X t0 DT DTc) = erk_quad euler_tableau (s_ode f) (s_quad f) DT t0 X.
Proof.
  unfold erk_quad, erk_stage_points, euler_tableau.
  cbn [tb_c tb_A tb_b erk_points app vlincomb map fst snd].
  assert (E0 : vadd X (vscale DT []) = X) by (cbn; apply vadd_nil_r).
  assert (T0 : t0 +! o0 *! DT = t0) by ring.
  rewrite E0, T0. unfold intg_expl_euler. cbn [r_qf].
  apply vec_ext.
  - vlen. lia.
    - intro i. vnths. ring.
Qed.

(* ------------------------------------------------- the loop of discrete_system *)
Section Loop.
Variable step : list F -> F -> F -> F -> step_result F.
Variables (x0 : list F) (T t0 : F) (M nq : nat).

Let DT := T /! of_nat M.
Let Phi := fun t x => r_xf (step x t DT T).
Let Psi := fun t x => r_qf (step x t DT T).

Definition loop_j (j : nat) : ds_state F :=
  Nat.iter j (ds_step step x0 DT T) (ds_init x0 t0 nq).

Lemma loop_inv j :
  ds_t (loop_j j) = t0 +! of_nat j *! DT /\
  last (ds_X (loop_j j)) x0 = iter_steps Phi t0 DT j x0 /\
  ds_quad (loop_j j) = iter_quad Phi Psi t0 DT j x0 (vzero nq) /\
  length (ds_X (loop_j j)) = S j /\
  length (ds_Q (loop_j j)) = j.
Proof.
  induction j as [|j IH].
  - unfold loop_j. cbn. repeat split; try reflexivity. ring.
  - destruct IH as (It & Ix & Iq & Il & Ilq).
    unfold loop_j in *. rewrite iter_S.
    set (s := Nat.iter j (ds_step step x0 DT T) (ds_init x0 t0 nq)) in *.
    unfold ds_step. cbn [ds_t ds_X ds_quad ds_Q].
    repeat split. 
    + rewrite It, (of_nat_S Fth). ring.
    + rewrite last_last. cbn [iter_steps]. unfold Phi. rewrite Ix, It. reflexivity.
    + cbn [iter_quad]. unfold Psi. rewrite Iq, Ix, It. reflexivity.
    + rewrite app_length, Il. cbn. lia.
    + rewrite app_length, Ilq. cbn. lia.
Qed.

(* xf of discrete_system = M steps, step j at t0 + j*DT *)
Theorem discrete_system_iter :
  ds_xf x0 (discrete_system step M nq x0 T t0) = iter_steps Phi t0 DT M x0.
Proof. unfold ds_xf, discrete_system. exact (proj1 (proj2 (loop_inv M))). Qed.

Theorem discrete_system_quad :
  ds_quad (discrete_system step M nq x0 T t0) = iter_quad Phi Psi t0 DT M x0 (vzero nq).
Proof. unfold discrete_system. exact (proj1 (proj2 (proj2 (loop_inv M)))). Qed.

(* the Xi output lists the intermediate iterates: entry j is the state after j steps *)
Lemma loop_X_nth M' j : j <= M' -> nth j (ds_X (loop_j M')) x0 = iter_steps Phi t0 DT j x0.
Proof.
  induction M' as [|M' IH]; intro Hj.
  - assert (j = 0) by lia. subst. reflexivity.
  - destruct (loop_inv M') as (It & Ix & _ & Il & _).
    unfold loop_j in *. rewrite iter_S.
    set (s := Nat.iter M' (ds_step step x0 DT T) (ds_init x0 t0 nq)) in *.
    unfold ds_step. cbn [ds_X].
    destruct (Nat.eq_dec j (S M')) as [->|Hne].
    + rewrite app_nth2 by lia. rewrite Il, Nat.sub_diag. cbn [nth iter_steps].
      unfold Phi. rewrite Ix, It. reflexivity.
    + rewrite app_nth1 by lia. apply IH. lia.
Qed.

Theorem discrete_system_Xi j : j <= M ->
  nth j (ds_X (discrete_system step M nq x0 T t0)) x0 = iter_steps Phi t0 DT j x0.
Proof. apply loop_X_nth. Qed.

End Loop.

(* two step maps that agree on states of length n (one of them length preserving)
   have the same iterates *)
Lemma iter_steps_ext (Phi1 Phi2 : F -> list F -> list F) (n : nat) t0 h j x0 :
  length x0 = n ->
  (forall t y, length y = n -> Phi1 t y = Phi2 t y) ->
  (forall t y, length y = n -> length (Phi2 t y) = n) ->
  iter_steps Phi1 t0 h j x0 = iter_steps Phi2 t0 h j x0 /\
  length (iter_steps Phi2 t0 h j x0) = n.
Proof.
  intros Hx He Hl. induction j as [|j [IH1 IH2]]; cbn [iter_steps].
  - split; [reflexivity|exact Hx].
  - rewrite IH1. split; [apply He; exact IH2|apply Hl; exact IH2].
Qed.

Lemma intg_rk_xf_len (f : sysfun F) n X t0 DT DTc :
  (forall x t, length (s_ode f x t) = n) -> length X = n ->
  length (r_xf (intg_rk f X t0 DT DTc)) = n.
Proof.
  intros Hode HX. unfold intg_rk. cbn [r_xf]. vlen. rewrite !Hode, HX. lia.
Qed.

Lemma intg_euler_xf_len (f : sysfun F) n X t0 DT DTc :
  (forall x t, length (s_ode f x t) = n) -> length X = n ->
  length (r_xf (intg_expl_euler f X t0 DT DTc)) = n.
Proof.
  intros Hode HX. unfold intg_expl_euler. cbn [r_xf]. vlen. rewrite !Hode, HX. lia.
Qed.

End DynProofs.
