(* C17 (integrator chains): under SplineMethod a chain  p' = v, v' = a, ...  is realised by giving the head state a
   B-spline of degree d and every further chain member the spline whose coefficients are bspline_derivative of
   its predecessor's (degree d-1, d-2, ... on the same xi).  This file proves, on the model's list-level
   definitions over the reals, that the chain dynamics then hold identically in time: the spline of the r-th chain
   member is the r-th analytic derivative of the spline of the head.

   The objects are the model's span polynomials  y |-> spline_value c (basis_values (clamped xi d) d j y)  (the
   model evaluates a spline with the span index j as an argument).  The r-th member is evaluated on the clamped
   knots of degree d-r, where the same xi-interval has the span index j-r.  The identities hold at every real x
   for the span polynomials; the *_interior theorems transfer them to any function that coincides with the span
   polynomial on the open span (K_j, K_{j+1}), i.e. to the piecewise spline itself.

   Conditions, at every level r' < r of the chain: (degree d-r') <= (span j-r') < (number of coefficients
   length c - r') and separation of the clamped knots of degree d-r' across the span j-r'; all of them follow from
   the conditions at the head: d <= j < length c, length c = length xi - 1 + d, and separation of the knots of
   clamped xi d across span j inside the list (the hypothesis of spline_derivative_lists_bounded), which in turn
   holds on every span when xi is strictly increasing. *)
From Coq Require Import Reals ZArith QArith Qcanon List Lia Lra Bool.
From Coquelicot Require Import Coquelicot.
From RV Require Import Base.Num Base.Vec Mech.Spline Inst Proofs.QcInst Proofs.DerProofs Proofs.SplineProofs
     Proofs.SplineDer Proofs.SplineDerList Proofs.SplineDerReal Proofs.SplineDerBounded Proofs.SplineHull.
Import ListNotations.
Local Open Scope nat_scope.

(* ---- the coefficient lists of the chain members: r-fold bspline_derivative with degrees d, d-1, ... *)
Section Chain.
Context {F : Type} {OF : Ops F}.

Fixpoint chain_coeffs (c xi : list F) (d r : nat) : list F :=
  match r with
  | O => c
  | S r' => bspline_derivative (chain_coeffs c xi d r') xi (d - r')
  end.

Lemma bspline_derivative_length (c xi : list F) d : length (bspline_derivative c xi d) = length c - 1.
Proof. unfold bspline_derivative. rewrite map_length, seq_length. reflexivity. Qed.

Lemma chain_coeffs_length (c xi : list F) d r : length (chain_coeffs c xi d r) = length c - r.
Proof.
  induction r as [|r IH]; cbn [chain_coeffs]; [lia|].
  rewrite bspline_derivative_length, IH. lia.
Qed.

End Chain.

(* ---- knot conditions *)

(* knots on either side of span j are distinct, for the indices inside the list *)
Definition knots_separated (K : list R) (j : nat) : Prop :=
  forall a b, a <= j -> j < b -> b < length K -> (nth b K 0 - nth a K 0 <> 0)%R.

Definition strictly_increasing (xi : list R) : Prop :=
  forall a b, a < b -> b < length xi -> (nth a xi 0 < nth b xi 0)%R.

(* on a strictly increasing xi every span d <= j < n of the clamped knots is separated *)
Lemma separated_of_strictly_increasing (xi : list R) d j :
  strictly_increasing xi -> d <= j -> j < length xi - 1 + d -> knots_separated (@clamped R ROps xi d) j.
Proof.
  intros Hs Hd Hj a b Ha Hb Hlen. rewrite clamped_length in Hlen.
  assert (Ea : nth a (@clamped R ROps xi d) 0%R = nth (Nat.min (a - d) (length xi - 1)) xi 0%R)
    by (apply (@clamped_nth R ROps xi d a); lia).
  assert (Eb : nth b (@clamped R ROps xi d) 0%R = nth (Nat.min (b - d) (length xi - 1)) xi 0%R)
    by (apply (@clamped_nth R ROps xi d b); lia).
  rewrite Ea, Eb.
  assert (H : (nth (Nat.min (a - d) (length xi - 1)) xi 0 < nth (Nat.min (b - d) (length xi - 1)) xi 0)%R)
    by (apply Hs; lia).
  lra.
Qed.

(* on a nondecreasing xi a span with K_j < K_{j+1} is separated *)
Lemma separated_of_nondecreasing (xi : list R) d j :
  1 <= length xi ->
  (forall a b, a <= b -> b < length xi -> (nth a xi 0 <= nth b xi 0)%R) ->
  (nth j (@clamped R ROps xi d) 0 < nth (S j) (@clamped R ROps xi d) 0)%R ->
  knots_separated (@clamped R ROps xi d) j.
Proof.
  intros Hxi Hs Hlt a b Ha Hb Hlen. rewrite clamped_length in Hlen.
  pose proof (@clamped_mono R ROps Rle xi d Hxi Hs a j Ha ltac:(lia)) as H1.
  pose proof (@clamped_mono R ROps Rle xi d Hxi Hs (S j) b ltac:(lia) Hlen) as H2.
  unfold knot_fun in H1, H2. cbn [o0 ROps] in H1, H2. lra.
Qed.

(* separation passes to the next chain level: clamped xi d' is clamped xi (S d') without its end knots *)
Lemma separated_shift (xi : list R) d' j :
  1 <= j -> knots_separated (@clamped R ROps xi (S d')) j -> knots_separated (@clamped R ROps xi d') (j - 1).
Proof.
  intros Hj H a b Ha Hb Hlen.
  pose proof (@clamped_shift R ROps xi d' a ltac:(lia)) as Ea.
  pose proof (@clamped_shift R ROps xi d' b Hlen) as Eb.
  unfold knot_fun in Ea, Eb. cbn [o0 ROps] in Ea, Eb. rewrite <- Ea, <- Eb.
  apply H; [lia|lia|]. rewrite clamped_length in *. lia.
Qed.

Lemma separated_level (xi : list R) d j r :
  r <= d -> d <= j -> knots_separated (@clamped R ROps xi d) j ->
  knots_separated (@clamped R ROps xi (d - r)) (j - r).
Proof.
  intros Hr Hd H. induction r as [|r IH].
  - rewrite !Nat.sub_0_r. exact H.
  - replace (j - S r) with (j - r - 1) by lia. apply separated_shift; [lia|].
    replace (S (d - S r)) with (d - r) by lia. apply IH. lia.
Qed.

(* ---- 1. one chain link: the spline with the coefficients bspline_derivative c xi d is the derivative *)
Theorem spline_chain_derivative_R (c xi : list R) (d' j : nat) (x : R) :
  let d := S d' in
  length c = length xi - 1 + d -> 1 <= length xi -> d <= j -> j < length c ->
  knots_separated (@clamped R ROps xi d) j ->
  is_derive (fun y => @spline_value R ROps c (@basis_values R ROps (@clamped R ROps xi d) d j y)) x
            (@spline_value R ROps (@bspline_derivative R ROps c xi d)
                           (@basis_values R ROps (@clamped R ROps xi d') d' (j - 1) x)).
Proof.
  intros d Hc Hxi Hd Hj Hsep. subst d.
  assert (Hlen : length c = length (@clamped R ROps xi (S d')) - S d' - 1) by (rewrite clamped_length; lia).
  rewrite <- (@spline_derivative_lists_bounded R ROps R_field_laws c xi d' j x Hc Hxi Hd Hj Hsep).
  apply (is_derive_ext
           (fun y => @sumf R ROps (fun i => (nth i c 0 * @cdb R ROps (knot_fun (@clamped R ROps xi (S d'))) j y (S d') i)%R)
                           (length c))).
  - intro t. symmetry. exact (@spline_value_sumf R ROps R_field_laws c (@clamped R ROps xi (S d')) (S d') j t Hlen).
  - apply (sumf_is_derive (fun i y => @cdb R ROps (knot_fun (@clamped R ROps xi (S d'))) j y (S d') i)
                          (fun i => @dcdb R ROps (knot_fun (@clamped R ROps xi (S d'))) j x (S d') i)
                          (fun i => nth i c 0%R)).
    intro i. apply cdb_is_derive.
Qed.

(* the same for a strictly increasing xi: no separation hypothesis *)
Corollary spline_chain_derivative_strict_R (c xi : list R) (d' j : nat) (x : R) :
  let d := S d' in
  length c = length xi - 1 + d -> strictly_increasing xi -> d <= j -> j < length c ->
  is_derive (fun y => @spline_value R ROps c (@basis_values R ROps (@clamped R ROps xi d) d j y)) x
            (@spline_value R ROps (@bspline_derivative R ROps c xi d)
                           (@basis_values R ROps (@clamped R ROps xi d') d' (j - 1) x)).
Proof.
  intros d Hc Hs Hd Hj.
  apply spline_chain_derivative_R; try assumption; [fold d; lia|].
  apply separated_of_strictly_increasing; [exact Hs|exact Hd|fold d; lia].
Qed.

(* ---- 2. the whole chain: the spline of the r-th member is the r-th derivative of the spline of the head *)
Theorem spline_chain_derivative_n_R (c xi : list R) (d j r : nat) :
  length c = length xi - 1 + d -> 1 <= length xi -> d <= j -> j < length c ->
  knots_separated (@clamped R ROps xi d) j -> r <= d ->
  forall x : R,
    is_derive_n (fun y => @spline_value R ROps c (@basis_values R ROps (@clamped R ROps xi d) d j y)) r x
                (@spline_value R ROps (chain_coeffs c xi d r)
                               (@basis_values R ROps (@clamped R ROps xi (d - r)) (d - r) (j - r) x)).
Proof.
  intros Hc Hxi Hd Hj Hsep. induction r as [|r IH]; intros Hr x.
  - cbn [is_derive_n chain_coeffs]. rewrite !Nat.sub_0_r. reflexivity.
  - cbn [is_derive_n chain_coeffs].
    assert (E : d - r = S (d - S r)) by lia.
    replace (j - S r) with (j - r - 1) by lia.
    apply (is_derive_ext
             (fun y => @spline_value R ROps (chain_coeffs c xi d r)
                         (@basis_values R ROps (@clamped R ROps xi (d - r)) (d - r) (j - r) y))).
    + intro t. symmetry. apply is_derive_n_unique. apply IH. lia.
    + pose proof (separated_level xi d j r ltac:(lia) Hd Hsep) as Hsr.
      revert Hsr. rewrite E. intro Hsr.
      apply spline_chain_derivative_R.
      * rewrite chain_coeffs_length. lia.
      * exact Hxi.
      * lia.
      * rewrite chain_coeffs_length. lia.
      * exact Hsr.
Qed.

Corollary spline_chain_derivative_n_strict_R (c xi : list R) (d j r : nat) :
  length c = length xi - 1 + d -> strictly_increasing xi -> d <= j -> j < length c -> r <= d ->
  forall x : R,
    is_derive_n (fun y => @spline_value R ROps c (@basis_values R ROps (@clamped R ROps xi d) d j y)) r x
                (@spline_value R ROps (chain_coeffs c xi d r)
                               (@basis_values R ROps (@clamped R ROps xi (d - r)) (d - r) (j - r) x)).
Proof.
  intros Hc Hs Hd Hj Hr. apply spline_chain_derivative_n_R; try assumption; [lia|].
  apply separated_of_strictly_increasing; [exact Hs|exact Hd|lia].
Qed.

(* hence Derive_n of the head's spline is the r-th member's spline, as functions *)
Corollary spline_chain_Derive_n_R (c xi : list R) (d j r : nat) :
  length c = length xi - 1 + d -> 1 <= length xi -> d <= j -> j < length c ->
  knots_separated (@clamped R ROps xi d) j -> r <= d ->
  forall x : R,
    Derive_n (fun y => @spline_value R ROps c (@basis_values R ROps (@clamped R ROps xi d) d j y)) r x
    = @spline_value R ROps (chain_coeffs c xi d r)
                    (@basis_values R ROps (@clamped R ROps xi (d - r)) (d - r) (j - r) x).
Proof.
  intros Hc Hxi Hd Hj Hsep Hr x. apply is_derive_n_unique.
  apply spline_chain_derivative_n_R; assumption.
Qed.

(* the chain  p' = v, v' = a  explicitly: p of degree d = d''+2 with coefficients c at span j, v with coefficients
   bspline_derivative c xi d (degree d-1, span j-1), a with bspline_derivative of those (degree d-2, span j-2) *)
Theorem spline_chain_two_links_R (c xi : list R) (d'' j : nat) :
  let d := S (S d'') in
  let cv := @bspline_derivative R ROps c xi d in
  let ca := @bspline_derivative R ROps cv xi (S d'') in
  let p := fun y => @spline_value R ROps c (@basis_values R ROps (@clamped R ROps xi d) d j y) in
  let v := fun y => @spline_value R ROps cv (@basis_values R ROps (@clamped R ROps xi (S d'')) (S d'') (j - 1) y) in
  let a := fun y => @spline_value R ROps ca (@basis_values R ROps (@clamped R ROps xi d'') d'' (j - 2) y) in
  length c = length xi - 1 + d -> 1 <= length xi -> d <= j -> j < length c ->
  knots_separated (@clamped R ROps xi d) j ->
  forall x : R, is_derive p x (v x) /\ is_derive v x (a x) /\ is_derive_n p 2 x (a x).
Proof.
  intros d cv ca p v a Hc Hxi Hd Hj Hsep.
  assert (Hp : forall x, is_derive p x (v x)).
  { intro x. unfold p, v, cv. apply spline_chain_derivative_R; assumption. }
  assert (Hv : forall x, is_derive v x (a x)).
  { intro x. unfold v, a, ca. replace (j - 2) with (j - 1 - 1) by lia.
    apply spline_chain_derivative_R.
    - unfold cv. rewrite bspline_derivative_length. unfold d in *. lia.
    - exact Hxi.
    - unfold d in *. lia.
    - unfold cv. rewrite bspline_derivative_length. unfold d in *. lia.
    - apply separated_shift; [unfold d in *; lia|exact Hsep]. }
  intro x. split; [apply Hp|]. split; [apply Hv|].
  cbn [is_derive_n Derive_n].
  apply (is_derive_ext v); [|apply Hv].
  intro t. symmetry. apply is_derive_unique. apply Hp.
Qed.

(* ---- on the interior of the span: any function that coincides there with the span polynomial (the piecewise
   spline) has the chain members as its derivatives *)
Theorem spline_chain_derivative_n_interior_R (c xi : list R) (d j r : nat) (s : R -> R) :
  let K := @clamped R ROps xi d in
  length c = length xi - 1 + d -> 1 <= length xi -> d <= j -> j < length c ->
  knots_separated K j -> r <= d ->
  (forall y : R, (nth j K 0 < y < nth (S j) K 0)%R ->
                 s y = @spline_value R ROps c (@basis_values R ROps K d j y)) ->
  forall x : R, (nth j K 0 < x < nth (S j) K 0)%R ->
    is_derive_n s r x (@spline_value R ROps (chain_coeffs c xi d r)
                                     (@basis_values R ROps (@clamped R ROps xi (d - r)) (d - r) (j - r) x)).
Proof.
  intros K Hc Hxi Hd Hj Hsep Hr Hs x Hx.
  apply (is_derive_n_ext_loc (fun y => @spline_value R ROps c (@basis_values R ROps K d j y)) s).
  - apply (locally_interval _ x (Finite (nth j K 0%R)) (Finite (nth (S j) K 0%R))); cbn [Rbar_lt]; [lra|lra|].
    intros y H1 H2. symmetry. apply Hs. lra.
  - apply spline_chain_derivative_n_R; assumption.
Qed.

(* ================= 3. non-vacuity ================= *)
(* cubic spline on xi = 0, 1/2, 1 (clamped knots 0,0,0,0,1/2,1,1,1,1), coefficients 1,3,2,5,4, span j = 3 = [0, 1/2]:
   the hypotheses hold (xi is strictly increasing, the knots are separated across the span), so the chain
   identities hold for r = 0..3 at every x *)
Example spline_chain_nonvacuous_R :
  let xi := [0; 1/2; 1]%R in
  let c := [1; 3; 2; 5; 4]%R in
  let d := 3 in let j := 3 in
  strictly_increasing xi /\
  length c = length xi - 1 + d /\ 1 <= length xi /\ d <= j /\ j < length c /\
  knots_separated (@clamped R ROps xi d) j /\
  (forall r, r <= d -> forall x : R,
     is_derive_n (fun y => @spline_value R ROps c (@basis_values R ROps (@clamped R ROps xi d) d j y)) r x
                 (@spline_value R ROps (chain_coeffs c xi d r)
                                (@basis_values R ROps (@clamped R ROps xi (d - r)) (d - r) (j - r) x))).
Proof.
  intros xi c d j.
  assert (Hs : strictly_increasing xi).
  { intros a b Hab Hb. cbn [length xi] in Hb.
    destruct b as [|[|[|b]]]; [lia| | |lia]; destruct a as [|[|a]]; try lia; cbn [nth xi]; lra. }
  assert (Hc : length c = length xi - 1 + d) by reflexivity.
  assert (Hxi : 1 <= length xi) by (cbn; lia).
  assert (Hd : d <= j) by (unfold d, j; lia).
  assert (Hj : j < length c) by (cbn; lia).
  assert (Hsep : knots_separated (@clamped R ROps xi d) j).
  { apply separated_of_strictly_increasing; [exact Hs|exact Hd|cbn; lia]. }
  split; [exact Hs|]. split; [exact Hc|]. split; [exact Hxi|]. split; [exact Hd|]. split; [exact Hj|].
  split; [exact Hsep|].
  intros r Hr x. apply spline_chain_derivative_n_R; assumption.
Qed.

(* the same data in exact rationals: the coefficient lists of the chain members, and the values of the four
   splines at x = 1/4 *)
Example spline_chain_coeffs_Qc :
  let xi := [Q2Qc 0; Q2Qc (1#2); Q2Qc 1] in
  let c := [Q2Qc 1; Q2Qc 3; Q2Qc 2; Q2Qc 5; Q2Qc 4] in
  map (fun q => this q) (@chain_coeffs Qc QcOps c xi 3 1) = [12%Q; (-3)%Q; 9%Q; (-6)%Q] /\
  map (fun q => this q) (@chain_coeffs Qc QcOps c xi 3 2) = [(-60)%Q; 24%Q; (-60)%Q] /\
  map (fun q => this q) (@chain_coeffs Qc QcOps c xi 3 3) = [168%Q; (-168)%Q] /\
  map (fun r => this (@spline_value Qc QcOps (@chain_coeffs Qc QcOps c xi 3 r)
                        (@basis_values Qc QcOps (@clamped Qc QcOps xi (3 - r)) (3 - r) (3 - r) (Q2Qc (1#4)))))
      [0; 1; 2; 3]
  = [(41#16)%Q; (9#4)%Q; (-18)%Q; 168%Q].
Proof. repeat split; vm_compute; reflexivity. Qed.

Print Assumptions spline_chain_derivative_R.
Print Assumptions spline_chain_derivative_strict_R.
Print Assumptions spline_chain_derivative_n_R.
Print Assumptions spline_chain_derivative_n_strict_R.
Print Assumptions spline_chain_Derive_n_R.
Print Assumptions spline_chain_two_links_R.
Print Assumptions spline_chain_derivative_n_interior_R.
Print Assumptions spline_chain_nonvacuous_R.
Print Assumptions spline_chain_coeffs_Qc.
