(* C03 (continued): the model's RK4 loop discrete_system (intg_rk sys) at ROps converges with the CLASSICAL
   ORDER FOUR for a scalar autonomous equation x' = f(x) with a GENERAL right-hand side f.
   Assumed: f four times differentiable everywhere with |f'| <= L, |f''| <= F2, |f'''| <= F3, |f''''| <= F4
   (all states), x a solution (is_derive x t (f (x t)) for all t), |f(x t)| <= B on [t0, t0+T].
   - rk4_converges_order4: additionally |x^(5)| <= K5 on [t0, t0+T] (existence of x^(k), k <= 5, is derived);
     every entry j <= M of the Xi output is within ((C5 + K5/120)(e^{T L'} - 1)/L') h^4 of x(t0 + j h),
     h = T/M, C5 = rk4_c5 B L F2 F3 F4 T explicit, no restriction on h.
   - rk4_converges_order4_closed: K5 = rk4_K5 B L F2 F3 F4 is derived from the bounds on f
     (x^(5) = f4 f^4 + 7 f3 f1 f^3 + 4 f2^2 f^3 + 11 f2 f1^2 f^2 + f1^4 f along the solution, fk = k-th
     derivative of f at x(t)).
   Proof: (1) s_next_consistency4: the scalar step s_next f a h (RK4Conv.v) differs from the degree-4 Taylor
   polynomial of the flow, written with the elementary differentials
     a + h f + h^2/2 f1 f + h^3/6 (f2 f^2 + f1^2 f) + h^4/24 (f3 f^3 + 4 f2 f1 f^2 + f1^3 f),
   by at most h^5 * rk4_c5 H for 0 < h <= H: each stage f(a + c h k) is expanded to third order in h with the
   Lagrange remainder of f (taylor4_gen) and an explicit h^4 remainder bound (stage_expand, stage_full);
   (2) solution_derivs: x', ..., x^(5) along a solution as explicit functions of the derivatives of f at x(t),
   and Taylor-Lagrange to fifth order (taylor5); (3) stability s_next_lipschitz and global_error_order, p = 4.
   Satisfiable: rk4_converges_order4_exp (f = id, x = exp) and rk4_converges_order4_sin (f = sin with the
   explicit solution x(t) = 2 atan(e^t), every hypothesis discharged). *)
From Coq Require Import Reals ZArith QArith List Lia Lra.
From Coquelicot Require Import Coquelicot.
From RV Require Import Base.Num Base.Vec Mech.Intg Spec.SpecDyn Proofs.NumLemmas Proofs.VecLemmas Proofs.DynProofs Proofs.DerProofs Proofs.SplineDerReal Proofs.ConvProofs Proofs.ConvReal Proofs.EulerConv Proofs.EulerConvVec Proofs.RK4Conv.
Import ListNotations.
Local Open Scope R_scope.

(* ---- a small tactic bounding |polynomial expression| by the same expression in the bounds of its leaves *)
Lemma Rabs_minus_le a b : Rabs (a - b) <= Rabs a + Rabs b.
Proof. unfold Rminus. eapply Rle_trans; [apply Rabs_triang|]. rewrite Rabs_Ropp. apply Rle_refl. Qed.

Ltac absb :=
  first [ eassumption |
  lazymatch goal with
  | |- Rabs (?a + ?b) <= _ => eapply Rle_trans; [apply Rabs_triang|apply Rplus_le_compat; absb]
  | |- Rabs (?a - ?b) <= _ => eapply Rle_trans; [apply Rabs_minus_le|apply Rplus_le_compat; absb]
  | |- Rabs (- ?a) <= _ => rewrite Rabs_Ropp; absb
  | |- Rabs (?a / ?b) <= _ => unfold Rdiv at 1; absb
  | |- Rabs (?a * ?b) <= _ => rewrite Rabs_mult; apply Rmult_le_compat; [apply Rabs_pos|apply Rabs_pos|absb|absb]
  | |- Rabs (?a ^ ?n) <= _ => rewrite <- RPow_abs; apply pow_incr; split; [apply Rabs_pos|absb]
  | |- Rabs ?a <= _ => rewrite Rabs_pos_eq by lra; apply Rle_refl
  end ].

Lemma fact_vals : INR (fact 0) = 1 /\ INR (fact 1) = 1 /\ INR (fact 2) = 2 /\ INR (fact 3) = 6 /\ INR (fact 4) = 24 /\ INR (fact 5) = 120.
Proof. repeat split; rewrite INR_IZR_INZ; reflexivity. Qed.

(* Taylor-Lagrange, fifth-order remainder, forward step *)
Lemma taylor5 (x : R -> R) (a h K5 : R) :
  0 < h ->
  (forall t k, a <= t <= a + h -> (k <= 5)%nat -> ex_derive_n x k t) ->
  (forall t, a <= t <= a + h -> Rabs (Derive_n x 5 t) <= K5) ->
  Rabs (x (a + h) - x a - h * Derive_n x 1 a - h ^ 2 / 2 * Derive_n x 2 a - h ^ 3 / 6 * Derive_n x 3 a
        - h ^ 4 / 24 * Derive_n x 4 a) <= K5 / 120 * h ^ 5.
Proof.
  intros Hh Hex HK.
  destruct (Taylor_Lagrange x 4 a (a + h)) as (zeta & Hz & E).
  - lra.
  - intros t Ht k Hk. apply Hex; assumption.
  - rewrite E. specialize (HK zeta ltac:(lra)).
    destruct fact_vals as (E0 & E1 & E2 & E3 & E4 & E5).
    set (D5 := Derive_n x 5 zeta) in *. set (D4 := Derive_n x 4 a). set (D3 := Derive_n x 3 a).
    set (D2 := Derive_n x 2 a). set (D1 := Derive_n x 1 a).
    cbn [sum_f_R0]. change (Derive_n x 0 a) with (x a).
    replace (a + h - a) with h by ring.
    rewrite E0, E1, E2, E3, E4, E5. fold D1 D2 D3 D4.
    match goal with |- Rabs ?e <= _ => replace e with (h ^ 5 / 120 * D5) by field end.
    rewrite Rabs_mult. assert (0 <= h ^ 5 / 120) by (assert (0 <= h ^ 5) by (apply pow_le; lra); lra).
    rewrite Rabs_pos_eq by assumption.
    replace (K5 / 120 * h ^ 5) with (h ^ 5 / 120 * K5) by field. apply Rmult_le_compat_l; assumption.
Qed.

(* Taylor-Lagrange, fourth-order remainder, forward step *)
Lemma taylor4 (f : R -> R) (a h F4 : R) :
  0 < h ->
  (forall t k, a <= t <= a + h -> (k <= 4)%nat -> ex_derive_n f k t) ->
  (forall t, a <= t <= a + h -> Rabs (Derive_n f 4 t) <= F4) ->
  Rabs (f (a + h) - (f a + h * Derive_n f 1 a + h ^ 2 / 2 * Derive_n f 2 a + h ^ 3 / 6 * Derive_n f 3 a))
    <= F4 / 24 * h ^ 4.
Proof.
  intros Hh Hex HK.
  destruct (Taylor_Lagrange f 3 a (a + h)) as (zeta & Hz & E).
  - lra.
  - intros t Ht k Hk. apply Hex; assumption.
  - rewrite E. specialize (HK zeta ltac:(lra)).
    destruct fact_vals as (E0 & E1 & E2 & E3 & E4 & E5).
    set (D4 := Derive_n f 4 zeta) in *. set (D3 := Derive_n f 3 a).
    set (D2 := Derive_n f 2 a). set (D1 := Derive_n f 1 a).
    cbn [sum_f_R0]. change (Derive_n f 0 a) with (f a).
    replace (a + h - a) with h by ring.
    rewrite E0, E1, E2, E3, E4. fold D1 D2 D3.
    match goal with |- Rabs ?e <= _ => replace e with (h ^ 4 / 24 * D4) by field end.
    rewrite Rabs_mult. assert (0 <= h ^ 4 / 24) by (assert (0 <= h ^ 4) by (apply pow_le; lra); lra).
    rewrite Rabs_pos_eq by assumption.
    replace (F4 / 24 * h ^ 4) with (h ^ 4 / 24 * F4) by field. apply Rmult_le_compat_l; assumption.
Qed.

(* the same with a step of either sign, for a globally C^4 function *)
Lemma taylor4_gen (f : R -> R) (a dl F4 : R) :
  (forall s k, (k <= 4)%nat -> ex_derive_n f k s) ->
  (forall s, Rabs (Derive_n f 4 s) <= F4) ->
  Rabs (f (a + dl) - (f a + dl * Derive_n f 1 a + dl ^ 2 / 2 * Derive_n f 2 a + dl ^ 3 / 6 * Derive_n f 3 a))
    <= F4 / 24 * dl ^ 4.
Proof.
  intros Hex HB.
  destruct (Rtotal_order 0 dl) as [Hp|[H0|Hn]].
  - apply taylor4; auto.
  - subst dl. replace (a + 0) with a by ring.
    match goal with |- Rabs ?e <= _ => replace e with 0 by field end. rewrite Rabs_R0. lra.
  - assert (Hloc : forall m y, (m <= 4)%nat ->
            locally y (fun y0 : R => forall k, (k <= m)%nat -> ex_derive_n f k y0)).
    { intros m y Hm. apply filter_forall. intros y0 k Hk. apply Hex. lia. }
    set (g := fun s => f (- s)).
    assert (G := taylor4 g (- a) (- dl) F4 ltac:(lra)).
    assert (Egn : forall m, (m <= 4)%nat -> Derive_n g m (- a) = (-1) ^ m * Derive_n f m a).
    { intros m Hm. unfold g. rewrite Derive_n_comp_opp by (apply Hloc; exact Hm).
      rewrite Ropp_involutive. reflexivity. }
    assert (Ea : g (- a + - dl) = f (a + dl)) by (unfold g; f_equal; ring).
    assert (Eb : g (- a) = f a) by (unfold g; f_equal; ring).
    rewrite Ea, Eb, !Egn in G by lia.
    match goal with |- Rabs ?e <= _ => match type of G with _ -> _ -> Rabs ?e' <= _ =>
      replace e with e' by field end end.
    replace (dl ^ 4) with ((- dl) ^ 4) by ring.
    apply G.
    + intros t k _ Hk. apply (ex_derive_n_comp_opp f k t). apply Hloc. exact Hk.
    + intros t _. unfold g. rewrite Derive_n_comp_opp by (apply Hloc; lia).
      replace ((-1) ^ 4) with 1 by ring. rewrite Rmult_1_l. apply HB.
Qed.

(* ================================================================== one-step consistency, order four *)
Section Stage.
Variables (f : R -> R) (a f0 f1 f2 f3 B L F2 F3 F4 : R).
Hypothesis Hf0 : Rabs f0 <= B.
Hypothesis Hf1 : Rabs f1 <= L.
Hypothesis Hf2 : Rabs f2 <= F2.
Hypothesis Hf3 : Rabs f3 <= F3.
Hypothesis Tay : forall d, Rabs (f (a + d) - (f0 + d * f1 + d ^ 2 / 2 * f2 + d ^ 3 / 6 * f3)) <= F4 / 24 * d ^ 4.

Definition stageR (c Bk Aa E1 E2 E3 : R) : R :=
  c * L * E3 + c ^ 2 * F2 / 2 * (E2 * (Bk + B) + Aa * E1)
  + c ^ 3 * F3 / 6 * (E1 * (Bk ^ 2 + Bk * B + B ^ 2)) + c ^ 4 * F4 / 24 * Bk ^ 4.

Lemma stage_expand (k c h al be Bk Aa E1 E2 E3 : R) :
  Rabs c <= c -> Rabs h <= h -> Rabs k <= Bk -> Rabs al <= Aa ->
  Rabs (k - f0) <= h * E1 -> Rabs (k - f0 - h * al) <= h ^ 2 * E2 ->
  Rabs (k - f0 - h * al - h ^ 2 * be) <= h ^ 3 * E3 ->
  Rabs (f (a + c * h * k)
        - (f0 + h * (c * f0 * f1) + h ^ 2 * (c * f1 * al + c ^ 2 * f2 * f0 ^ 2 / 2)
           + h ^ 3 * (c * f1 * be + c ^ 2 * f2 * f0 * al + c ^ 3 * f3 * f0 ^ 3 / 6)))
  <= h ^ 4 * stageR c Bk Aa E1 E2 E3.
Proof.
  intros Hc Hh Hk Hal H1 H2 H3.
  set (u1 := k - f0) in *. set (u2 := k - f0 - h * al) in *. set (u3 := k - f0 - h * al - h ^ 2 * be) in *.
  set (d := c * h * k).
  pose proof (Tay d) as Hr. set (r := f (a + d) - (f0 + d * f1 + d ^ 2 / 2 * f2 + d ^ 3 / 6 * f3)) in *.
  assert (Hd4 : F4 / 24 * d ^ 4 <= F4 / 24 * (c * h * Bk) ^ 4).
  { assert (HF4 : 0 <= F4 / 24).
    { destruct (Rle_or_lt 0 (F4 / 24)) as [Hp|Hn]; [exact Hp|].
      pose proof (Tay 0) as T0. pose proof (Rabs_pos (f (a + 0) - (f0 + 0 * f1 + 0 ^ 2 / 2 * f2 + 0 ^ 3 / 6 * f3))).
      replace (F4 / 24 * 0 ^ 4) with 0 in T0 by ring.
      pose proof (Tay 1) as T1. pose proof (Rabs_pos (f (a + 1) - (f0 + 1 * f1 + 1 ^ 2 / 2 * f2 + 1 ^ 3 / 6 * f3))).
      replace (F4 / 24 * 1 ^ 4) with (F4 / 24) in T1 by ring. lra. }
    apply Rmult_le_compat_l; [exact HF4|].
    replace (d ^ 4) with (Rabs (d ^ 4)) by (apply Rabs_pos_eq; replace (d ^ 4) with ((d ^ 2) ^ 2) by ring; apply pow2_ge_0).
    unfold d. absb. }
  match goal with |- Rabs ?e <= _ =>
    replace e with (r + (c * h * f1 * u3 + c ^ 2 * h ^ 2 / 2 * f2 * (u2 * (k + f0) + h * al * u1)
                         + c ^ 3 * h ^ 3 / 6 * f3 * (u1 * (k ^ 2 + k * f0 + f0 ^ 2))))
      by (unfold r, d, u1, u2, u3; field) end.
  eapply Rle_trans; [apply Rabs_triang|].
  eapply Rle_trans; [apply Rplus_le_compat; [eapply Rle_trans; [exact Hr|exact Hd4]|absb]|].
  apply Req_le. unfold stageR. field.
Qed.

Hypothesis Ef0 : f a = f0.

Definition nal (c : R) : R := c * f0 * f1.
Definition nbe (c al : R) : R := c * f1 * al + c ^ 2 * f2 * f0 ^ 2 / 2.
Definition nga (c al be : R) : R := c * f1 * be + c ^ 2 * f2 * f0 * al + c ^ 3 * f3 * f0 ^ 3 / 6.
Definition Nal (c : R) : R := c * B * L.
Definition Nbe (c Aa : R) : R := c * L * Aa + c ^ 2 * F2 * B ^ 2 / 2.
Definition Nga (c Aa Ab : R) : R := c * L * Ab + c ^ 2 * F2 * B * Aa + c ^ 3 * F3 * B ^ 3 / 6.

Lemma coeff_bounds c al be Aa Ab : Rabs c <= c -> Rabs al <= Aa -> Rabs be <= Ab ->
  Rabs (nal c) <= Nal c /\ Rabs (nbe c al) <= Nbe c Aa /\ Rabs (nga c al be) <= Nga c Aa Ab.
Proof.
  intros Hc Ha Hb. unfold nal, nbe, nga, Nal, Nbe, Nga.
  repeat split; (eapply Rle_trans; [absb|apply Req_le; field]).
Qed.

Definition stage_const (c H Aa Ab Ag Rk : R) : R :=
  let E3 := Ag + H * Rk in let E2 := Ab + H * E3 in let E1 := Aa + H * E2 in
  stageR c (B + H * E1) Aa E1 E2 E3.

Lemma stage_full (k c h H al be ga Aa Ab Ag Rk : R) :
  0 < h <= H -> Rabs c <= c -> Rabs al <= Aa -> Rabs be <= Ab -> Rabs ga <= Ag ->
  Rabs (k - (f0 + h * al + h ^ 2 * be + h ^ 3 * ga)) <= h ^ 4 * Rk ->
  Rabs (f (a + c * h * k) - (f0 + h * nal c + h ^ 2 * nbe c al + h ^ 3 * nga c al be))
  <= h ^ 4 * stage_const c H Aa Ab Ag Rk.
Proof.
  intros Hh Hc Ha Hb Hg Hk. unfold stage_const.
  set (E3 := Ag + H * Rk). set (E2 := Ab + H * E3). set (E1 := Aa + H * E2).
  assert (Hh' : Rabs h <= h) by (rewrite Rabs_pos_eq; lra).
  assert (Hh2 : 0 < h ^ 2) by (apply pow_lt; lra).
  assert (Hh3 : 0 < h ^ 3) by (apply pow_lt; lra).
  assert (Hh4 : 0 < h ^ 4) by (apply pow_lt; lra).
  assert (HRk : 0 <= Rk).
  { pose proof (Rabs_pos (k - (f0 + h * al + h ^ 2 * be + h ^ 3 * ga))). 
    destruct (Rle_or_lt 0 Rk) as [Hp|Hn]; [exact Hp|]. 
    pose proof (Rmult_lt_compat_l (h ^ 4) Rk 0 Hh4 Hn) as Hneg. rewrite Rmult_0_r in Hneg. lra. }
  assert (HAa : 0 <= Aa) by (eapply Rle_trans; [apply Rabs_pos|exact Ha]).
  assert (HAb : 0 <= Ab) by (eapply Rle_trans; [apply Rabs_pos|exact Hb]).
  assert (HAg : 0 <= Ag) by (eapply Rle_trans; [apply Rabs_pos|exact Hg]).
  assert (HE3 : 0 <= E3) by (unfold E3; assert (0 <= H * Rk) by (apply Rmult_le_pos; lra); lra).
  assert (HE2 : 0 <= E2) by (unfold E2; assert (0 <= H * E3) by (apply Rmult_le_pos; lra); lra).
  assert (HE1 : 0 <= E1) by (unfold E1; assert (0 <= H * E2) by (apply Rmult_le_pos; lra); lra).
  set (w := k - (f0 + h * al + h ^ 2 * be + h ^ 3 * ga)) in *.
  assert (U3 : Rabs (k - f0 - h * al - h ^ 2 * be) <= h ^ 3 * E3).
  { replace (k - f0 - h * al - h ^ 2 * be) with (w + h ^ 3 * ga) by (unfold w; ring).
    eapply Rle_trans; [absb|]. unfold E3.
    assert (h ^ 3 * (h * Rk) <= h ^ 3 * (H * Rk)).
    { apply Rmult_le_compat_l; [lra|apply Rmult_le_compat_r; lra]. }
    replace (h ^ 4 * Rk) with (h ^ 3 * (h * Rk)) by ring. lra. }
  assert (U2 : Rabs (k - f0 - h * al) <= h ^ 2 * E2).
  { replace (k - f0 - h * al) with ((k - f0 - h * al - h ^ 2 * be) + h ^ 2 * be) by ring.
    eapply Rle_trans; [absb|]. unfold E2.
    assert (h ^ 2 * (h * E3) <= h ^ 2 * (H * E3)).
    { apply Rmult_le_compat_l; [lra|apply Rmult_le_compat_r; lra]. }
    replace (h ^ 3 * E3) with (h ^ 2 * (h * E3)) by ring. lra. }
  assert (U1 : Rabs (k - f0) <= h * E1).
  { replace (k - f0) with ((k - f0 - h * al) + h * al) by ring.
    eapply Rle_trans; [absb|]. unfold E1.
    assert (h * (h * E2) <= h * (H * E2)).
    { apply Rmult_le_compat_l; [lra|apply Rmult_le_compat_r; lra]. }
    replace (h ^ 2 * E2) with (h * (h * E2)) by ring. lra. }
  assert (U0 : Rabs k <= B + H * E1).
  { replace k with (f0 + (k - f0)) by ring.
    eapply Rle_trans; [absb|].
    assert (h * E1 <= H * E1) by (apply Rmult_le_compat_r; lra). lra. }
  unfold nal, nbe, nga.
  apply (stage_expand k c h al be (B + H * E1) Aa E1 E2 E3); assumption.
Qed.

Definition rk4_c5 (H : R) : R :=
  let R2 := stage_const (1 / 2) H 0 0 0 0 in
  let A2 := Nal (1 / 2) in let B2 := Nbe (1 / 2) 0 in let G2 := Nga (1 / 2) 0 0 in
  let R3 := stage_const (1 / 2) H A2 B2 G2 R2 in
  let A3 := Nal (1 / 2) in let B3 := Nbe (1 / 2) A2 in let G3 := Nga (1 / 2) A2 B2 in
  let R4 := stage_const 1 H A3 B3 G3 R3 in
  (2 * R2 + 2 * R3 + R4) / 6.

Lemma s_next_consistency4 (h H : R) : 0 < h <= H ->
  Rabs (s_next f a h - (a + h * f0 + h ^ 2 / 2 * (f1 * f0) + h ^ 3 / 6 * (f2 * f0 ^ 2 + f1 ^ 2 * f0)
                          + h ^ 4 / 24 * (f3 * f0 ^ 3 + 4 * f2 * f1 * f0 ^ 2 + f1 ^ 3 * f0)))
  <= h ^ 5 * rk4_c5 H.
Proof.
  intros Hh. unfold rk4_c5.
  set (R2 := stage_const (1 / 2) H 0 0 0 0).
  set (A2 := Nal (1 / 2)). set (B2 := Nbe (1 / 2) 0). set (G2 := Nga (1 / 2) 0 0).
  set (R3 := stage_const (1 / 2) H A2 B2 G2 R2).
  set (B3 := Nbe (1 / 2) A2). set (G3 := Nga (1 / 2) A2 B2).
  set (R4 := stage_const 1 H A2 B3 G3 R3).
  assert (Hhalf : Rabs (1 / 2) <= 1 / 2) by (rewrite Rabs_pos_eq; lra).
  assert (Hone : Rabs 1 <= 1) by (rewrite Rabs_pos_eq; lra).
  assert (Hz : Rabs 0 <= 0) by (rewrite Rabs_R0; lra).
  (* stage 2 *)
  assert (K2 : Rabs (s_k2 f a h - (f0 + h * nal (1 / 2) + h ^ 2 * nbe (1 / 2) 0 + h ^ 3 * nga (1 / 2) 0 0))
               <= h ^ 4 * R2).
  { unfold s_k2. rewrite Ef0. replace (a + h / 2 * f0) with (a + 1 / 2 * h * f0) by field.
    apply (stage_full f0 (1 / 2) h H 0 0 0 0 0 0 0 Hh Hhalf Hz Hz Hz).
    match goal with |- Rabs ?e <= _ => replace e with 0 by ring end. rewrite Rabs_R0. lra. }
  destruct (coeff_bounds (1 / 2) 0 0 0 0 Hhalf Hz Hz) as (Ca2 & Cb2 & Cg2). fold A2 B2 G2 in Ca2, Cb2, Cg2.
  set (al2 := nal (1 / 2)) in *. set (be2 := nbe (1 / 2) 0) in *. set (ga2 := nga (1 / 2) 0 0) in *.
  set (k2 := s_k2 f a h) in *.
  (* stage 3 *)
  assert (K3 : Rabs (s_k3 f a h - (f0 + h * nal (1 / 2) + h ^ 2 * nbe (1 / 2) al2 + h ^ 3 * nga (1 / 2) al2 be2))
               <= h ^ 4 * R3).
  { unfold s_k3. fold k2. replace (a + h / 2 * k2) with (a + 1 / 2 * h * k2) by field.
    apply (stage_full k2 (1 / 2) h H al2 be2 ga2 A2 B2 G2 R2 Hh Hhalf Ca2 Cb2 Cg2 K2). }
  destruct (coeff_bounds (1 / 2) al2 be2 A2 B2 Hhalf Ca2 Cb2) as (Ca3 & Cb3 & Cg3). fold A2 B3 G3 in Ca3, Cb3, Cg3.
  fold al2 in K3, Ca3.
  set (be3 := nbe (1 / 2) al2) in *. set (ga3 := nga (1 / 2) al2 be2) in *.
  set (k3 := s_k3 f a h) in *.
  (* stage 4 *)
  assert (K4 : Rabs (s_k4 f a h - (f0 + h * nal 1 + h ^ 2 * nbe 1 al2 + h ^ 3 * nga 1 al2 be3))
               <= h ^ 4 * R4).
  { unfold s_k4. fold k3. replace (a + h * k3) with (a + 1 * h * k3) by ring.
    apply (stage_full k3 1 h H al2 be3 ga3 A2 B3 G3 R3 Hh Hone Ca3 Cb3 Cg3 K3). }
  set (k4 := s_k4 f a h) in *.
  unfold s_next. fold k2 k3 k4. rewrite Ef0.
  set (p2 := f0 + h * al2 + h ^ 2 * be2 + h ^ 3 * ga2) in *.
  set (p3 := f0 + h * al2 + h ^ 2 * be3 + h ^ 3 * ga3) in *.
  set (p4 := f0 + h * nal 1 + h ^ 2 * nbe 1 al2 + h ^ 3 * nga 1 al2 be3) in *.
  match goal with |- Rabs ?e <= _ =>
    replace e with (0 + h / 6 * (0 + 2 * (k2 - p2) + 2 * (k3 - p3) + (k4 - p4)))
      by (unfold p2, p3, p4, ga3, be3, ga2, be2, al2, nal, nbe, nga; field) end.
  replace (h ^ 5 * ((2 * R2 + 2 * R3 + R4) / 6)) with (0 + h / 6 * (0 + 2 * (h ^ 4 * R2) + 2 * (h ^ 4 * R3) + h ^ 4 * R4))
    by field.
  apply comb_bound; auto; try (rewrite Rabs_R0; apply Rle_refl). lra.
Qed.
End Stage.

(* ================================================================== derivatives along a solution *)
Section Sol.
Variables f x : R -> R.
Hypothesis Hsol : forall t, is_derive x t (f (x t)).
Hypothesis Hex : forall s k, (k <= 4)%nat -> ex_derive_n f k s.

Definition fd_at (k : nat) (t : R) : R := Derive_n f k (x t).

Lemma fd_at_der k t : (k < 4)%nat -> is_derive (fd_at k) t (fd_at (S k) t * fd_at 0 t).
Proof.
  intro Hk. unfold fd_at. cbn [Derive_n].
  evar_last.
  - apply (is_derive_comp (Derive_n f k) x t (Derive (Derive_n f k) (x t)) (f (x t))); [|apply Hsol].
    apply Derive_correct. apply (Hex (x t) (S k)). lia.
  - unfold scal. cbn. unfold mult. cbn. ring.
Qed.

Definition sol_d1 t := fd_at 0 t.
Definition sol_d2 t := fd_at 1 t * fd_at 0 t.
Definition sol_d3 t := fd_at 2 t * fd_at 0 t ^ 2 + fd_at 1 t ^ 2 * fd_at 0 t.
Definition sol_d4 t := fd_at 3 t * fd_at 0 t ^ 3 + 4 * fd_at 2 t * fd_at 1 t * fd_at 0 t ^ 2 + fd_at 1 t ^ 3 * fd_at 0 t.
Definition sol_d5 t := fd_at 4 t * fd_at 0 t ^ 4 + 7 * fd_at 3 t * fd_at 1 t * fd_at 0 t ^ 3 + 4 * fd_at 2 t ^ 2 * fd_at 0 t ^ 3
                   + 11 * fd_at 2 t * fd_at 1 t ^ 2 * fd_at 0 t ^ 2 + fd_at 1 t ^ 4 * fd_at 0 t.

Lemma fd_at_ex k t : (k < 4)%nat -> ex_derive (fd_at k) t.
Proof. intro Hk. eexists. apply fd_at_der. exact Hk. Qed.
Lemma fd_at_D k t : (k < 4)%nat -> Derive (fd_at k) t = fd_at (S k) t * fd_at 0 t.
Proof. intro Hk. apply is_derive_unique. apply fd_at_der. exact Hk. Qed.

Lemma sol_d1_der t : is_derive x t (sol_d1 t).
Proof. apply Hsol. Qed.
Lemma sol_d2_der t : is_derive sol_d1 t (sol_d2 t).
Proof. unfold sol_d1, sol_d2. apply fd_at_der. lia. Qed.
Lemma sol_d3_der t : is_derive sol_d2 t (sol_d3 t).
Proof.
  unfold sol_d2, sol_d3. auto_derive.
  - repeat split; apply fd_at_ex; lia.
  - rewrite !fd_at_D by lia. ring.
Qed.
Lemma sol_d4_der t : is_derive sol_d3 t (sol_d4 t).
Proof.
  unfold sol_d3, sol_d4. auto_derive.
  - repeat split; apply fd_at_ex; lia.
  - rewrite !fd_at_D by lia. ring.
Qed.
Lemma sol_d5_der t : is_derive sol_d4 t (sol_d5 t).
Proof.
  unfold sol_d4, sol_d5. auto_derive.
  - repeat split; apply fd_at_ex; lia.
  - rewrite !fd_at_D by lia. ring.
Qed.

Lemma Derive_n_step (g Y Z : R -> R) n :
  (forall t, Derive_n g n t = Y t) -> (forall t, is_derive Y t (Z t)) ->
  forall t, ex_derive_n g (S n) t /\ Derive_n g (S n) t = Z t.
Proof.
  intros HY HZ t. split.
  - change (ex_derive (Derive_n g n) t). apply (ex_derive_ext Y); [intro s; symmetry; apply HY|].
    eexists; apply HZ.
  - change (Derive (Derive_n g n) t = Z t). rewrite (Derive_ext _ Y) by exact HY.
    apply is_derive_unique. apply HZ.
Qed.

Lemma solution_derivs t :
  (forall k, (k <= 5)%nat -> ex_derive_n x k t) /\
  Derive_n x 1 t = sol_d1 t /\ Derive_n x 2 t = sol_d2 t /\ Derive_n x 3 t = sol_d3 t /\ Derive_n x 4 t = sol_d4 t /\
  Derive_n x 5 t = sol_d5 t.
Proof.
  pose proof (Derive_n_step x x sol_d1 0 (fun s => eq_refl) sol_d1_der) as S1.
  pose proof (Derive_n_step x sol_d1 sol_d2 1 (fun s => proj2 (S1 s)) sol_d2_der) as S2.
  pose proof (Derive_n_step x sol_d2 sol_d3 2 (fun s => proj2 (S2 s)) sol_d3_der) as S3.
  pose proof (Derive_n_step x sol_d3 sol_d4 3 (fun s => proj2 (S3 s)) sol_d4_der) as S4.
  pose proof (Derive_n_step x sol_d4 sol_d5 4 (fun s => proj2 (S4 s)) sol_d5_der) as S5.
  split; [|repeat split; [apply S1|apply S2|apply S3|apply S4|apply S5]].
  intros k Hk. destruct k as [|[|[|[|[|[|k]]]]]]; [exact I|apply S1|apply S2|apply S3|apply S4|apply S5|lia].
Qed.

End Sol.

(* ================================================================== the model's loop *)
Theorem rk4_converges_order4 (f x : R -> R) (t0 T B L F2 F3 F4 K5 : R) (M : nat) :
  0 < T -> 0 < L -> (0 < M)%nat ->
  (forall s k, (k <= 4)%nat -> ex_derive_n f k s) ->
  (forall s, Rabs (Derive_n f 1 s) <= L) -> (forall s, Rabs (Derive_n f 2 s) <= F2) ->
  (forall s, Rabs (Derive_n f 3 s) <= F3) -> (forall s, Rabs (Derive_n f 4 s) <= F4) ->
  (forall t, is_derive x t (f (x t))) ->
  (forall t, t0 <= t <= t0 + T -> Rabs (f (x t)) <= B) ->
  (forall t, t0 <= t <= t0 + T -> Rabs (Derive_n x 5 t) <= K5) ->
  let h := T / INR M in
  let Q := T * L in
  let L' := L * (1 + Q / 2 + Q ^ 2 / 6 + Q ^ 3 / 24) in
  let C5 := rk4_c5 B L F2 F3 F4 T in
  let sys := mkSys (fun X (_ : R) => [f (nth 0 X 0)]) (fun _ _ => []) in
  let st := @discrete_system R ROps (intg_rk sys) M 0 [x t0] T t0 in
  forall j, (j <= M)%nat ->
    Rabs (nth 0 (nth j (ds_X st) [x t0]) 0 - x (t0 + INR j * h))
    <= ((C5 + K5 / 120) * ((exp (T * L') - 1) / L')) * h ^ 4.
Proof.
  intros HT HL HM Hex HfL HfF2 HfF3 HfF4 Hsol HB HK5 h Q L' C5 sys st j Hj.
  assert (HMr : 0 < INR M) by (apply lt_0_INR; exact HM).
  assert (Hh : 0 < h) by (apply Rdiv_lt_0_compat; assumption).
  assert (HhT : h <= T).
  { pose proof (grid_le T M 1 HT HM ltac:(lia)) as G1. cbn [INR] in G1. fold h in G1. lra. }
  assert (HK50 : 0 <= K5).
  { eapply Rle_trans; [apply Rabs_pos|apply (HK5 t0); lra]. }
  assert (Hf1 : forall s, ex_derive f s) by (intro s; apply (Hex s 1%nat); lia).
  pose proof (lipschitz_of_derivative f L Hf1 HfL) as Hl.
  assert (HQ : 0 < Q) by (apply Rmult_lt_0_compat; assumption).
  set (q := h * L).
  assert (Hq0 : 0 <= q) by (apply Rmult_le_pos; lra).
  assert (HqQ : q <= Q) by (apply Rmult_le_compat_r; lra).
  assert (Hq2 : q ^ 2 <= Q ^ 2) by (apply pow_incr; lra).
  assert (Hq3 : q ^ 3 <= Q ^ 3) by (apply pow_incr; lra).
  assert (HQ2 : 0 <= Q ^ 2) by (apply pow_le; lra).
  assert (HQ3 : 0 <= Q ^ 3) by (apply pow_le; lra).
  assert (Hq2p : 0 <= q ^ 2) by (apply pow_le; lra).
  assert (Hq3p : 0 <= q ^ 3) by (apply pow_le; lra).
  set (PQ := 1 + Q / 2 + Q ^ 2 / 6 + Q ^ 3 / 24) in *.
  assert (HPQ : 1 <= PQ) by (unfold PQ; lra).
  assert (HL' : 0 < L') by (apply Rmult_lt_0_compat; lra).
  (* one-step consistency of the scalar step at a point of the solution *)
  assert (Cons : forall tk, t0 <= tk <= t0 + T ->
            Rabs (s_next f (x tk) h - (x tk + h * sol_d1 f x tk + h ^ 2 / 2 * sol_d2 f x tk + h ^ 3 / 6 * sol_d3 f x tk
                                        + h ^ 4 / 24 * sol_d4 f x tk)) <= h ^ 5 * C5).
  { intros tk Itk. unfold sol_d1, sol_d2, sol_d3, sol_d4, fd_at.
    apply (s_next_consistency4 f (x tk) (f (x tk)) (Derive_n f 1 (x tk)) (Derive_n f 2 (x tk))
             (Derive_n f 3 (x tk)) B L F2 F3 F4); auto.
    intro d. apply taylor4_gen; assumption. }
  assert (HC5 : 0 <= C5).
  { pose proof (Cons t0 ltac:(lra)) as C0.
    match type of C0 with Rabs ?e <= _ => pose proof (Rabs_pos e) as P0 end.
    assert (Hh5 : 0 < h ^ 5) by (apply pow_lt; exact Hh).
    destruct (Rle_or_lt 0 C5) as [Hp|Hn]; [exact Hp|]. pose proof (Rmult_lt_compat_l (h ^ 5) C5 0 Hh5 Hn) as Hneg. rewrite Rmult_0_r in Hneg. lra. }
  (* reduce the model to the scalar iteration *)
  subst st. rewrite (discrete_system_Xi R_field_laws) by exact Hj.
  change (@odiv R ROps T (@of_nat R ROps M)) with (T / @of_nat R ROps M).
  rewrite of_nat_R. fold h. rewrite rk4_model_iter_vec.
  change (s_ode sys) with (fun X (_ : R) => [f (nth 0 X 0)]). rewrite srk4_model. cbn [nth].
  set (e := fun k : nat => if (k <=? M)%nat
                           then Rabs (srk4 f h k (x t0) - x (t0 + INR k * h)) else 0).
  assert (He0 : forall k, 0 <= e k).
  { intro k. unfold e. destruct (k <=? M)%nat; [apply Rabs_pos|lra]. }
  assert (Hej : e j = Rabs (srk4 f h j (x t0) - x (t0 + INR j * h))).
  { unfold e. apply Nat.leb_le in Hj. rewrite Hj. reflexivity. }
  rewrite <- Hej.
  apply (global_error_order e h L' (C5 + K5 / 120) T 4 j Hh HL').
  - lra.
  - unfold e. cbn [Nat.leb INR srk4]. rewrite Rmult_0_l, Rplus_0_r.
    replace (x t0 - x t0) with 0 by ring. apply Rabs_R0.
  - apply (grid_le T M j HT HM Hj).
  - intro k.
    assert (HhL' : 0 <= h * L') by (apply Rmult_le_pos; lra).
    assert (Hpos : 0 <= (1 + h * L') * e k + (C5 + K5 / 120) * h ^ 5).
    { specialize (He0 k).
      assert (0 <= (1 + h * L') * e k) by (apply Rmult_le_pos; lra).
      assert (0 <= (C5 + K5 / 120) * h ^ 5) by (apply Rmult_le_pos; [lra|apply pow_le; lra]). lra. }
    unfold e at 1. destruct (S k <=? M)%nat eqn:Hk; [|exact Hpos].
    apply Nat.leb_le in Hk.
    assert (Hk' : (k <=? M)%nat = true) by (apply Nat.leb_le; lia).
    unfold e. rewrite Hk'. cbn [srk4].
    set (y := srk4 f h k (x t0)).
    set (tk := t0 + INR k * h).
    pose proof (grid_le T M k HT HM ltac:(lia)) as Gk. fold h in Gk.
    pose proof (grid_le T M (S k) HT HM Hk) as Gk1. fold h in Gk1.
    rewrite S_INR in Gk1.
    replace (t0 + INR (S k) * h) with (tk + h) by (rewrite S_INR; unfold tk; ring).
    assert (Itk : t0 <= tk <= t0 + T) by (unfold tk; lra).
    assert (Isub : forall t, tk <= t <= tk + h -> t0 <= t <= t0 + T).
    { intros t Ht. unfold tk in *. lra. }
    set (dd := Rabs (y - x tk)).
    assert (Hdd : 0 <= dd) by apply Rabs_pos.
    (* 1: stability *)
    assert (S1 : Rabs (s_next f y h - s_next f (x tk) h) <= (1 + h * L') * dd).
    { eapply Rle_trans; [apply (s_next_lipschitz f L y (x tk) h); [lra|lra|exact Hl]|].
      cbv zeta. fold dd q.
      replace ((1 + h * L') * dd) with (dd * (1 + q * PQ)) by (unfold L', q; ring).
      apply Rmult_le_compat_l; [exact Hdd|].
      replace (1 + q + q ^ 2 / 2 + q ^ 3 / 6 + q ^ 4 / 24)
        with (1 + q * (1 + q / 2 + q ^ 2 / 6 + q ^ 3 / 24)) by field.
      assert (q * (1 + q / 2 + q ^ 2 / 6 + q ^ 3 / 24) <= q * PQ)
        by (apply Rmult_le_compat_l; [exact Hq0|unfold PQ; lra]).
      lra. }
    (* 2: consistency at the exact solution *)
    pose proof (Cons tk Itk) as S2.
    (* 3: Taylor to fifth order *)
    assert (S3 : Rabs (x (tk + h) - x tk - h * Derive_n x 1 tk - h ^ 2 / 2 * Derive_n x 2 tk
                       - h ^ 3 / 6 * Derive_n x 3 tk - h ^ 4 / 24 * Derive_n x 4 tk) <= K5 / 120 * h ^ 5).
    { apply taylor5; [exact Hh| |intros t Ht; apply HK5; apply Isub; exact Ht].
      intros t k0 _ Hk0. apply (proj1 (solution_derivs f x Hsol Hex t)). exact Hk0. }
    destruct (solution_derivs f x Hsol Hex tk) as (_ & E1 & E2 & E3 & E4 & _).
    rewrite E1, E2, E3, E4 in S3.
    set (a := s_next f y h) in *. set (b := s_next f (x tk) h) in *.
    set (p := x tk + h * sol_d1 f x tk + h ^ 2 / 2 * sol_d2 f x tk + h ^ 3 / 6 * sol_d3 f x tk + h ^ 4 / 24 * sol_d4 f x tk) in *.
    replace (a - x (tk + h))
      with ((a - b) + (b - p) + - (x (tk + h) - x tk - h * sol_d1 f x tk - h ^ 2 / 2 * sol_d2 f x tk
                                   - h ^ 3 / 6 * sol_d3 f x tk - h ^ 4 / 24 * sol_d4 f x tk))
      by (unfold p; ring).
    eapply Rle_trans; [apply Rabs_triang|]. rewrite Rabs_Ropp.
    eapply Rle_trans; [apply Rplus_le_compat_r; apply Rabs_triang|].
    fold dd. lra.
Qed.

(* the fifth derivative of the solution is bounded in terms of the bounds on f: no hypothesis on x beyond
   being a solution *)
Definition rk4_K5 (B L F2 F3 F4 : R) : R :=
  F4 * B ^ 4 + 7 * F3 * L * B ^ 3 + 4 * F2 ^ 2 * B ^ 3 + 11 * F2 * L ^ 2 * B ^ 2 + L ^ 4 * B.

Theorem rk4_converges_order4_closed (f x : R -> R) (t0 T B L F2 F3 F4 : R) (M : nat) :
  0 < T -> 0 < L -> (0 < M)%nat ->
  (forall s k, (k <= 4)%nat -> ex_derive_n f k s) ->
  (forall s, Rabs (Derive_n f 1 s) <= L) -> (forall s, Rabs (Derive_n f 2 s) <= F2) ->
  (forall s, Rabs (Derive_n f 3 s) <= F3) -> (forall s, Rabs (Derive_n f 4 s) <= F4) ->
  (forall t, is_derive x t (f (x t))) ->
  (forall t, t0 <= t <= t0 + T -> Rabs (f (x t)) <= B) ->
  let h := T / INR M in
  let Q := T * L in
  let L' := L * (1 + Q / 2 + Q ^ 2 / 6 + Q ^ 3 / 24) in
  let C5 := rk4_c5 B L F2 F3 F4 T in
  let K5 := rk4_K5 B L F2 F3 F4 in
  let sys := mkSys (fun X (_ : R) => [f (nth 0 X 0)]) (fun _ _ => []) in
  let st := @discrete_system R ROps (intg_rk sys) M 0 [x t0] T t0 in
  forall j, (j <= M)%nat ->
    Rabs (nth 0 (nth j (ds_X st) [x t0]) 0 - x (t0 + INR j * h))
    <= ((C5 + K5 / 120) * ((exp (T * L') - 1) / L')) * h ^ 4.
Proof.
  intros HT HL HM Hex HfL HfF2 HfF3 HfF4 Hsol HB h Q L' C5 K5 sys st.
  apply (rk4_converges_order4 f x t0 T B L F2 F3 F4 K5 M); auto.
  intros t Ht.
  destruct (solution_derivs f x Hsol Hex t) as (_ & _ & _ & _ & _ & E5). rewrite E5.
  unfold sol_d5.
  assert (H0 : Rabs (fd_at f x 0 t) <= B) by (apply HB; exact Ht).
  assert (H1 : Rabs (fd_at f x 1 t) <= L) by apply HfL.
  assert (H2 : Rabs (fd_at f x 2 t) <= F2) by apply HfF2.
  assert (H3 : Rabs (fd_at f x 3 t) <= F3) by apply HfF3.
  assert (H4 : Rabs (fd_at f x 4 t) <= F4) by apply HfF4.
  eapply Rle_trans; [absb|]. apply Req_le. unfold K5, rk4_K5. ring.
Qed.

(* ---- the hypotheses are satisfiable *)
(* (a) linear: x' = x, x = exp; L = 1, F2 = F3 = F4 = 0, B = exp (t0 + T) *)
Lemma Derive_n_id_1 s : Derive_n (fun a : R => a) 1 s = 1.
Proof. apply (Derive_id s). Qed.
Lemma Derive_n_id_S k s : Derive_n (fun a : R => a) (S (S k)) s = 0.
Proof.
  revert s. induction k as [|k IH]; intro s.
  - change (Derive (Derive_n (fun a : R => a) 1) s = 0).
    rewrite (Derive_ext _ (fun _ : R => 1)) by exact Derive_n_id_1. apply Derive_const.
  - change (Derive (Derive_n (fun a : R => a) (S (S k))) s = 0).
    rewrite (Derive_ext _ (fun _ : R => 0)) by exact IH. apply Derive_const.
Qed.
Lemma ex_derive_n_id k s : ex_derive_n (fun a : R => a) k s.
Proof.
  destruct k as [|[|k]]; [exact I|apply ex_derive_id|].
  change (ex_derive (Derive_n (fun a : R => a) (S k)) s).
  destruct k as [|k].
  - apply (ex_derive_ext (fun _ : R => 1)); [intro u; symmetry; apply Derive_n_id_1|apply ex_derive_const].
  - apply (ex_derive_ext (fun _ : R => 0)); [intro u; symmetry; apply Derive_n_id_S|apply ex_derive_const].
Qed.

Example rk4_converges_order4_exp (t0 T : R) (M : nat) :
  0 < T -> (0 < M)%nat ->
  let h := T / INR M in
  let sys := mkSys (fun X (_ : R) => [nth 0 X 0]) (fun _ _ => []) in
  let st := @discrete_system R ROps (intg_rk sys) M 0 [exp t0] T t0 in
  let Q := T * 1 in
  let L' := 1 * (1 + Q / 2 + Q ^ 2 / 6 + Q ^ 3 / 24) in
  let B := exp (t0 + T) in
  forall j, (j <= M)%nat ->
    Rabs (nth 0 (nth j (ds_X st) [exp t0]) 0 - exp (t0 + INR j * h))
    <= ((rk4_c5 B 1 0 0 0 T + B / 120) * ((exp (T * L') - 1) / L')) * h ^ 4.
Proof.
  intros HT HM.
  assert (Hexp : forall t, t0 <= t <= t0 + T -> Rabs (exp t) <= exp (t0 + T)).
  { intros t Ht. rewrite Rabs_pos_eq by (left; apply exp_pos).
    destruct Ht as [_ [Ht|Ht]]; [left; apply exp_increasing; exact Ht|rewrite Ht; apply Rle_refl]. }
  apply (rk4_converges_order4 (fun a => a) exp t0 T (exp (t0 + T)) 1 0 0 0 (exp (t0 + T)) M HT Rlt_0_1 HM).
  - intros s k _. apply ex_derive_n_id.
  - intro s. rewrite Derive_n_id_1, Rabs_R1. apply Rle_refl.
  - intro s. rewrite Derive_n_id_S, Rabs_R0. apply Rle_refl.
  - intro s. rewrite Derive_n_id_S, Rabs_R0. apply Rle_refl.
  - intro s. rewrite Derive_n_id_S, Rabs_R0. apply Rle_refl.
  - intro t. apply is_derive_exp.
  - exact Hexp.
  - intros t Ht. rewrite Derive_n_exp. apply Hexp. exact Ht.
Qed.

(* (b) nonlinear: x' = sin x with the explicit solution x(t) = 2 atan (e^t); B = L = F2 = F3 = F4 = 1,
   every hypothesis of rk4_converges_order4_closed discharged *)
Lemma sin_derivs s :
  (forall k, (k <= 4)%nat -> ex_derive_n sin k s) /\
  Derive_n sin 1 s = cos s /\ Derive_n sin 2 s = - sin s /\ Derive_n sin 3 s = - cos s /\ Derive_n sin 4 s = sin s.
Proof.
  pose proof (Derive_n_step sin sin cos 0 (fun s => eq_refl) is_derive_sin) as S1.
  pose proof (Derive_n_step sin cos (fun t => - sin t) 1 (fun s => proj2 (S1 s)) is_derive_cos) as S2.
  assert (D3 : forall t, is_derive (fun t => - sin t) t (- cos t)).
  { intro t. auto_derive; [exact I|ring]. }
  pose proof (Derive_n_step sin (fun t => - sin t) (fun t => - cos t) 2 (fun s => proj2 (S2 s)) D3) as S3.
  assert (D4 : forall t, is_derive (fun t => - cos t) t (sin t)).
  { intro t. auto_derive; [exact I|ring]. }
  pose proof (Derive_n_step sin (fun t => - cos t) sin 3 (fun s => proj2 (S3 s)) D4) as S4.
  split; [|repeat split; [apply S1|apply S2|apply S3|apply S4]].
  intros k Hk. destruct k as [|[|[|[|[|k]]]]]; [exact I|apply S1|apply S2|apply S3|apply S4|lia].
Qed.

Lemma abs_sin_le s : Rabs (sin s) <= 1.
Proof. apply Rabs_le. pose proof (SIN_bound s). lra. Qed.
Lemma abs_cos_le s : Rabs (cos s) <= 1.
Proof. apply Rabs_le. pose proof (COS_bound s). lra. Qed.

Lemma sin_flow_solution t : is_derive (fun s => 2 * atan (exp s)) t (sin (2 * atan (exp t))).
Proof.
  auto_derive; [exact I|].
  rewrite sin_2a, sin_atan, cos_atan.
  set (u := exp t). assert (Hu : 0 < 1 + u²) by (pose proof (Rle_0_sqr u); lra).
  assert (Hs : sqrt (1 + u²) * sqrt (1 + u²) = 1 + u²) by (apply sqrt_sqrt; lra).
  assert (Hs0 : sqrt (1 + u²) <> 0) by (intro E; rewrite E in Hs; lra).
  replace (2 * (u / sqrt (1 + u²)) * (1 / sqrt (1 + u²))) with (2 * u / (sqrt (1 + u²) * sqrt (1 + u²)))
    by (field; exact Hs0).
  rewrite Hs. unfold Rsqr. field. unfold Rsqr in Hu. lra.
Qed.

Example rk4_converges_order4_sin (t0 T : R) (M : nat) :
  0 < T -> (0 < M)%nat ->
  let h := T / INR M in
  let x := fun t => 2 * atan (exp t) in
  let sys := mkSys (fun X (_ : R) => [sin (nth 0 X 0)]) (fun _ _ => []) in
  let st := @discrete_system R ROps (intg_rk sys) M 0 [x t0] T t0 in
  let Q := T * 1 in
  let L' := 1 * (1 + Q / 2 + Q ^ 2 / 6 + Q ^ 3 / 24) in
  forall j, (j <= M)%nat ->
    Rabs (nth 0 (nth j (ds_X st) [x t0]) 0 - x (t0 + INR j * h))
    <= ((rk4_c5 1 1 1 1 1 T + rk4_K5 1 1 1 1 1 / 120) * ((exp (T * L') - 1) / L')) * h ^ 4.
Proof.
  intros HT HM h x.
  apply (rk4_converges_order4_closed sin x t0 T 1 1 1 1 1 M HT Rlt_0_1 HM).
  - intros s k Hk. apply (proj1 (sin_derivs s)). exact Hk.
  - intro s. destruct (sin_derivs s) as (_ & E & _). rewrite E. apply abs_cos_le.
  - intro s. destruct (sin_derivs s) as (_ & _ & E & _). rewrite E, Rabs_Ropp. apply abs_sin_le.
  - intro s. destruct (sin_derivs s) as (_ & _ & _ & E & _). rewrite E, Rabs_Ropp. apply abs_cos_le.
  - intro s. destruct (sin_derivs s) as (_ & _ & _ & _ & E). rewrite E. apply abs_sin_le.
  - intro t. apply sin_flow_solution.
  - intros t _. apply abs_sin_le.
Qed.


Lemma rk4_K5_sin : rk4_K5 1 1 1 1 1 = 24.
Proof. unfold rk4_K5. ring. Qed.

Print Assumptions rk4_converges_order4.
Print Assumptions rk4_converges_order4_closed.
Print Assumptions rk4_converges_order4_sin.
