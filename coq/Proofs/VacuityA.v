(* Vacuity audit of Props/C01.v .. C10.v (report: /verif/reviewed/vacuity_C01_C10.md).
   For every theorem whose hypotheses were judged SUSPECT this file either exhibits a realistic instance that
   satisfies ALL its hypotheses (Examples, mostly over Qc by computation), or proves that the hypotheses cannot
   hold on natural inputs and proves the corrected statement. *)
From Coq Require Import Reals ZArith QArith Qcanon List Lia Lra Bool.
From Coquelicot Require Import Coquelicot.
From RV Require Import Base.Num Base.PyList Base.Vec Base.Poly Expr Ocp Rows Mech.Grid Mech.Intg Mech.Sampling
     Mech.Shooting Mech.Colloc Spec.SpecDyn Spec.SpecPlace Spec.SpecColloc Inst Proofs.QcInst
     Proofs.NumLemmas Proofs.VecLemmas Proofs.DynProofs Proofs.ShootProofs Proofs.QuadProofs
     Proofs.GridProofs Proofs.ColProofs Proofs.PlaceProofs Proofs.DerProofs Proofs.SplineDerReal
     Proofs.ConvReal Proofs.EulerConvVec Proofs.CollocConv.
Import ListNotations.
Local Open Scope nat_scope.

(* copies of the example data of Props/C01.v, C02.v and C06.v (this file does not depend on Props/) *)
Module C01.
Definition ex_oc : ocp :=
  mkOcp 1 1 0 [EAdd (ES (SX 0)) (ES (SU 0))] [] [] [1%Q] [1%Q] [] [1%Q] [] [] [] [] []
        (HFixed 0) (HFixed 1)
        (mkMethod MS 2 2 IEuler (mkGridOpts GUniform false false None None) []).
Definition qc (a : Z) (b : positive) : Qc := Q2Qc (Qmake a b).
Definition ex_pt : point Qc :=
  @mkPoint Qc [[qc 1 1]; [qc 17 8]; [qc 497 128]] [[qc 1 1]; [qc 1 1]] [] [] [] [] [] []
           (qc 1 1) (qc 0 1) [] [] [] [] [].
End C01.
Module C02.
Definition qc (a : Z) (b : positive) : Qc := Q2Qc (Qmake a b).
Definition ex_oc : ocp :=
  mkOcp 1 0 0 [ES (SX 0)] [] [] [1%Q] [] [] [1%Q] [] [] [] [] []
        (HFixed 0) (HFixed 1)
        (mkMethod DC 1 1 IRK (mkGridOpts GUniform false false None None) [(1#3)%Q; 1%Q]).
Definition ex_pt (x1 x2 xend : Qc) : point Qc :=
  @mkPoint Qc [[qc 1 1]; [xend]] [[]] [] [[]] [[];[]] [] [[]] [[];[]]
           (qc 1 1) (qc 0 1) [] [] [[]] [[[[x1]; [x2]]]] [[[[]; []]]].
End C02.
Module C06.
Definition ex_go : grid_opts := mkGridOpts (GNodes [0%Q; (1#2)%Q; 1%Q]) false false None (Some 1%Q).
End C06.

(* =====================================================================================================
   C01_ms_dynamics_iff: VACUOUS for every MultipleShooting problem with rk / expl_euler and N >= 1.
   Its second hypothesis  forall k x, k < N -> length (Phi_k oc pt k x) = o_nx oc  quantifies over ALL lists x,
   but the rk and expl_euler step maps return  vadd x (...)  (zero padding), which is at least as long as x:
   for x of length nx + 1 the hypothesis fails.  (For intg = INext it is satisfiable.) *)

Lemma iter_steps_length_ge {F : Type} {OF : Ops F} (Phi : F -> list F -> list F) (t0 h : F) (j : nat) (x : list F) :
  (forall t y, length y <= length (Phi t y)) -> length x <= length (iter_steps Phi t0 h j x).
Proof.
  intro H. induction j as [|j IH]; cbn [iter_steps]; [lia|].
  eapply Nat.le_trans; [exact IH|apply H].
Qed.

Lemma Phi_k_length_ge :
  forall (F : Type) (OF : Ops F), FieldLaws OF ->
  forall (oc : ocp) (pt : point F) (k : nat) (x : list F),
    (m_intg (o_method oc) = IRK \/ m_intg (o_method oc) = IEuler) ->
    length x <= length (Phi_k oc pt k x).
Proof.
  intros F OF Fl oc pt k x Hi. unfold Phi_k, FF.
  rewrite (discrete_system_iter Fl).
  apply iter_steps_length_ge. intros t y. unfold step_of.
  destruct Hi as [Hi|Hi]; rewrite Hi.
  - unfold intg_rk. cbn [r_xf]. rewrite length_vadd. apply Nat.le_max_l.
  - unfold intg_expl_euler. cbn [r_xf]. rewrite length_vadd. apply Nat.le_max_l.
Qed.

Lemma C01_ms_dynamics_iff_hyp_false_on_rk_euler :
  forall (F : Type) (OF : Ops F), FieldLaws OF ->
  forall (oc : ocp) (pt : point F),
    0 < m_N (o_method oc) ->
    (m_intg (o_method oc) = IRK \/ m_intg (o_method oc) = IEuler) ->
    ~ (forall k x, k < m_N (o_method oc) -> length (Phi_k oc pt k x) = o_nx oc).
Proof.
  intros F OF Fl oc pt HN Hi H.
  specialize (H 0 (repeat o0 (S (o_nx oc))) HN).
  pose proof (Phi_k_length_ge F OF Fl oc pt 0 (repeat o0 (S (o_nx oc))) Hi) as G.
  rewrite repeat_length in G. lia.
Qed.

(* in particular on the example of Props/C01.v itself (Euler, N = 2, M = 2) *)
Example C01_ms_dynamics_iff_hyp_false_on_own_example :
  ~ (forall k x, k < m_N (o_method C01.ex_oc) ->
                 length (@Phi_k Qc QcOps C01.ex_oc C01.ex_pt k x) = o_nx C01.ex_oc).
Proof.
  apply (C01_ms_dynamics_iff_hyp_false_on_rk_euler Qc QcOps QcLaws); [cbn; lia|right; reflexivity].
Qed.

(* the corrected statement: the length of Phi_k is only needed at the node states *)
Theorem C01_ms_dynamics_iff_fixed :
  forall (F : Type) (OF : Ops F), FieldLaws OF ->
  forall (oc : ocp) (pt : point F),
    (forall k, k <= m_N (o_method oc) -> length (nth k (p_X pt) []) = o_nx oc) ->
    (forall k, k < m_N (o_method oc) -> length (Phi_k oc pt k (nth k (p_X pt) [])) = o_nx oc) ->
    (forall i, i < o_nx oc -> of_Q (nth i (o_scale_x oc) 1%Q) <> (o0 : F)) ->
    ((forall r, In r (rows_ms oc pt) -> rw_kind r = KDyn -> rw_h r = o0) <->
     (forall k, k < m_N (o_method oc) ->
        nth (S k) (p_X pt) [] = Phi_k oc pt k (nth k (p_X pt) []))).
Proof.
  intros F OF Fl oc pt HX HPhi Hsc. split.
  - intros H k Hk. apply vec_ext.
    + rewrite HX by lia. rewrite HPhi by lia. reflexivity.
    + intro i. unfold vnth.
      destruct (Nat.lt_ge_cases i (o_nx oc)) as [Hi|Hi].
      * pose (r := mkRow KDyn i (Z.of_nat k) SEq
                    ((nth i (nth (S k) (p_X pt) []) o0 -! nth i (Phi_k oc pt k (nth k (p_X pt) [])) o0)
                       /! of_Q (nth i (o_scale_x oc) 1%Q))).
        assert (Hin : In r (rows_ms oc pt)).
        { apply (proj2 (ms_dyn_rows_spec oc pt r)). exists k, i. repeat split; assumption. }
        pose proof (H r Hin eq_refl) as E. unfold r in E. cbn [rw_h] in E.
        apply (proj1 (div_zero_iff Fl _ _ (Hsc i Hi))) in E.
        apply (proj1 (sub_zero_iff Fl _ _)) in E. exact E.
      * rewrite !nth_overflow; [reflexivity| |].
        -- rewrite HPhi by lia. exact Hi.
        -- rewrite HX by lia. exact Hi.
  - intros H r Hin Hk.
    destruct (proj1 (ms_dyn_rows_spec oc pt r) (conj Hin Hk)) as (k & i & HkN & Hi & ->).
    cbn [rw_h]. rewrite (H k HkN).
    apply (div_zero_iff Fl); [apply Hsc; exact Hi|].
    apply (sub_zero_iff Fl). reflexivity.
Qed.

Lemma Qc_list_eq (a b : list Qc) : map (fun q => this q) a = map (fun q => this q) b -> a = b.
Proof.
  revert b. induction a as [|x a IH]; intros [|y b] H; try discriminate; [reflexivity|].
  cbn [map] in H. injection H as H1 H2. f_equal; [|apply IH; exact H2].
  apply Qc_is_canon. rewrite H1. reflexivity.
Qed.

(* the corrected hypotheses ARE satisfied by the example of Props/C01.v, and the right-hand side holds there *)
Example C01_ms_dynamics_iff_fixed_nonvacuous :
  (forall k, k <= m_N (o_method C01.ex_oc) -> length (nth k (p_X C01.ex_pt) []) = o_nx C01.ex_oc) /\
  (forall k, k < m_N (o_method C01.ex_oc) ->
     length (@Phi_k Qc QcOps C01.ex_oc C01.ex_pt k (nth k (p_X C01.ex_pt) [])) = o_nx C01.ex_oc) /\
  (forall i, i < o_nx C01.ex_oc -> @of_Q Qc QcOps (nth i (o_scale_x C01.ex_oc) 1%Q) <> @o0 Qc QcOps) /\
  (forall k, k < m_N (o_method C01.ex_oc) ->
     nth (S k) (p_X C01.ex_pt) [] = @Phi_k Qc QcOps C01.ex_oc C01.ex_pt k (nth k (p_X C01.ex_pt) [])).
Proof.
  split; [|split; [|split]].
  - intros k Hk. cbn in Hk. destruct k as [|[|[|k]]]; try reflexivity; lia.
  - intros k Hk. cbn in Hk. destruct k as [|[|k]]; [vm_compute; reflexivity|vm_compute; reflexivity|lia].
  - intros i Hi. cbn in Hi. destruct i as [|i]; [|lia]. vm_compute. intro E. discriminate E.
  - intros k Hk. cbn in Hk.
    destruct k as [|[|k]]; [apply Qc_list_eq; vm_compute; reflexivity|apply Qc_list_eq; vm_compute; reflexivity|lia].
Qed.

(* =====================================================================================================
   Witnesses for theorems whose hypotheses were SUSPECT but turn out to be satisfiable on realistic inputs *)
Local Existing Instance QcOps.
Definition qc (a : Z) (b : positive) : Qc := Q2Qc (Qmake a b).

(* ---- wf_lists (C04, C05, C07, C09): the smallest realistic transcription: N = 1, M = 1, no controls, no
   parameters, grid starting at t0 = 0; MultipleShooting, SingleShooting and DirectCollocation lists *)
Definition oc1 : ocp :=
  mkOcp 1 0 0 [ES (SX 0)] [] [] [1%Q] [] [] [1%Q] [] [] [] [] []
        (HFixed 0) (HFixed 1)
        (mkMethod MS 1 1 IRK (mkGridOpts GUniform false false None None) []).
Definition pt1 : point Qc :=
  @mkPoint Qc [[qc 1 1]; [qc 2 1]] [[]] [] [[]] [[];[]] [] [[]] [[];[]] (qc 1 1) (qc 0 1) [] [] [] [] [].

Example wf_lists_N1_M1_no_controls :
  wf_lists (@lists_of Qc QcOps oc1 pt1 false) /\ wf_lists (@lists_of Qc QcOps oc1 pt1 true) /\
  wf_lists (@dc_lists Qc QcOps C02.ex_oc (C02.ex_pt (C02.qc 4 3) (C02.qc 8 3) (C02.qc 8 3))).
Proof. repeat split; try reflexivity; vm_compute; lia. Qed.

(* ---- C01_rk_step_is_RK4, C08_rk_dense_output, C08_euler_dense_output: the hypothesis
   forall x t, length (s_ode f x t) = n  ranges over all x, and holds for the system functions the model builds *)
Example sysfun_length_hyp_satisfiable :
  (forall (x : list Qc) (t : Qc), length (s_ode (@sys_of Qc QcOps oc1 pt1 0) x t) = 1) /\
  (forall (x : list Qc) (t : Qc), length (s_quad (@sys_of Qc QcOps oc1 pt1 0) x t) = 0) /\
  (forall (oc : ocp) (pt : point Qc) k (x : list Qc) (t : Qc),
     length (s_ode (@sys_of Qc QcOps oc pt k) x t) = length (o_ode oc)).
Proof.
  split; [|split].
  - intros x t. reflexivity.
  - intros x t. reflexivity.
  - intros oc pt k x t. cbn [s_ode sys_of]. apply map_length.
Qed.

(* ---- `distinct` / pairwise distinct nodes (C02_lagrange_delta, C02_polynomial_through_states,
   C05_dc_quadrature_exact, C05_dc_weights_sum_to_one, C08_collocation_dense_output_interpolates):
   radau degree 2, tau = 1/3, 1 and the interpolation nodes 0, 1/3, 1 *)
Example distinct_radau2 :
  @distinct Qc QcOps [qc 1 3; qc 1 1] /\ @distinct Qc QcOps [qc 0 1; qc 1 3; qc 1 1] /\
  (forall a b, a <= 2 -> b <= 2 -> a <> b ->
     @osub Qc QcOps (nth a (@o0 Qc QcOps :: [qc 1 3; qc 1 1]) (@o0 Qc QcOps))
                    (nth b (@o0 Qc QcOps :: [qc 1 3; qc 1 1]) (@o0 Qc QcOps)) <> @o0 Qc QcOps).
Proof.
  split; [|split].
  - intros a b Ha Hb Hab. cbn [length] in Ha, Hb.
    destruct a as [|[|a]]; destruct b as [|[|b]]; try lia; vm_compute; intro E; discriminate E.
  - intros a b Ha Hb Hab. cbn [length] in Ha, Hb.
    destruct a as [|[|[|a]]]; destruct b as [|[|[|b]]]; try lia; vm_compute; intro E; discriminate E.
  - intros a b Ha Hb Hab.
    destruct a as [|[|[|a]]]; destruct b as [|[|[|b]]]; try lia; vm_compute; intro E; discriminate E.
Qed.

(* ---- C06_geometric_ratio: the normaliser  last (geo_vec g N)  = 1 + g + ... + g^(N-1)  is non-zero: growth 2, N = 3
   (7), and the degenerate but legal cases growth 1 (N = 3: 3) and N = 1 (1) *)
Example C06_geometric_hyp_satisfiable :
  last (@geo_vec Qc QcOps (of_Q 2%Q) 3) o0 <> @o0 Qc QcOps /\
  last (@geo_vec Qc QcOps (of_Q 1%Q) 3) o0 <> @o0 Qc QcOps /\
  last (@geo_vec Qc QcOps (of_Q 2%Q) 1) o0 <> @o0 Qc QcOps.
Proof. repeat split; vm_compute; intro E; discriminate E. Qed.

(* ---- C06_free_grid_partition: FreeGrid with N = 2, T_local = 1, 2 on [0, 3]: hypotheses and both sides of the iff *)
Definition go_free : grid_opts := mkGridOpts GFree false false None None.
Example C06_free_grid_hyp_satisfiable :
  go_spec go_free = GFree /\ go_localize_t0 go_free = false /\ length [qc 1 1; qc 2 1] = 2 /\ 0 < 2 /\
  map (fun q => this q) (@control_grid Qc QcOps go_free 2 (qc 0 1) (qc 3 1) [] [qc 1 1; qc 2 1]) = [0%Q; 1%Q; 3%Q] /\
  map (fun r => this (rw_h r))
      (@bounds_finalize Qc QcOps go_free (@control_grid Qc QcOps go_free 2 (qc 0 1) (qc 3 1) [] [qc 1 1; qc 2 1])
                        (qc 0 1) (qc 3 1)) = [0%Q].
Proof. repeat split; try lia; vm_compute; reflexivity. Qed.

(* ---- C06_minmax_enforced_uniform: UniformGrid, free T, max = 1, N = 2, T = 2: the rows emitted at k = 0 are
   0 - 1 <= 0 and 1 - 1 <= 0, so the hypothesis "all rows hold" is met *)
Definition go_umax : grid_opts := mkGridOpts GUniform false false None (Some 1%Q).
Example C06_minmax_uniform_hyp_satisfiable :
  go_spec go_umax = GUniform /\ go_localize_t0 go_umax = false /\ go_localize_T go_umax = false /\ 0 < 2 /\
  (go_min go_umax <> None \/ go_max go_umax <> None) /\
  (forall r, In r (@bounds_T Qc QcOps go_umax 2 true (qc 2 1) [] [] 0) -> (rw_h r <= @o0 Qc QcOps)%Qc).
Proof.
  repeat split; try lia; [right; discriminate|].
  intros r Hr. cbn in Hr. destruct Hr as [<-|[<-|[]]]; vm_compute; intro E; discriminate E.
Qed.

(* ---- C06_minmax_enforced_nodes: the example of Props/C06.v is an INFEASIBLE point (row 3 <= 0 fails); with
   T = 1 the rows of both intervals hold (0 - 1/2 <= 0, 1/2 - 1 <= 0) *)
Example C06_minmax_nodes_hyp_satisfiable :
  go_spec C06.ex_go = GNodes [0%Q; (1#2)%Q; 1%Q] /\ go_localize_T C06.ex_go = false /\
  (go_min C06.ex_go <> None \/ go_max C06.ex_go <> None) /\
  (forall k, S k < length [0%Q; (1#2)%Q; 1%Q] ->
     forall r, In r (@bounds_T Qc QcOps C06.ex_go 2 true (qc 1 1) [] [] k) -> (rw_h r <= @o0 Qc QcOps)%Qc).
Proof.
  repeat split; [right; discriminate|].
  intros k Hk r Hr. cbn [length] in Hk.
  destruct k as [|[|k]]; [| |lia]; cbn in Hr; destruct Hr as [<-|[<-|[]]]; vm_compute; intro E; discriminate E.
Qed.

(* ---- C09_param_as_constant: L_P L = map of_Q vals, for a transcription with one parameter of value 3 (and for
   the empty parameter list) *)
Definition pt1p : point Qc :=
  @mkPoint Qc [[qc 1 1]; [qc 2 1]] [[]] [] [[]] [[];[]] [qc 3 1] [[]] [[];[]] (qc 1 1) (qc 0 1) [] [] [] [] [].
Example C09_param_hyp_satisfiable :
  L_P (@lists_of Qc QcOps oc1 pt1p false) = map (@of_Q Qc QcOps) [3%Q] /\
  L_P (@lists_of Qc QcOps oc1 pt1 false) = map (@of_Q Qc QcOps) [].
Proof. split; [apply Qc_list_eq; vm_compute; reflexivity|reflexivity]. Qed.

(* =====================================================================================================
   C03 (reals): theorems without a witness in Props/C03.v *)
Local Open Scope R_scope.

(* ---- C03_dc_radau1_integral_converges (= dc_radau1_integral_converges): x' = -x with the implicit Euler
   sequences of dc_radau1_decay, integrand g = 0 and accumulator Qs = 0: ALL hypotheses hold, the theorem applies *)
Example C03_dc_radau1_integral_hyp_satisfiable (t0 T : R) (M : nat) :
  0 < T -> (0 < M)%nat ->
  let h := T / INR M in
  h * 1 <= 1 / 2 ->
  let g := fun (_ : list R) (_ : R) => 0 in
  let x := fun (_ : nat) (s : R) => exp (- s) in
  let Qs := fun _ : nat => 0 in
  Rabs (Qs M - RInt (fun s => g (xvec 1 x s) s) t0 (t0 + T))
  <= (T * (0 * (3 * exp (- t0) * ((exp (T * (2 * 1)) - 1) / (2 * 1))) + 3 / 2 * 0)) * h.
Proof.
  intros HT HM h HhL g x Qs.
  destruct (dc_radau1_decay t0 T M HT HM HhL) as [Hcol [Hcont _]].
  set (F := fun (X : list R) (_ : R) => [- nth 0 X 0]) in *.
  set (Y := fun j : nat => [exp (- t0) / (1 + h) ^ j]) in *.
  set (Yc := fun j : nat => Y (S j)) in *.
  pose proof (dc_radau1_integral_converges F g 1 x t0 T 1 0 (exp (- t0)) 0 M Y Yc Qs HT Rlt_0_1
                (Rlt_le _ _ (exp_pos _)) (Rle_refl 0) HM) as E.
  cbv zeta in E. fold h in E. apply (E HhL); clear E.
  - intros k _. reflexivity.
  - intros k _. reflexivity.
  - unfold Y, xvec, x. cbn [seq map pow]. f_equal. field.
  - intros k _. apply Hcol.
  - intros k _. apply Hcont.
  - reflexivity.
  - intros k _. unfold Qs, g. ring.
  - intros i t Hi _. assert (i = 0%nat) by lia. subst i. unfold F, xvec, x. cbn [seq map nth].
    auto_derive; [exact I|]. ring.
  - intros i t _ _. apply ex_derive_n_exp_opp.
  - intros i t _ Ht. unfold x. rewrite Derive_n_exp_opp. replace ((-1) ^ 2) with 1 by ring. rewrite Rmult_1_l.
    rewrite Rabs_pos_eq by (left; apply exp_pos).
    destruct Ht as [[Ht|Ht] _]; [left; apply exp_increasing; lra|rewrite Ht; apply Rle_refl].
  - intros i t X Y' Hi _ _ _. assert (i = 0%nat) by lia. subst i. unfold F. cbn [nth].
    replace (- nth 0 X 0 - - nth 0 Y' 0) with (- (nth 0 X 0 - nth 0 Y' 0)) by ring.
    rewrite Rabs_Ropp, Rmult_1_l. apply (dist_max_ge 1 X Y' 0). lia.
  - intros t X Y' _ _ _. unfold g. rewrite Rminus_0_r, Rabs_R0. lra.
  - intro t. unfold g. apply ex_derive_const.
  - intros t _. unfold g. rewrite Derive_const, Rabs_R0. lra.
Qed.

(* ---- C03_builtin_rescaling / C03_builtin_quadrature_rescaling: the hypothesis ranges over ALL component indices
   i : nat of x : nat -> R -> R; a system of any dimension satisfies it after padding (here every component is exp,
   f_i (y, t) = y_i) *)
Example C03_builtin_rescaling_hyp_satisfiable :
  (forall (i : nat) (t : R), is_derive ((fun (_ : nat) => exp) i) t
                               ((fun (i : nat) (y : nat -> R) (_ : R) => y i) i (fun j => (fun (_ : nat) => exp) j t) t)) /\
  (forall t : R, is_derive exp t (exp t)).
Proof. split; [intros i t|intro t]; apply is_derive_exp. Qed.

(* ---- C03_global_error_partial: all hypotheses together: e = 0, h = 1, L = 1, C = 0, T = 0, n = 0 *)
Example C03_global_error_hyp_satisfiable :
  let e := fun _ : nat => 0 in
  0 < 1 /\ 0 < 1 /\ 0 <= 0 /\ e 0%nat = 0 /\ INR 0 * 1 <= 0 /\
  (forall k : nat, e (S k) <= (1 + 1 * 1) * e k + 0 * 1 ^ (S 0)).
Proof. cbn. repeat split; try lra. intro k. lra. Qed.

Print Assumptions C01_ms_dynamics_iff_hyp_false_on_rk_euler.
Print Assumptions C01_ms_dynamics_iff_hyp_false_on_own_example.
Print Assumptions C01_ms_dynamics_iff_fixed.
Print Assumptions C01_ms_dynamics_iff_fixed_nonvacuous.
Print Assumptions wf_lists_N1_M1_no_controls.
Print Assumptions C03_dc_radau1_integral_hyp_satisfiable.
