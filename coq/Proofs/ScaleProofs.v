(* C14: scale= arguments only divide rows by positive numbers; everything else (the discretised
   trajectory, the read-back lists, the objective, the physical residuals) ignores them. *)
From Coq Require Import ZArith QArith List Field Lia Bool.
From RV Require Import Base.Num Base.PyList Base.Vec Expr Ocp Rows Mech.Grid Mech.Intg Mech.Sampling
     Mech.Shooting Mech.Colloc Proofs.NumLemmas Proofs.ListLemmas.
Import ListNotations.
Local Open Scope nat_scope.

Definition unscale_c (c : constr) : constr :=
  mkConstr (c_id c) (c_rel c) (c_lhs c) (c_rhs c) 1%Q (c_first c) (c_last c) (c_goffs c).
Definition unscale_pc (c : pconstr) : pconstr :=
  mkPConstr (pc_id c) (pc_rel c) (pc_lhs c) (pc_rhs c) 1%Q.

(* the same OCP declared without any scale= argument *)
Definition unscale (oc : ocp) : ocp :=
  mkOcp (o_nx oc) (o_nu oc) (o_nz oc) (o_ode oc) (o_quad oc) (o_alg oc)
        [] [] [] []
        (map unscale_c (o_c_control oc)) (map unscale_c (o_c_integrator oc))
        (map unscale_c (o_c_roots oc)) (map unscale_pc (o_c_point oc)) (o_objective oc)
        (o_t0 oc) (o_T oc) (o_method oc).

Section ScaleProofs.
Context {F : Type} {OF : Ops F}.
Hypothesis Fth : field_theory o0 o1 oadd omul osub oopp odiv oinv (@eq F).
Add Field FFsc : Fth.

Lemma o1_nz : (o1 : F) <> o0.
Proof. destruct Fth as [_ H _ _]. exact H. Qed.

Lemma of_Q_1 : (@of_Q F OF 1%Q) = o1.
Proof. unfold of_Q. cbn. field. exact o1_nz. Qed.

(* the trajectory lists and the objective do not depend on scales *)
Theorem lists_unscale (oc : ocp) (pt : point F) s : lists_of (unscale oc) pt s = lists_of oc pt s.
Proof. destruct oc. reflexivity. Qed.

Theorem dc_lists_unscale (oc : ocp) (pt : point F) : dc_lists (unscale oc) pt = dc_lists oc pt.
Proof. destruct oc. reflexivity. Qed.

Theorem objective_unscale (oc : ocp) (pt : point F) s :
  objective (lists_of (unscale oc) pt s) (o_objective (unscale oc))
  = objective (lists_of oc pt s) (o_objective oc).
Proof. rewrite lists_unscale. destruct oc. reflexivity. Qed.

(* a declared relation with scale s: the row is the unscaled row divided by s, same kind, id,
   point and sense *)
Theorem crow_scaled kd (c : constr) p (a b : F) :
  let r := crow kd c p a b in
  let r1 := crow kd (unscale_c c) p a b in
  rw_kind r = rw_kind r1 /\ rw_id r = rw_id r1 /\ rw_pt r = rw_pt r1 /\ rw_sense r = rw_sense r1 /\
  rw_h r = rw_h r1 /! of_Q (c_scale c).
Proof.
  cbn zeta. unfold crow, unscale_c. cbn [rw_kind rw_id rw_pt rw_sense rw_h c_id c_rel c_scale].
  repeat split. rewrite of_Q_1.
  replace ((a -! b) /! o1) with (a -! b) by (field; exact o1_nz). reflexivity.
Qed.

Theorem prow_scaled (L : mlists F) (c : pconstr) :
  let r := prow L c in
  let r1 := prow L (unscale_pc c) in
  rw_kind r = rw_kind r1 /\ rw_id r = rw_id r1 /\ rw_sense r = rw_sense r1 /\
  rw_h r = rw_h r1 /! of_Q (pc_scale c).
Proof.
  cbn zeta. unfold prow, unscale_pc. cbn [rw_kind rw_id rw_sense rw_h pc_id pc_rel pc_scale pc_lhs pc_rhs].
  repeat split. rewrite of_Q_1.
  replace ((peval L (pc_lhs c) -! peval L (pc_rhs c)) /! o1)
    with (peval L (pc_lhs c) -! peval L (pc_rhs c)) by (field; exact o1_nz). reflexivity.
Qed.

(* gap-closing, collocation, algebraic and continuity rows: component s divided by its scale *)
Theorem scaled_rows_scaled kd ptz (lhs rhs : list F) (scales : list Q) n s : s < n ->
  nth s (map (@rw_h F) (scaled_rows kd ptz lhs rhs scales n)) o0
  = nth s (map (@rw_h F) (scaled_rows kd ptz lhs rhs [] n)) o0 /! of_Q (nth s scales 1%Q).
Proof.
  intro Hs. unfold scaled_rows. rewrite !map_map.
  rewrite !(nth_map_seq _ n 0 s o0 Hs). cbn [rw_h plus].
  replace (nth s (@nil Q) 1%Q) with 1%Q by (destruct s; reflexivity). rewrite of_Q_1.
  replace ((nth s lhs o0 -! nth s rhs o0) /! o1) with (nth s lhs o0 -! nth s rhs o0)
    by (field; exact o1_nz). reflexivity.
Qed.

(* dividing a row by a positive number does not change whether it is satisfied *)
Section Order.
Variable le : F -> F -> Prop.
Hypothesis le_mul_pos : forall a b c, le o0 c -> le a b -> le (a *! c) (b *! c).

Theorem scaled_row_feasible_iff (h s : F) :
  s <> o0 -> le o0 s -> le o0 (o1 /! s) ->
  ((h /! s = o0 <-> h = o0) /\ (le (h /! s) o0 <-> le h o0)).
Proof.
  intros Hs Hpos Hipos. split.
  - apply (div_zero_iff Fth). exact Hs.
  - split; intro H.
    + apply (le_mul_pos _ _ s Hpos) in H.
      replace (h /! s *! s) with h in H by (field; exact Hs).
      replace (o0 *! s) with (o0 : F) in H by ring. exact H.
    + apply (le_mul_pos _ _ (o1 /! s) Hipos) in H.
      replace (h *! (o1 /! s)) with (h /! s) in H by (field; exact Hs).
      replace (o0 *! (o1 /! s)) with (o0 : F) in H by (field; exact Hs). exact H.
Qed.
End Order.

End ScaleProofs.
