(* C02/C03: DirectCollocation of degree 1 as modelled (Mech/Colloc.v).
   Part 1 (any field): coeff_C / coeff_D / coeff_B of one collocation point t; radau-1 (tau = [1]) is implicit
   Euler, legendre-1 (tau = [1/2]) is the implicit midpoint rule - on wsum (col (coeff_C tau) 0) [xs; xc] and
   wsum (coeff_D tau) [xs; xc], and on Pidot / the continuity left-hand side / t_root of the modelled rows.
   Part 2 (reals, max norm dist_max): ANY sequence of start states Y j and helper states Yc j that satisfies
   the collocation rows and the continuity rows (existence is a hypothesis) is within C h of the exact
   solution, for f Lipschitz in the state (L), |x_i''| <= K on [t0, t0+T] and h L <= 1/2:
   C = 3K (e^{2TL}-1)/(2L) for radau-1, C = 2K (e^{2TL}-1)/(2L) for legendre-1 (order >= 1 only).
   Part 3: the quadrature q += quad * dt * B[0] of radau-1 converges to the integral, O(h). *)
From Coq Require Import Reals ZArith QArith Qcanon List Field Lia Lra.
From Coquelicot Require Import Coquelicot.
From RV Require Import Base.Num Base.PyList Base.Vec Base.Poly Expr Ocp Rows Mech.Grid Mech.Intg
     Mech.Sampling Mech.Shooting Mech.Colloc Spec.SpecDyn Spec.SpecColloc
     Proofs.NumLemmas Proofs.VecLemmas Proofs.PolyLemmas Proofs.ColProofs
     Inst Proofs.QcInst Proofs.DerProofs Proofs.SplineDerReal Proofs.ConvReal Proofs.EulerConv Proofs.EulerConvVec.
Import ListNotations.

(* ================================================================== Part 1: the coefficients, degree 1 *)
Section Coeff1.
Context {F : Type} {OF : Ops F}.
Hypothesis Fth : field_theory o0 o1 oadd omul osub oopp odiv oinv (@eq F).
Add Field FFcc : Fth.

Ltac list_eq := repeat match goal with
  | |- (_ :: _) = (_ :: _) => apply f_equal2
  | |- @nil _ = @nil _ => reflexivity end.

Lemma o1_nz : (o1 : F) <> o0.
Proof. exact (F_1_neq_0 Fth). Qed.

Lemma opp_nz (t : F) : t <> o0 -> oopp t <> o0.
Proof. intros Ht E. apply Ht. replace t with (oopp (oopp t)) by ring. rewrite E. ring. Qed.

Ltac side := repeat split; auto using opp_nz.

(* one collocation point t <> 0: l_0(s) = (t - s)/t, l_1(s) = s/t on the nodes [0; t] *)
Lemma coeff_C_deg1 (t : F) : t <> o0 ->
  coeff_C [t] = [[oopp (o1 /! t)]; [o1 /! t]].
Proof.
  intro Ht. pose proof o1_nz as H1.
  unfold coeff_C, tau_root, lagrange. cbn.
  list_eq; field; side.
Qed.

Lemma coeff_D_deg1 (t : F) : t <> o0 ->
  coeff_D [t] = [(t -! o1) /! t; o1 /! t].
Proof.
  intro Ht. pose proof o1_nz as H1.
  unfold coeff_D, tau_root, lagrange. cbn.
  list_eq; field; side.
Qed.

Lemma coeff_B_deg1 (t : F) : coeff_B [t] = [o1].
Proof.
  pose proof o1_nz as H1.
  unfold coeff_B, lagrange. cbn.
  list_eq; field; side.
Qed.

(* radau, degree 1: tau = [1] *)
Corollary coeff_radau1 :
  coeff_C [o1 : F] = [[oopp o1]; [o1]] /\ coeff_D [o1 : F] = [o0; o1] /\ coeff_B [o1 : F] = [o1].
Proof.
  pose proof o1_nz as H1.
  rewrite (coeff_C_deg1 o1 H1), (coeff_D_deg1 o1 H1), coeff_B_deg1.
  repeat split; list_eq; field; side.
Qed.

(* legendre, degree 1: tau = [1/2] *)
Corollary coeff_legendre1 : (o2 : F) <> o0 ->
  coeff_C [o1 /! o2 : F] = [[oopp o2]; [o2]] /\ coeff_D [o1 /! o2 : F] = [oopp o1; o2]
  /\ coeff_B [o1 /! o2 : F] = [o1].
Proof.
  intro H2. pose proof o1_nz as H1.
  assert (Hh : (o1 /! o2 : F) <> o0).
  { intro E. apply H1. replace (o1 : F) with (o1 /! o2 *! o2) by (field; exact H2). rewrite E. ring. }
  rewrite (coeff_C_deg1 _ Hh), (coeff_D_deg1 _ Hh), coeff_B_deg1.
  unfold o2 in *. repeat split; list_eq; field; side.
Qed.

(* ---- what the collocation row and the continuity row say, one collocation point *)
Lemma colloc_lhs_deg1 (t dt : F) (xs xc : list F) i : t <> o0 -> dt <> o0 ->
  vnth (vdivs (wsum (col (coeff_C [t]) 0) [xs; xc]) dt) i = (vnth xc i -! vnth xs i) /! (t *! dt).
Proof.
  intros Ht Hdt. rewrite (coeff_C_deg1 t Ht). unfold col, wsum. cbn [map nth vlincomb].
  rewrite (vnth_vdivs Fth) by exact Hdt.
  rewrite !(vnth_vadd Fth), !(vnth_vscale Fth), vnth_nil. field. side.
Qed.

Lemma cont_lhs_deg1 (t : F) (xs xc : list F) i : t <> o0 ->
  vnth (wsum (coeff_D [t]) [xs; xc]) i = (t -! o1) /! t *! vnth xs i +! o1 /! t *! vnth xc i.
Proof.
  intro Ht. rewrite (coeff_D_deg1 t Ht). unfold wsum. cbn [vlincomb].
  rewrite !(vnth_vadd Fth), !(vnth_vscale Fth), vnth_nil. ring.
Qed.

(* radau-1 = implicit Euler: (xc - xs)/dt on the left of the collocation row, next state = xc *)
Lemma colloc_lhs_radau1 (dt : F) (xs xc : list F) i : dt <> o0 ->
  vnth (vdivs (wsum (col (coeff_C [o1]) 0) [xs; xc]) dt) i = (vnth xc i -! vnth xs i) /! dt.
Proof.
  intro Hdt. rewrite (colloc_lhs_deg1 o1 dt xs xc i o1_nz Hdt). field. exact Hdt.
Qed.

Lemma cont_lhs_radau1 (xs xc : list F) i : vnth (wsum (coeff_D [o1]) [xs; xc]) i = vnth xc i.
Proof. pose proof o1_nz. rewrite (cont_lhs_deg1 o1 xs xc i o1_nz). field. auto. Qed.

Lemma cont_lhs_radau1_vec (xs xc : list F) : length xs = length xc -> wsum (coeff_D [o1]) [xs; xc] = xc.
Proof.
  intro Hl. apply vec_ext; [|intro i; apply cont_lhs_radau1].
  rewrite (proj1 (proj2 coeff_radau1)). unfold wsum. cbn [vlincomb].
  rewrite !length_vadd, !length_vscale. cbn [length]. lia.
Qed.

(* legendre-1 = implicit midpoint: (2 xc - 2 xs)/dt, next state = 2 xc - xs *)
Lemma colloc_lhs_legendre1 (dt : F) (xs xc : list F) i : (o2 : F) <> o0 -> dt <> o0 ->
  vnth (vdivs (wsum (col (coeff_C [o1 /! o2]) 0) [xs; xc]) dt) i
  = (o2 *! vnth xc i -! o2 *! vnth xs i) /! dt.
Proof.
  intros H2 Hdt. pose proof o1_nz as H1.
  assert (Hh : (o1 /! o2 : F) <> o0).
  { intro E. apply H1. replace (o1 : F) with (o1 /! o2 *! o2) by (field; exact H2). rewrite E. ring. }
  rewrite (colloc_lhs_deg1 _ dt xs xc i Hh Hdt). field. side.
Qed.

Lemma cont_lhs_legendre1 (xs xc : list F) i : (o2 : F) <> o0 ->
  vnth (wsum (coeff_D [o1 /! o2]) [xs; xc]) i = o2 *! vnth xc i -! vnth xs i.
Proof.
  intro H2. pose proof o1_nz as H1.
  assert (Hh : (o1 /! o2 : F) <> o0).
  { intro E. apply H1. replace (o1 : F) with (o1 /! o2 *! o2) by (field; exact H2). rewrite E. ring. }
  rewrite (cont_lhs_deg1 _ xs xc i Hh). unfold o2 in *. field. side.
Qed.

(* ---- the same on the rows of the modelled DirectCollocation: method tau = [1] (radau, degree 1) *)
Section Model.
Variable oc : ocp.
Variable pt : point F.

Lemma of_Q_1 : (of_Q 1%Q : F) = o1.
Proof. pose proof o1_nz. unfold of_Q. cbn. field. auto. Qed.

Lemma of_Q_half : (o2 : F) <> o0 -> (of_Q (1 # 2)%Q : F) = o1 /! o2.
Proof. intro H2. pose proof o1_nz. unfold of_Q. cbn. field. side. Qed.

Lemma Pidot_radau1 k i (xc : list F) s :
  m_tau (o_method oc) = [1%Q] -> helpers pt k i = [xc] -> dt_k oc pt k <> o0 ->
  vnth (Pidot oc pt k i 0) s = (vnth xc s -! vnth (x_start pt k i) s) /! dt_k oc pt k.
Proof.
  intros Htau Hh Hdt. unfold Pidot, Xc_full. rewrite Htau, Hh. cbn [map]. rewrite of_Q_1.
  apply colloc_lhs_radau1. exact Hdt.
Qed.

Lemma cont_radau1 k i (xc : list F) s :
  m_tau (o_method oc) = [1%Q] -> helpers pt k i = [xc] ->
  vnth (wsum (coeff_D (map of_Q (m_tau (o_method oc)))) (Xc_full pt k i)) s = vnth xc s.
Proof.
  intros Htau Hh. unfold Xc_full. rewrite Htau, Hh. cbn [map]. rewrite of_Q_1. apply cont_lhs_radau1.
Qed.

Lemma t_root_radau1 k i :
  m_tau (o_method oc) = [1%Q] ->
  t_root oc pt k i 0
  = nth i (nth k (integrator_grid (grid_of oc pt) (m_N (o_method oc)) (m_M (o_method oc))) []) o0
    +! dt_k oc pt k.
Proof. intro Htau. unfold t_root. rewrite Htau. cbn [map nth]. rewrite of_Q_1. ring. Qed.

Lemma Pidot_legendre1 k i (xc : list F) s : (o2 : F) <> o0 ->
  m_tau (o_method oc) = [(1 # 2)%Q] -> helpers pt k i = [xc] -> dt_k oc pt k <> o0 ->
  vnth (Pidot oc pt k i 0) s = (o2 *! vnth xc s -! o2 *! vnth (x_start pt k i) s) /! dt_k oc pt k.
Proof.
  intros H2 Htau Hh Hdt. unfold Pidot, Xc_full. rewrite Htau, Hh. cbn [map]. rewrite (of_Q_half H2).
  apply colloc_lhs_legendre1; assumption.
Qed.

Lemma cont_legendre1 k i (xc : list F) s : (o2 : F) <> o0 ->
  m_tau (o_method oc) = [(1 # 2)%Q] -> helpers pt k i = [xc] ->
  vnth (wsum (coeff_D (map of_Q (m_tau (o_method oc)))) (Xc_full pt k i)) s
  = o2 *! vnth xc s -! vnth (x_start pt k i) s.
Proof.
  intros H2 Htau Hh. unfold Xc_full. rewrite Htau, Hh. cbn [map]. rewrite (of_Q_half H2).
  apply cont_lhs_legendre1. exact H2.
Qed.

Lemma t_root_legendre1 k i : (o2 : F) <> o0 ->
  m_tau (o_method oc) = [(1 # 2)%Q] ->
  t_root oc pt k i 0
  = nth i (nth k (integrator_grid (grid_of oc pt) (m_N (o_method oc)) (m_M (o_method oc))) []) o0
    +! dt_k oc pt k /! o2.
Proof.
  intros H2 Htau. unfold t_root. rewrite Htau. cbn [map nth]. rewrite (of_Q_half H2). field. exact H2.
Qed.

End Model.
End Coeff1.

(* ================================================================== Part 2: convergence over R *)
Local Open Scope R_scope.

(* increment of x' over a step, from the bound on x'' (mean value theorem) *)
Lemma deriv_increment (x : R -> R) (a h K : R) :
  0 < h ->
  (forall t, a <= t <= a + h -> ex_derive_n x 2 t) ->
  (forall t, a <= t <= a + h -> Rabs (Derive_n x 2 t) <= K) ->
  Rabs (Derive x (a + h) - Derive x a) <= K * h.
Proof.
  intros Hh Hex HK.
  destruct (MVT_gen (Derive x) a (a + h) (Derive_n x 2)) as (c & Hc & E).
  - rewrite Rmin_left, Rmax_right by lra. intros t Ht.
    change (is_derive (Derive x) t (Derive (Derive x) t)). apply Derive_correct.
    apply (Hex t). lra.
  - rewrite Rmin_left, Rmax_right by lra. intros t Ht.
    apply continuity_pt_filterlim. apply (ex_derive_continuous (Derive x) t). apply (Hex t Ht).
  - rewrite Rmin_left, Rmax_right in Hc by lra. rewrite E.
    replace (a + h - a) with h by ring. rewrite Rabs_mult, (Rabs_pos_eq h) by lra.
    apply Rmult_le_compat_r; [lra|apply HK; exact Hc].
Qed.

(* defect of the implicit Euler step along a C^2 function *)
Lemma back_defect (x : R -> R) (a h K : R) :
  0 < h ->
  (forall t, a <= t <= a + h -> ex_derive x t) ->
  (forall t, a <= t <= a + h -> ex_derive_n x 2 t) ->
  (forall t, a <= t <= a + h -> Rabs (Derive_n x 2 t) <= K) ->
  Rabs (x a + h * Derive x (a + h) - x (a + h)) <= 3 / 2 * K * h ^ 2.
Proof.
  intros Hh H1 H2 HK.
  pose proof (taylor2 x a h K Hh H1 H2 HK) as T2.
  pose proof (deriv_increment x a h K Hh H2 HK) as DI.
  replace (x a + h * Derive x (a + h) - x (a + h))
    with (- (x (a + h) - x a - h * Derive x a) + h * (Derive x (a + h) - Derive x a)) by ring.
  eapply Rle_trans; [apply Rabs_triang|]. rewrite Rabs_Ropp, Rabs_mult, (Rabs_pos_eq h) by lra.
  assert (h * Rabs (Derive x (a + h) - Derive x a) <= h * (K * h)) by (apply Rmult_le_compat_l; lra).
  cbn [pow] in *. lra.
Qed.

(* defect of the implicit midpoint step *)
Lemma mid_defect (x : R -> R) (a h K : R) :
  0 < h ->
  (forall t, a <= t <= a + h -> ex_derive x t) ->
  (forall t, a <= t <= a + h -> ex_derive_n x 2 t) ->
  (forall t, a <= t <= a + h -> Rabs (Derive_n x 2 t) <= K) ->
  Rabs (x a + h * Derive x (a + h / 2) - x (a + h)) <= K * h ^ 2.
Proof.
  intros Hh H1 H2 HK.
  pose proof (taylor2 x a h K Hh H1 H2 HK) as T2.
  assert (DI : Rabs (Derive x (a + h / 2) - Derive x a) <= K * (h / 2)).
  { apply deriv_increment; [lra| |]; intros t Ht; [apply H2|apply HK]; lra. }
  replace (x a + h * Derive x (a + h / 2) - x (a + h))
    with (- (x (a + h) - x a - h * Derive x a) + h * (Derive x (a + h / 2) - Derive x a)) by ring.
  eapply Rle_trans; [apply Rabs_triang|]. rewrite Rabs_Ropp, Rabs_mult, (Rabs_pos_eq h) by lra.
  assert (h * Rabs (Derive x (a + h / 2) - Derive x a) <= h * (K * (h / 2))) by (apply Rmult_le_compat_l; lra).
  cbn [pow] in *. lra.
Qed.

(* 1/(1-q) <= 1 + 2q for q <= 1/2, in the form used below *)
Lemma implicit_solve (e' e dl q : R) :
  0 <= q <= 1 / 2 -> 0 <= e -> 0 <= dl -> e' <= e + q * e' + dl -> e' <= (1 + 2 * q) * e + 2 * dl.
Proof.
  intros Hq He Hd H.
  destruct (Rle_lt_dec 0 e') as [Hp|Hn].
  - assert (A : (1 + 2 * q) * (e' - q * e') <= (1 + 2 * q) * (e + dl)) by (apply Rmult_le_compat_l; lra).
    assert (B : 0 <= q * (1 - 2 * q) * e') by (apply Rmult_le_pos; [apply Rmult_le_pos; lra|exact Hp]).
    assert (C : (1 + 2 * q) * dl <= 2 * dl) by (apply Rmult_le_compat_r; lra).
    replace ((1 + 2 * q) * (e' - q * e')) with (e' + q * (1 - 2 * q) * e') in A by ring.
    lra.
  - assert (0 <= (1 + 2 * q) * e) by (apply Rmult_le_pos; lra). lra.
Qed.

(* ---- implicit Euler: any solution of the step equations converges, order one, max norm *)
Lemma impl_euler_error (F : list R -> R -> list R) (n : nat) (x : nat -> R -> R) (t0 T L K : R) (M : nat)
      (Y : nat -> list R) :
  0 < T -> 0 < L -> 0 <= K -> (0 < M)%nat ->
  let h := T / INR M in
  h * L <= 1 / 2 ->
  (forall j, (j <= M)%nat -> length (Y j) = n) ->
  (forall i, (i < n)%nat -> nth i (Y 0%nat) 0 = x i t0) ->
  (forall j i, (j < M)%nat -> (i < n)%nat ->
     nth i (Y (S j)) 0 = nth i (Y j) 0 + h * nth i (F (Y (S j)) (t0 + INR j * h + h)) 0) ->
  (forall i t, (i < n)%nat -> t0 <= t <= t0 + T -> is_derive (x i) t (nth i (F (xvec n x t) t) 0)) ->
  (forall i t, (i < n)%nat -> t0 <= t <= t0 + T -> ex_derive_n (x i) 2 t) ->
  (forall i t, (i < n)%nat -> t0 <= t <= t0 + T -> Rabs (Derive_n (x i) 2 t) <= K) ->
  (forall i t X Y', (i < n)%nat -> t0 <= t <= t0 + T -> length X = n -> length Y' = n ->
     Rabs (nth i (F X t) 0 - nth i (F Y' t) 0) <= L * dist_max n X Y') ->
  forall j, (j <= M)%nat ->
    dist_max n (Y j) (xvec n x (t0 + INR j * h)) <= (3 * K * ((exp (T * (2 * L)) - 1) / (2 * L))) * h.
Proof.
  intros HT HL HK0 HM h HhL HlenY HY0 Hstep Hsol Hex2 HK Hlip j Hj.
  assert (HMr : 0 < INR M) by (apply lt_0_INR; exact HM).
  assert (Hh : 0 < h) by (apply Rdiv_lt_0_compat; assumption).
  set (q := h * L) in *.
  assert (Hq0 : 0 <= q) by (apply Rmult_le_pos; lra).
  set (e := fun k : nat => if (k <=? M)%nat then dist_max n (Y k) (xvec n x (t0 + INR k * h)) else 0).
  assert (He0 : forall k, 0 <= e k).
  { intro k. unfold e. destruct (k <=? M)%nat; [apply dist_max_nonneg|lra]. }
  assert (Hej : e j = dist_max n (Y j) (xvec n x (t0 + INR j * h))).
  { unfold e. apply Nat.leb_le in Hj. rewrite Hj. reflexivity. }
  rewrite <- Hej.
  replace (3 * K * ((exp (T * (2 * L)) - 1) / (2 * L)) * h)
    with (3 * K * ((exp (T * (2 * L)) - 1) / (2 * L)) * h ^ 1) by (rewrite pow_1; reflexivity).
  apply (global_error_order e h (2 * L) (3 * K) T 1 j Hh); [lra|lra| | |].
  - unfold e. cbn [Nat.leb INR]. rewrite Rmult_0_l, Rplus_0_r.
    apply Rle_antisym; [|apply dist_max_nonneg].
    apply dist_max_le; [lra|]. intros i Hi. rewrite nth_xvec, HY0 by exact Hi.
    replace (x i t0 - x i t0) with 0 by ring. rewrite Rabs_R0. lra.
  - apply (grid_le T M j HT HM Hj).
  - intro k.
    assert (Hpos : 0 <= (1 + h * (2 * L)) * e k + 3 * K * h ^ 2).
    { specialize (He0 k).
      assert (0 <= h * (2 * L)) by (apply Rmult_le_pos; lra).
      assert (0 <= (1 + h * (2 * L)) * e k) by (apply Rmult_le_pos; lra).
      assert (0 <= 3 * K * h ^ 2) by (apply Rmult_le_pos; [lra|apply pow2_ge_0]). lra. }
    unfold e at 1. destruct (S k <=? M)%nat eqn:Hk; [|exact Hpos].
    apply Nat.leb_le in Hk.
    assert (Hk' : (k <=? M)%nat = true) by (apply Nat.leb_le; lia).
    assert (Eek : e k = dist_max n (Y k) (xvec n x (t0 + INR k * h))) by (unfold e; rewrite Hk'; reflexivity).
    rewrite Eek.
    set (tk := t0 + INR k * h).
    pose proof (grid_le T M k HT HM ltac:(lia)) as Gk. fold h in Gk.
    pose proof (grid_le T M (S k) HT HM Hk) as Gk1. fold h in Gk1.
    rewrite S_INR in Gk1.
    replace (t0 + INR (S k) * h) with (tk + h) by (rewrite S_INR; unfold tk; ring).
    assert (Itk : t0 <= tk <= t0 + T) by (unfold tk; lra).
    assert (Itk1 : t0 <= tk + h <= t0 + T) by (unfold tk; lra).
    assert (Isub : forall t, tk <= t <= tk + h -> t0 <= t <= t0 + T).
    { intros t Ht. unfold tk in *. lra. }
    set (ek := dist_max n (Y k) (xvec n x tk)).
    set (e' := dist_max n (Y (S k)) (xvec n x (tk + h))).
    assert (Hek : 0 <= ek) by apply dist_max_nonneg.
    set (dl := 3 / 2 * K * h ^ 2).
    assert (Hdl : 0 <= dl) by (unfold dl; apply Rmult_le_pos; [lra|apply pow2_ge_0]).
    assert (Himp : e' <= ek + q * e' + dl).
    { apply dist_max_le.
      { assert (0 <= q * e') by (apply Rmult_le_pos; [exact Hq0|apply dist_max_nonneg]). lra. }
      intros i Hi.
      rewrite (Hstep k i ltac:(lia) Hi). fold tk. rewrite !nth_xvec by exact Hi.
      set (Fy := nth i (F (Y (S k)) (tk + h)) 0).
      set (Fx := nth i (F (xvec n x (tk + h)) (tk + h)) 0).
      assert (R := back_defect (x i) tk h K Hh
        (fun t Ht => ex_intro _ _ (Hsol i t Hi (Isub t Ht)))
        (fun t Ht => Hex2 i t Hi (Isub t Ht)) (fun t Ht => HK i t Hi (Isub t Ht))).
      rewrite (is_derive_unique _ _ _ (Hsol i (tk + h) Hi Itk1)) in R. fold Fx dl in R.
      pose proof (Hlip i (tk + h) (Y (S k)) (xvec n x (tk + h)) Hi Itk1
                    (HlenY (S k) Hk) (length_xvec n x (tk + h))) as Lp.
      fold Fy Fx e' in Lp.
      pose proof (dist_max_ge n (Y k) (xvec n x tk) i Hi) as Dg.
      rewrite nth_xvec in Dg by exact Hi. fold ek in Dg.
      replace (nth i (Y k) 0 + h * Fy - x i (tk + h))
        with ((nth i (Y k) 0 - x i tk) + h * (Fy - Fx) + (x i tk + h * Fx - x i (tk + h))) by ring.
      eapply Rle_trans; [apply Rabs_triang|].
      eapply Rle_trans; [apply Rplus_le_compat_r; apply Rabs_triang|].
      rewrite Rabs_mult, (Rabs_pos_eq h) by lra.
      assert (h * Rabs (Fy - Fx) <= h * (L * e')) by (apply Rmult_le_compat_l; lra).
      unfold q. lra. }
    pose proof (implicit_solve e' ek dl q ltac:(lra) Hek Hdl Himp) as Sol.
    unfold dl, q in Sol. lra.
Qed.

Lemma o2_R_nz : (@o2 R ROps) <> 0.
Proof. unfold o2. cbn. lra. Qed.

(* ---- DirectCollocation, radau degree 1, as modelled: the collocation rows (Pidot = f at the root) and the
   continuity rows (D-combination = next start state) of M consecutive integration steps of size h *)
Theorem dc_radau1_converges (F : list R -> R -> list R) (n : nat) (x : nat -> R -> R) (t0 T L K : R) (M : nat)
        (Y Yc : nat -> list R) :
  0 < T -> 0 < L -> 0 <= K -> (0 < M)%nat ->
  let h := T / INR M in
  h * L <= 1 / 2 ->
  (forall j, (j <= M)%nat -> length (Y j) = n) ->
  (forall j, (j < M)%nat -> length (Yc j) = n) ->
  Y 0%nat = xvec n x t0 ->
  (* collocation row of step j, root time = step start + h * tau_0, tau = [1] *)
  (forall j, (j < M)%nat ->
     @vdivs R ROps (@wsum R ROps (@col R ROps (@coeff_C R ROps [1]) 0) [Y j; Yc j]) h
     = F (Yc j) (t0 + INR j * h + h * 1)) ->
  (* continuity row of step j *)
  (forall j, (j < M)%nat -> @wsum R ROps (@coeff_D R ROps [1]) [Y j; Yc j] = Y (S j)) ->
  (forall i t, (i < n)%nat -> t0 <= t <= t0 + T -> is_derive (x i) t (nth i (F (xvec n x t) t) 0)) ->
  (forall i t, (i < n)%nat -> t0 <= t <= t0 + T -> ex_derive_n (x i) 2 t) ->
  (forall i t, (i < n)%nat -> t0 <= t <= t0 + T -> Rabs (Derive_n (x i) 2 t) <= K) ->
  (forall i t X Y', (i < n)%nat -> t0 <= t <= t0 + T -> length X = n -> length Y' = n ->
     Rabs (nth i (F X t) 0 - nth i (F Y' t) 0) <= L * dist_max n X Y') ->
  forall j i, (j <= M)%nat -> (i < n)%nat ->
    Rabs (nth i (Y j) 0 - x i (t0 + INR j * h)) <= (3 * K * ((exp (T * (2 * L)) - 1) / (2 * L))) * h.
Proof.
  intros HT HL HK0 HM h HhL HlenY HlenYc HY0 Hcol Hcont Hsol Hex2 HK Hlip j i Hj Hi.
  assert (HMr : 0 < INR M) by (apply lt_0_INR; exact HM).
  assert (Hh : 0 < h) by (apply Rdiv_lt_0_compat; assumption).
  assert (Hnext : forall k, (k < M)%nat -> Y (S k) = Yc k).
  { intros k Hk. rewrite <- (Hcont k Hk).
    apply (@cont_lhs_radau1_vec R ROps R_field_laws). rewrite HlenY, HlenYc by lia. reflexivity. }
  pose proof (impl_euler_error F n x t0 T L K M Y HT HL HK0 HM) as E. cbv zeta in E. fold h in E.
  rewrite <- (nth_xvec n x (t0 + INR j * h) i Hi).
  eapply Rle_trans; [apply (dist_max_ge n _ _ i Hi)|].
  apply E; auto.
  - intros s Hs. rewrite HY0. apply nth_xvec. exact Hs.
  - intros k s Hk Hs.
    pose proof (@colloc_lhs_radau1 R ROps R_field_laws h (Y k) (Yc k) s (Rgt_not_eq h 0 Hh)) as C.
    cbn [o1 ROps] in C. rewrite (Hcol k Hk) in C. unfold vnth in C. cbn [o0 ROps osub odiv] in C.
    rewrite Rmult_1_r in C. rewrite (Hnext k Hk), C. field. lra.
Qed.

(* ---- implicit midpoint: any solution of the step equations converges (order at least one), max norm *)
Lemma impl_midpoint_error (F : list R -> R -> list R) (n : nat) (x : nat -> R -> R) (t0 T L K : R) (M : nat)
      (Y Yc : nat -> list R) :
  0 < T -> 0 < L -> 0 <= K -> (0 < M)%nat ->
  let h := T / INR M in
  h * L <= 1 / 2 ->
  (forall j, (j <= M)%nat -> length (Y j) = n) ->
  (forall j, (j < M)%nat -> length (Yc j) = n) ->
  (forall i, (i < n)%nat -> nth i (Y 0%nat) 0 = x i t0) ->
  (forall j i, (j < M)%nat -> (i < n)%nat ->
     nth i (Yc j) 0 = nth i (Y j) 0 + h / 2 * nth i (F (Yc j) (t0 + INR j * h + h / 2)) 0) ->
  (forall j i, (j < M)%nat -> (i < n)%nat -> nth i (Y (S j)) 0 = 2 * nth i (Yc j) 0 - nth i (Y j) 0) ->
  (forall i t, (i < n)%nat -> t0 <= t <= t0 + T -> is_derive (x i) t (nth i (F (xvec n x t) t) 0)) ->
  (forall i t, (i < n)%nat -> t0 <= t <= t0 + T -> ex_derive_n (x i) 2 t) ->
  (forall i t, (i < n)%nat -> t0 <= t <= t0 + T -> Rabs (Derive_n (x i) 2 t) <= K) ->
  (forall i t X Y', (i < n)%nat -> t0 <= t <= t0 + T -> length X = n -> length Y' = n ->
     Rabs (nth i (F X t) 0 - nth i (F Y' t) 0) <= L * dist_max n X Y') ->
  forall j, (j <= M)%nat ->
    dist_max n (Y j) (xvec n x (t0 + INR j * h)) <= (2 * K * ((exp (T * (2 * L)) - 1) / (2 * L))) * h.
Proof.
  intros HT HL HK0 HM h HhL HlenY HlenYc HY0 Hc Hn Hsol Hex2 HK Hlip j Hj.
  assert (HMr : 0 < INR M) by (apply lt_0_INR; exact HM).
  assert (Hh : 0 < h) by (apply Rdiv_lt_0_compat; assumption).
  set (q := h * L) in *.
  assert (Hq0 : 0 <= q) by (apply Rmult_le_pos; lra).
  set (e := fun k : nat => if (k <=? M)%nat then dist_max n (Y k) (xvec n x (t0 + INR k * h)) else 0).
  assert (He0 : forall k, 0 <= e k).
  { intro k. unfold e. destruct (k <=? M)%nat; [apply dist_max_nonneg|lra]. }
  assert (Hej : e j = dist_max n (Y j) (xvec n x (t0 + INR j * h))).
  { unfold e. apply Nat.leb_le in Hj. rewrite Hj. reflexivity. }
  rewrite <- Hej.
  replace (2 * K * ((exp (T * (2 * L)) - 1) / (2 * L)) * h)
    with (2 * K * ((exp (T * (2 * L)) - 1) / (2 * L)) * h ^ 1) by (rewrite pow_1; reflexivity).
  apply (global_error_order e h (2 * L) (2 * K) T 1 j Hh); [lra|lra| | |].
  - unfold e. cbn [Nat.leb INR]. rewrite Rmult_0_l, Rplus_0_r.
    apply Rle_antisym; [|apply dist_max_nonneg].
    apply dist_max_le; [lra|]. intros i Hi. rewrite nth_xvec, HY0 by exact Hi.
    replace (x i t0 - x i t0) with 0 by ring. rewrite Rabs_R0. lra.
  - apply (grid_le T M j HT HM Hj).
  - intro k.
    assert (Hpos : 0 <= (1 + h * (2 * L)) * e k + 2 * K * h ^ 2).
    { specialize (He0 k).
      assert (0 <= h * (2 * L)) by (apply Rmult_le_pos; lra).
      assert (0 <= (1 + h * (2 * L)) * e k) by (apply Rmult_le_pos; lra).
      assert (0 <= 2 * K * h ^ 2) by (apply Rmult_le_pos; [lra|apply pow2_ge_0]). lra. }
    unfold e at 1. destruct (S k <=? M)%nat eqn:Hk; [|exact Hpos].
    apply Nat.leb_le in Hk.
    assert (Hk' : (k <=? M)%nat = true) by (apply Nat.leb_le; lia).
    assert (Eek : e k = dist_max n (Y k) (xvec n x (t0 + INR k * h))) by (unfold e; rewrite Hk'; reflexivity).
    rewrite Eek. rewrite Eek in Hpos.
    set (tk := t0 + INR k * h).
    pose proof (grid_le T M k HT HM ltac:(lia)) as Gk. fold h in Gk.
    pose proof (grid_le T M (S k) HT HM Hk) as Gk1. fold h in Gk1.
    rewrite S_INR in Gk1.
    replace (t0 + INR (S k) * h) with (tk + h) by (rewrite S_INR; unfold tk; ring).
    assert (Itk : t0 <= tk <= t0 + T) by (unfold tk; lra).
    assert (Itm : t0 <= tk + h / 2 <= t0 + T) by (unfold tk; lra).
    assert (Isub : forall t, tk <= t <= tk + h -> t0 <= t <= t0 + T).
    { intros t Ht. unfold tk in *. lra. }
    assert (Isubh : forall t, tk <= t <= tk + h / 2 -> t0 <= t <= t0 + T).
    { intros t Ht. unfold tk in *. lra. }
    set (tm := tk + h / 2) in *.
    set (ek := dist_max n (Y k) (xvec n x tk)).
    set (em := dist_max n (Yc k) (xvec n x tm)).
    assert (Hek : 0 <= ek) by apply dist_max_nonneg.
    assert (Hem : 0 <= em) by apply dist_max_nonneg.
    assert (Hk2 : 0 <= K * h ^ 2) by (apply Rmult_le_pos; [lra|apply pow2_ge_0]).
    set (rho := 3 / 8 * (K * h ^ 2)).
    (* the helper state against x(tm): an implicit Euler step of size h/2 *)
    assert (Himp : em <= ek + q / 2 * em + rho).
    { apply dist_max_le.
      { assert (0 <= q / 2 * em) by (apply Rmult_le_pos; lra). unfold rho. lra. }
      intros i Hi.
      rewrite (Hc k i ltac:(lia) Hi). fold tk tm. rewrite !nth_xvec by exact Hi.
      set (Fy := nth i (F (Yc k) tm) 0).
      set (Fx := nth i (F (xvec n x tm) tm) 0).
      assert (R := back_defect (x i) tk (h / 2) K ltac:(lra)
        (fun t Ht => ex_intro _ _ (Hsol i t Hi (Isubh t Ht)))
        (fun t Ht => Hex2 i t Hi (Isubh t Ht)) (fun t Ht => HK i t Hi (Isubh t Ht))).
      fold tm in R. rewrite (is_derive_unique _ _ _ (Hsol i tm Hi Itm)) in R. fold Fx in R.
      replace (3 / 2 * K * (h / 2) ^ 2) with rho in R by (unfold rho; field).
      pose proof (Hlip i tm (Yc k) (xvec n x tm) Hi Itm (HlenYc k Hk) (length_xvec n x tm)) as Lp.
      fold Fy Fx em in Lp.
      pose proof (dist_max_ge n (Y k) (xvec n x tk) i Hi) as Dg.
      rewrite nth_xvec in Dg by exact Hi. fold ek in Dg.
      replace (nth i (Y k) 0 + h / 2 * Fy - x i tm)
        with ((nth i (Y k) 0 - x i tk) + h / 2 * (Fy - Fx) + (x i tk + h / 2 * Fx - x i tm)) by ring.
      eapply Rle_trans; [apply Rabs_triang|].
      eapply Rle_trans; [apply Rplus_le_compat_r; apply Rabs_triang|].
      rewrite Rabs_mult, (Rabs_pos_eq (h / 2)) by lra.
      assert (h / 2 * Rabs (Fy - Fx) <= h / 2 * (L * em)) by (apply Rmult_le_compat_l; lra).
      unfold q. lra. }
    assert (Hrho : 0 <= rho) by (unfold rho; lra).
    pose proof (implicit_solve em ek rho (q / 2) ltac:(lra) Hek Hrho Himp) as Sol.
    (* the step *)
    apply dist_max_le; [exact Hpos|]. intros i Hi.
    rewrite (Hn k i ltac:(lia) Hi), (Hc k i ltac:(lia) Hi). fold tk tm. rewrite !nth_xvec by exact Hi.
    set (Fy := nth i (F (Yc k) tm) 0).
    set (Fx := nth i (F (xvec n x tm) tm) 0).
    assert (R := mid_defect (x i) tk h K Hh
      (fun t Ht => ex_intro _ _ (Hsol i t Hi (Isub t Ht)))
      (fun t Ht => Hex2 i t Hi (Isub t Ht)) (fun t Ht => HK i t Hi (Isub t Ht))).
    fold tm in R. rewrite (is_derive_unique _ _ _ (Hsol i tm Hi Itm)) in R. fold Fx in R.
    pose proof (Hlip i tm (Yc k) (xvec n x tm) Hi Itm (HlenYc k Hk) (length_xvec n x tm)) as Lp.
    fold Fy Fx em in Lp.
    pose proof (dist_max_ge n (Y k) (xvec n x tk) i Hi) as Dg.
    rewrite nth_xvec in Dg by exact Hi. fold ek in Dg.
    replace (2 * (nth i (Y k) 0 + h / 2 * Fy) - nth i (Y k) 0 - x i (tk + h))
      with ((nth i (Y k) 0 - x i tk) + h * (Fy - Fx) + (x i tk + h * Fx - x i (tk + h))) by field.
    eapply Rle_trans; [apply Rabs_triang|].
    eapply Rle_trans; [apply Rplus_le_compat_r; apply Rabs_triang|].
    rewrite Rabs_mult, (Rabs_pos_eq h) by lra.
    assert (A1 : h * Rabs (Fy - Fx) <= q * em).
    { unfold q. rewrite Rmult_assoc. apply Rmult_le_compat_l; lra. }
    assert (A2 : q * em <= q * ((1 + 2 * (q / 2)) * ek + 2 * rho)) by (apply Rmult_le_compat_l; lra).
    assert (A3 : q * ((1 + q) * ek) <= 2 * q * ek).
    { replace (q * ((1 + q) * ek)) with (q * (1 + q) * ek) by ring.
      apply Rmult_le_compat_r; [exact Hek|]. nra. }
    assert (A4 : q * (2 * rho) <= rho) by nra.
    replace (1 + 2 * (q / 2)) with (1 + q) in A2 by field.
    replace (q * ((1 + q) * ek + 2 * rho)) with (q * ((1 + q) * ek) + q * (2 * rho)) in A2 by ring.
    replace ((1 + h * (2 * L)) * ek) with (ek + 2 * q * ek) by (unfold q; ring).
    unfold rho in *. lra.
Qed.

(* ---- DirectCollocation, legendre degree 1, as modelled *)
Theorem dc_legendre1_converges (F : list R -> R -> list R) (n : nat) (x : nat -> R -> R) (t0 T L K : R) (M : nat)
        (Y Yc : nat -> list R) :
  0 < T -> 0 < L -> 0 <= K -> (0 < M)%nat ->
  let h := T / INR M in
  h * L <= 1 / 2 ->
  (forall j, (j <= M)%nat -> length (Y j) = n) ->
  (forall j, (j < M)%nat -> length (Yc j) = n) ->
  Y 0%nat = xvec n x t0 ->
  (* collocation row of step j, root time = step start + h * tau_0, tau = [1/2] *)
  (forall j, (j < M)%nat ->
     @vdivs R ROps (@wsum R ROps (@col R ROps (@coeff_C R ROps [1 / 2]) 0) [Y j; Yc j]) h
     = F (Yc j) (t0 + INR j * h + h * (1 / 2))) ->
  (* continuity row of step j *)
  (forall j, (j < M)%nat -> @wsum R ROps (@coeff_D R ROps [1 / 2]) [Y j; Yc j] = Y (S j)) ->
  (forall i t, (i < n)%nat -> t0 <= t <= t0 + T -> is_derive (x i) t (nth i (F (xvec n x t) t) 0)) ->
  (forall i t, (i < n)%nat -> t0 <= t <= t0 + T -> ex_derive_n (x i) 2 t) ->
  (forall i t, (i < n)%nat -> t0 <= t <= t0 + T -> Rabs (Derive_n (x i) 2 t) <= K) ->
  (forall i t X Y', (i < n)%nat -> t0 <= t <= t0 + T -> length X = n -> length Y' = n ->
     Rabs (nth i (F X t) 0 - nth i (F Y' t) 0) <= L * dist_max n X Y') ->
  forall j i, (j <= M)%nat -> (i < n)%nat ->
    Rabs (nth i (Y j) 0 - x i (t0 + INR j * h)) <= (2 * K * ((exp (T * (2 * L)) - 1) / (2 * L))) * h.
Proof.
  intros HT HL HK0 HM h HhL HlenY HlenYc HY0 Hcol Hcont Hsol Hex2 HK Hlip j i Hj Hi.
  assert (HMr : 0 < INR M) by (apply lt_0_INR; exact HM).
  assert (Hh : 0 < h) by (apply Rdiv_lt_0_compat; assumption).
  pose proof (impl_midpoint_error F n x t0 T L K M Y Yc HT HL HK0 HM) as E. cbv zeta in E. fold h in E.
  rewrite <- (nth_xvec n x (t0 + INR j * h) i Hi).
  eapply Rle_trans; [apply (dist_max_ge n _ _ i Hi)|].
  apply E; auto.
  - intros s Hs. rewrite HY0. apply nth_xvec. exact Hs.
  - intros k s Hk Hs.
    pose proof (@colloc_lhs_legendre1 R ROps R_field_laws h (Y k) (Yc k) s o2_R_nz (Rgt_not_eq h 0 Hh)) as C.
    change (@odiv R ROps (@o1 R ROps) (@o2 R ROps)) with (1 / 2) in C.
    rewrite (Hcol k Hk) in C. unfold vnth, o2 in C. cbn [o0 o1 ROps osub odiv omul oadd] in C.
    replace (t0 + INR k * h + h * (1 / 2)) with (t0 + INR k * h + h / 2) in C by field.
    rewrite C. field. lra.
  - intros k s Hk Hs. rewrite <- (Hcont k Hk).
    pose proof (@cont_lhs_legendre1 R ROps R_field_laws (Y k) (Yc k) s o2_R_nz) as C.
    change (@odiv R ROps (@o1 R ROps) (@o2 R ROps)) with (1 / 2) in C.
    unfold vnth, o2 in C. cbn [o0 o1 ROps osub odiv omul oadd] in C. rewrite C. ring.
Qed.

(* ================================================================== Part 3: the quadrature of radau-1 *)
(* increment of G over a step, from the bound on G' *)
Lemma fun_increment (G : R -> R) (a h D : R) :
  0 < h -> (forall t, ex_derive G t) -> (forall t, a <= t <= a + h -> Rabs (Derive G t) <= D) ->
  Rabs (G (a + h) - G a) <= D * h.
Proof.
  intros Hh HG HD.
  destruct (MVT_gen G a (a + h) (Derive G)) as (c & Hc & E).
  - intros t _. apply Derive_correct. apply HG.
  - intros t _. apply continuity_pt_filterlim. apply (ex_derive_continuous G t). apply HG.
  - rewrite Rmin_left, Rmax_right in Hc by lra. rewrite E.
    replace (a + h - a) with h by ring. rewrite Rabs_mult, (Rabs_pos_eq h) by lra.
    apply Rmult_le_compat_r; [lra|apply HD; exact Hc].
Qed.

(* q += quad * dt * B[j] with B = coeff_B [1]: the right-endpoint rule on the helper states *)
Theorem dc_radau1_integral_converges (F : list R -> R -> list R) (g : list R -> R -> R) (n : nat)
        (x : nat -> R -> R) (t0 T L Lg K D : R) (M : nat) (Y Yc : nat -> list R) (Qs : nat -> R) :
  0 < T -> 0 < L -> 0 <= K -> 0 <= Lg -> (0 < M)%nat ->
  let h := T / INR M in
  h * L <= 1 / 2 ->
  (forall j, (j <= M)%nat -> length (Y j) = n) ->
  (forall j, (j < M)%nat -> length (Yc j) = n) ->
  Y 0%nat = xvec n x t0 ->
  (forall j, (j < M)%nat ->
     @vdivs R ROps (@wsum R ROps (@col R ROps (@coeff_C R ROps [1]) 0) [Y j; Yc j]) h
     = F (Yc j) (t0 + INR j * h + h * 1)) ->
  (forall j, (j < M)%nat -> @wsum R ROps (@coeff_D R ROps [1]) [Y j; Yc j] = Y (S j)) ->
  (* the quadrature accumulator *)
  Qs 0%nat = 0 ->
  (forall j, (j < M)%nat ->
     Qs (S j) = Qs j + nth 0 (@coeff_B R ROps [1]) 0 * (h * g (Yc j) (t0 + INR j * h + h * 1))) ->
  (forall i t, (i < n)%nat -> t0 <= t <= t0 + T -> is_derive (x i) t (nth i (F (xvec n x t) t) 0)) ->
  (forall i t, (i < n)%nat -> t0 <= t <= t0 + T -> ex_derive_n (x i) 2 t) ->
  (forall i t, (i < n)%nat -> t0 <= t <= t0 + T -> Rabs (Derive_n (x i) 2 t) <= K) ->
  (forall i t X Y', (i < n)%nat -> t0 <= t <= t0 + T -> length X = n -> length Y' = n ->
     Rabs (nth i (F X t) 0 - nth i (F Y' t) 0) <= L * dist_max n X Y') ->
  (forall t X Y', t0 <= t <= t0 + T -> length X = n -> length Y' = n ->
     Rabs (g X t - g Y' t) <= Lg * dist_max n X Y') ->
  (forall t, ex_derive (fun s => g (xvec n x s) s) t) ->
  (forall t, t0 <= t <= t0 + T -> Rabs (Derive (fun s => g (xvec n x s) s) t) <= D) ->
  Rabs (Qs M - RInt (fun s => g (xvec n x s) s) t0 (t0 + T))
  <= (T * (Lg * (3 * K * ((exp (T * (2 * L)) - 1) / (2 * L))) + 3 / 2 * D)) * h.
Proof.
  intros HT HL HK0 HLg HM h HhL HlenY HlenYc HY0 Hcol Hcont HQ0 HQs Hsol Hex2 HK Hlip Hglip HG HD.
  assert (HMr : 0 < INR M) by (apply lt_0_INR; exact HM).
  assert (Hh : 0 < h) by (apply Rdiv_lt_0_compat; assumption).
  assert (Hnext : forall k, (k < M)%nat -> Y (S k) = Yc k).
  { intros k Hk. rewrite <- (Hcont k Hk).
    apply (@cont_lhs_radau1_vec R ROps R_field_laws). rewrite HlenY, HlenYc by lia. reflexivity. }
  assert (Hstep : forall k s, (k < M)%nat -> (s < n)%nat ->
            nth s (Y (S k)) 0 = nth s (Y k) 0 + h * nth s (F (Y (S k)) (t0 + INR k * h + h)) 0).
  { intros k s Hk Hs.
    pose proof (@colloc_lhs_radau1 R ROps R_field_laws h (Y k) (Yc k) s (Rgt_not_eq h 0 Hh)) as C.
    cbn [o1 ROps] in C. rewrite (Hcol k Hk) in C. unfold vnth in C. cbn [o0 ROps osub odiv] in C.
    rewrite Rmult_1_r in C. rewrite (Hnext k Hk), C. field. lra. }
  set (E := 3 * K * ((exp (T * (2 * L)) - 1) / (2 * L))).
  assert (Herr : forall j, (j <= M)%nat -> dist_max n (Y j) (xvec n x (t0 + INR j * h)) <= E * h).
  { intros j Hj.
    pose proof (impl_euler_error F n x t0 T L K M Y HT HL HK0 HM) as Er. cbv zeta in Er. fold h in Er.
    apply Er; auto. intros s Hs. rewrite HY0. apply nth_xvec. exact Hs. }
  assert (HB1 : nth 0 (@coeff_B R ROps [1]) 0 = 1).
  { pose proof (@coeff_B_deg1 R ROps R_field_laws 1) as B. rewrite B. reflexivity. }
  set (G := fun s => g (xvec n x s) s) in *.
  set (A := fun t => RInt G t0 t).
  assert (HA : forall t, is_derive A t (G t)).
  { intro t. apply (is_derive_RInt G A t0 t).
    - apply filter_forall. intro b. apply (@RInt_correct R_CompleteNormedModule).
      apply (@ex_RInt_continuous R_CompleteNormedModule). intros z _.
      apply (ex_derive_continuous G z). apply HG.
    - apply (ex_derive_continuous G t). apply HG. }
  assert (Hind : forall k, (k <= M)%nat ->
            Rabs (Qs k - A (t0 + INR k * h)) <= INR k * ((Lg * E + 3 / 2 * D) * h ^ 2)).
  { induction k as [|k IH]; intro Hk.
    - unfold A. cbn [INR]. rewrite HQ0, !Rmult_0_l, Rplus_0_r.
      rewrite RInt_point. unfold zero. cbn. rewrite Rminus_0_r, Rabs_R0. lra.
    - specialize (IH ltac:(lia)).
      set (tk := t0 + INR k * h) in *.
      pose proof (grid_le T M k HT HM ltac:(lia)) as Gk. fold h in Gk.
      pose proof (grid_le T M (S k) HT HM Hk) as Gk1. fold h in Gk1.
      assert (Etk1 : t0 + INR (S k) * h = tk + h) by (rewrite S_INR; unfold tk; ring).
      pose proof (Herr (S k) Hk) as Ek. rewrite Etk1, (Hnext k ltac:(lia)) in Ek.
      rewrite S_INR in Gk1. rewrite Etk1.
      assert (Itk : t0 <= tk <= t0 + T) by (unfold tk; lra).
      assert (Itk1 : t0 <= tk + h <= t0 + T) by (unfold tk; lra).
      rewrite (HQs k ltac:(lia)), HB1, Rmult_1_l, Rmult_1_r. fold tk.
      pose proof (Hglip (tk + h) (Yc k) (xvec n x (tk + h)) Itk1 (HlenYc k ltac:(lia)) (length_xvec n x (tk + h))) as Lp.
      change (g (xvec n x (tk + h)) (tk + h)) with (G (tk + h)) in Lp.
      assert (Isub : forall t, tk <= t <= tk + h -> t0 <= t <= t0 + T) by (intros t Ht; lra).
      assert (R1 : Rabs (A (tk + h) - A tk - h * G tk) <= D / 2 * h ^ 2).
      { apply rect_local; [exact Hh|exact HA|exact HG|]. intros t Ht. apply HD. apply Isub. exact Ht. }
      assert (R2 : Rabs (G (tk + h) - G tk) <= D * h).
      { apply fun_increment; [exact Hh|exact HG|]. intros t Ht. apply HD. apply Isub. exact Ht. }
      set (d := dist_max n (Yc k) (xvec n x (tk + h))) in *.
      assert (Lp2 : Lg * d <= Lg * (E * h)) by (apply Rmult_le_compat_l; assumption).
      set (u := Qs k - A tk) in *. set (v := g (Yc k) (tk + h) - G (tk + h)) in *.
      set (r := A (tk + h) - A tk - h * G tk) in *. set (w := G (tk + h) - G tk) in *.
      replace (Qs k + h * g (Yc k) (tk + h) - A (tk + h)) with (u + h * v + - r + h * w)
        by (unfold u, v, r, w; ring).
      eapply Rle_trans; [apply Rabs_triang|].
      eapply Rle_trans; [apply Rplus_le_compat_r; apply Rabs_triang|]. rewrite Rabs_Ropp.
      eapply Rle_trans; [apply Rplus_le_compat_r; apply Rplus_le_compat_r; apply Rabs_triang|].
      rewrite !Rabs_mult, (Rabs_pos_eq h) by lra.
      assert (h * Rabs v <= h * (Lg * (E * h))) by (apply Rmult_le_compat_l; lra).
      assert (h * Rabs w <= h * (D * h)) by (apply Rmult_le_compat_l; lra).
      rewrite S_INR. cbn [pow] in *. lra. }
  specialize (Hind M (le_n M)).
  assert (EM : INR M * h = T) by (unfold h; field; lra).
  rewrite EM in Hind. fold (A (t0 + T)).
  eapply Rle_trans; [exact Hind|].
  replace (INR M * ((Lg * E + 3 / 2 * D) * h ^ 2)) with (INR M * h * (Lg * E + 3 / 2 * D) * h) by ring.
  rewrite EM. apply Rle_refl.
Qed.

(* ================================================================== examples *)
(* the coefficients computed by the model at the exact rationals *)
Example coeff_radau1_Qc :
  (map (map this) (@coeff_C Qc QcOps [Q2Qc 1]), map this (@coeff_D Qc QcOps [Q2Qc 1]),
   map this (@coeff_B Qc QcOps [Q2Qc 1]))
  = ([[-1]; [1]], [0; 1], [1])%Q.
Proof. vm_compute. reflexivity. Qed.

Example coeff_legendre1_Qc :
  (map (map this) (@coeff_C Qc QcOps [Q2Qc (1 # 2)]), map this (@coeff_D Qc QcOps [Q2Qc (1 # 2)]),
   map this (@coeff_B Qc QcOps [Q2Qc (1 # 2)]))
  = ([[-2]; [2]], [-1; 2], [1])%Q.
Proof. vm_compute. reflexivity. Qed.

(* x' = -x, x = exp(-t): the implicit Euler sequence y_{j+1} = y_j / (1 + h) solves the radau-1 rows *)
Lemma Derive_n_exp_opp k t : Derive_n (fun s => exp (- s)) k t = (-1) ^ k * exp (- t).
Proof.
  rewrite Derive_n_comp_opp.
  - rewrite Derive_n_exp. reflexivity.
  - apply filter_forall. intros y m _. apply ex_derive_n_exp.
Qed.

Lemma ex_derive_n_exp_opp k t : ex_derive_n (fun s => exp (- s)) k t.
Proof.
  apply ex_derive_n_comp_opp. apply filter_forall. intros y m _. apply ex_derive_n_exp.
Qed.

Example dc_radau1_decay (t0 T : R) (M : nat) :
  0 < T -> (0 < M)%nat ->
  let h := T / INR M in
  h * 1 <= 1 / 2 ->
  let F := fun (X : list R) (_ : R) => [- nth 0 X 0] in
  let Y := fun j : nat => [exp (- t0) / (1 + h) ^ j] in
  let Yc := fun j : nat => Y (S j) in
  (* the rows hold *)
  (forall j, @vdivs R ROps (@wsum R ROps (@col R ROps (@coeff_C R ROps [1]) 0) [Y j; Yc j]) h
             = F (Yc j) (t0 + INR j * h + h * 1)) /\
  (forall j, @wsum R ROps (@coeff_D R ROps [1]) [Y j; Yc j] = Y (S j)) /\
  (* and the sequence converges *)
  forall j, (j <= M)%nat ->
    Rabs (exp (- t0) / (1 + h) ^ j - exp (- (t0 + INR j * h)))
    <= (3 * exp (- t0) * ((exp (T * (2 * 1)) - 1) / (2 * 1))) * h.
Proof.
  intros HT HM h HhL F Y Yc.
  assert (HMr : 0 < INR M) by (apply lt_0_INR; exact HM).
  assert (Hh : 0 < h) by (apply Rdiv_lt_0_compat; assumption).
  assert (Hp : forall j, (1 + h) ^ j <> 0) by (intro j; apply pow_nonzero; lra).
  assert (Hcol : forall j, @vdivs R ROps (@wsum R ROps (@col R ROps (@coeff_C R ROps [1]) 0) [Y j; Yc j]) h
             = F (Yc j) (t0 + INR j * h + h * 1)).
  { intro j. pose proof (proj1 (@coeff_radau1 R ROps R_field_laws)) as C. cbn [o1 ROps] in C. rewrite C.
    unfold col, wsum, vdivs, F, Yc, Y. cbn [map nth vlincomb vadd vscale oopp oadd omul odiv o1 ROps pow].
    f_equal. field. split; [apply Hp|lra]. }
  assert (Hcont : forall j, @wsum R ROps (@coeff_D R ROps [1]) [Y j; Yc j] = Y (S j)).
  { intro j. apply (@cont_lhs_radau1_vec R ROps R_field_laws). reflexivity. }
  split; [exact Hcol|]. split; [exact Hcont|].
  intros j Hj.
  pose proof (dc_radau1_converges F 1 (fun _ s => exp (- s)) t0 T 1 (exp (- t0)) M Y Yc HT Rlt_0_1
                (Rlt_le _ _ (exp_pos _)) HM) as E.
  cbv zeta in E. fold h in E.
  apply (E HhL) with (i := 0%nat); try lia; clear E.
  - intros k _. reflexivity.
  - intros k _. reflexivity.
  - unfold Y, xvec. cbn [seq map pow]. f_equal. field.
  - intros k _. apply Hcol.
  - intros k _. apply Hcont.
  - intros i t Hi _. assert (i = 0%nat) by lia. subst i. unfold F, xvec. cbn [seq map nth].
    auto_derive; [exact I|]. ring.
  - intros i t _ _. apply ex_derive_n_exp_opp.
  - intros i t _ Ht. rewrite Derive_n_exp_opp. replace ((-1) ^ 2) with 1 by ring. rewrite Rmult_1_l.
    rewrite Rabs_pos_eq by (left; apply exp_pos).
    destruct Ht as [[Ht|Ht] _]; [left; apply exp_increasing; lra|rewrite Ht; apply Rle_refl].
  - intros i t X Y' Hi _ _ _. assert (i = 0%nat) by lia. subst i. unfold F. cbn [nth].
    replace (- nth 0 X 0 - - nth 0 Y' 0) with (- (nth 0 X 0 - nth 0 Y' 0)) by ring.
    rewrite Rabs_Ropp, Rmult_1_l. apply (dist_max_ge 1 X Y' 0). lia.
Qed.

(* x' = -x with the implicit midpoint rule: y_c = y_j / (1 + h/2), y_{j+1} = y_j (1 - h/2)/(1 + h/2) *)
Example dc_legendre1_decay (t0 T : R) (M : nat) :
  0 < T -> (0 < M)%nat ->
  let h := T / INR M in
  h * 1 <= 1 / 2 ->
  let F := fun (X : list R) (_ : R) => [- nth 0 X 0] in
  let y := fun j : nat => exp (- t0) * ((1 - h / 2) / (1 + h / 2)) ^ j in
  let Y := fun j : nat => [y j] in
  let Yc := fun j : nat => [y j / (1 + h / 2)] in
  (forall j, @vdivs R ROps (@wsum R ROps (@col R ROps (@coeff_C R ROps [1 / 2]) 0) [Y j; Yc j]) h
             = F (Yc j) (t0 + INR j * h + h * (1 / 2))) /\
  (forall j, @wsum R ROps (@coeff_D R ROps [1 / 2]) [Y j; Yc j] = Y (S j)) /\
  forall j, (j <= M)%nat ->
    Rabs (y j - exp (- (t0 + INR j * h))) <= (2 * exp (- t0) * ((exp (T * (2 * 1)) - 1) / (2 * 1))) * h.
Proof.
  intros HT HM h HhL F y Y Yc.
  assert (HMr : 0 < INR M) by (apply lt_0_INR; exact HM).
  assert (Hh : 0 < h) by (apply Rdiv_lt_0_compat; assumption).
  pose proof (@coeff_legendre1 R ROps R_field_laws o2_R_nz) as (CC & CD & _).
  change (@odiv R ROps (@o1 R ROps) (@o2 R ROps)) with (1 / 2) in CC, CD.
  assert (Hcol : forall j, @vdivs R ROps (@wsum R ROps (@col R ROps (@coeff_C R ROps [1 / 2]) 0) [Y j; Yc j]) h
             = F (Yc j) (t0 + INR j * h + h * (1 / 2))).
  { intro j. rewrite CC.
    unfold col, wsum, vdivs, F, Yc, Y, o2. cbn [map nth vlincomb vadd vscale oopp oadd omul odiv o1 ROps].
    f_equal. field. lra. }
  assert (Hcont : forall j, @wsum R ROps (@coeff_D R ROps [1 / 2]) [Y j; Yc j] = Y (S j)).
  { intro j. rewrite CD.
    unfold wsum, Yc, Y, y, o2. cbn [vlincomb vadd vscale map oopp oadd omul odiv o1 ROps pow].
    f_equal. field. lra. }
  split; [exact Hcol|]. split; [exact Hcont|].
  intros j Hj.
  pose proof (dc_legendre1_converges F 1 (fun _ s => exp (- s)) t0 T 1 (exp (- t0)) M Y Yc HT Rlt_0_1
                (Rlt_le _ _ (exp_pos _)) HM) as E.
  cbv zeta in E. fold h in E.
  apply (E HhL) with (i := 0%nat); try lia; clear E.
  - intros k _. reflexivity.
  - intros k _. reflexivity.
  - unfold Y, y, xvec. cbn [seq map pow]. f_equal. ring.
  - intros k _. apply Hcol.
  - intros k _. apply Hcont.
  - intros i t Hi _. assert (i = 0%nat) by lia. subst i. unfold F, xvec. cbn [seq map nth].
    auto_derive; [exact I|]. ring.
  - intros i t _ _. apply ex_derive_n_exp_opp.
  - intros i t _ Ht. rewrite Derive_n_exp_opp. replace ((-1) ^ 2) with 1 by ring. rewrite Rmult_1_l.
    rewrite Rabs_pos_eq by (left; apply exp_pos).
    destruct Ht as [[Ht|Ht] _]; [left; apply exp_increasing; lra|rewrite Ht; apply Rle_refl].
  - intros i t X Y' Hi _ _ _. assert (i = 0%nat) by lia. subst i. unfold F. cbn [nth].
    replace (- nth 0 X 0 - - nth 0 Y' 0) with (- (nth 0 X 0 - nth 0 Y' 0)) by ring.
    rewrite Rabs_Ropp, Rmult_1_l. apply (dist_max_ge 1 X Y' 0). lia.
Qed.

Print Assumptions coeff_radau1.
Print Assumptions coeff_legendre1.
Print Assumptions dc_radau1_converges.
Print Assumptions dc_legendre1_converges.
Print Assumptions dc_radau1_integral_converges.
