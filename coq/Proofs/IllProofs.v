(* C20: whatever is accepted is well posed; a single fault at any position is rejected. *)
From Coq Require Import List Bool Arith Lia.
From RV Require Import Mech.Illposed.
Import ListNotations.

Definition wellposed (s : ispec) : Prop :=
  Forall (fun b => b = true) (i_has_rule s) /\ Forall (fun b => b = true) (i_has_value s) /\
  method_ok s = true /\ i_solver s = true /\
  Forall (fun b => b = true) (i_obj_nonsignal s) /\ Forall (fun b => b = true) (i_obj_scalar s) /\
  Forall (fun b => b = true) (i_setvalue_on_param s) /\ Forall (fun b => b = true) (i_setinitial_on_var s) /\
  Forall (fun b => b = true) (i_grid_known s) /\ Forall (fun b => b = true) (i_symbols_owned s) /\
  Forall (fun b => b = true) (i_constr_not_false s) /\ i_horizon_free_ode s = true.

Lemma all_true_Forall l : all_true l = true <-> Forall (fun b => b = true) l.
Proof.
  unfold all_true. rewrite forallb_forall, Forall_forall. split; intros H x Hx; apply H; exact Hx.
Qed.

Theorem accepted_is_wellposed s : accepts s = true <-> wellposed s.
Proof.
  unfold accepts, wellposed. rewrite !andb_true_iff, !all_true_Forall. tauto.
Qed.

Lemma all_true_clear l k : k < length l -> all_true (clear_at l k) = false.
Proof.
  revert k. induction l as [|b l IH]; intros k H; [cbn in H; lia|].
  destruct k as [|k]; cbn [clear_at all_true forallb]; [reflexivity|].
  fold (all_true (clear_at l k)). rewrite IH by (cbn in H; lia). apply andb_false_r.
Qed.

(* a state without derivative / update rule at ANY position: rejected *)
Theorem missing_rule_rejected s k : k < length (i_has_rule s) ->
  accepts (mkI (clear_at (i_has_rule s) k) (i_has_value s) (i_has_dynamics s) (i_method s) (i_solver s)
               (i_obj_nonsignal s) (i_obj_scalar s) (i_setvalue_on_param s) (i_setinitial_on_var s)
               (i_grid_known s) (i_symbols_owned s) (i_constr_not_false s) (i_nalg s) (i_explicit_scheme s)
               (i_horizon_free_ode s) (i_nroots_constraints s) (i_chain_linear s)) = false.
Proof. intro H. unfold accepts. cbn -[all_true]. rewrite (all_true_clear _ _ H). reflexivity. Qed.

(* a parameter without value at ANY position: rejected *)
Theorem missing_value_rejected s k : k < length (i_has_value s) ->
  accepts (mkI (i_has_rule s) (clear_at (i_has_value s) k) (i_has_dynamics s) (i_method s) (i_solver s)
               (i_obj_nonsignal s) (i_obj_scalar s) (i_setvalue_on_param s) (i_setinitial_on_var s)
               (i_grid_known s) (i_symbols_owned s) (i_constr_not_false s) (i_nalg s) (i_explicit_scheme s)
               (i_horizon_free_ode s) (i_nroots_constraints s) (i_chain_linear s)) = false.
Proof. intro H. unfold accepts. cbn -[all_true]. rewrite (all_true_clear _ _ H). rewrite andb_false_r. reflexivity. Qed.

(* any flag list with a false entry makes the whole specification rejected *)
Theorem any_false_flag_rejected s :
  (In false (i_has_rule s) \/ In false (i_has_value s) \/ In false (i_obj_nonsignal s) \/
   In false (i_obj_scalar s) \/ In false (i_setvalue_on_param s) \/ In false (i_setinitial_on_var s) \/
   In false (i_grid_known s) \/ In false (i_symbols_owned s) \/ In false (i_constr_not_false s) \/
   method_ok s = false \/ i_solver s = false \/ i_horizon_free_ode s = false) ->
  accepts s = false.
Proof.
  intro H. destruct (accepts s) eqn:E; [|reflexivity]. exfalso.
  apply accepted_is_wellposed in E.
  destruct E as (H1 & H2 & H3 & H4 & H5 & H6 & H7 & H8 & H9 & H10 & H11 & H12).
  assert (NF : forall l, Forall (fun b => b = true) l -> In false l -> False).
  { intros l Hl Hin. rewrite Forall_forall in Hl. specialize (Hl false Hin). discriminate. }
  destruct H as [H|[H|[H|[H|[H|[H|[H|[H|[H|[H|[H|H]]]]]]]]]]];
    try (eapply NF; [|exact H]; eassumption); congruence.
Qed.

(* the method-specific restrictions *)
Theorem method_restrictions s :
  (i_method s = None -> i_has_dynamics s = true -> method_ok s = false) /\
  (forall m, i_method s = Some m -> (m = KMS \/ m = KSS) ->
     (i_explicit_scheme s = true /\ i_nalg s <> 0) \/ i_nroots_constraints s <> 0 -> method_ok s = false) /\
  (i_method s = Some KSpline -> i_chain_linear s = false -> method_ok s = false).
Proof.
  unfold method_ok. split; [|split].
  - intros -> ->. reflexivity.
  - intros m -> [-> | ->] [[He Hn]|Hr]; try rewrite He; cbn [negb orb];
      try (apply Nat.eqb_neq in Hn; rewrite Hn; reflexivity);
      try (apply Nat.eqb_neq in Hr; rewrite Hr; apply andb_false_r).
  - intros -> ->. reflexivity.
Qed.
