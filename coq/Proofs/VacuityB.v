(* VACUITY AUDIT of Props/C11..C20 and Props/C03 (report: /verif/reviewed/vacuity_C11_C20.md).
   This file contains (a) witnesses: realistic instances that satisfy ALL hypotheses of theorems that had no
   end-to-end witness, (b) proofs that a hypothesis is unsatisfiable on the natural input (the model's knot
   function, which pads with 0 beyond the end of the list), and the corrected statements with hypotheses that
   only speak about the knots that are read, (c) the oracle hypotheses of C13 / C18 localised to the history. *)
From Coq Require Import Reals ZArith QArith Qcanon List Field Lia Lra Bool.
From Coquelicot Require Import Coquelicot.
From RV Require Import Base.Num Base.PyList Base.Vec Base.Poly Expr Ocp Rows Mech.Grid Mech.Sampling Mech.Inf Mech.Bern
     Mech.Spline Mech.History Mech.Persist Mech.Initial Mech.ToFunc Mech.Colloc Inst Proofs.QcInst
     Proofs.NumLemmas Proofs.ListLemmas Proofs.HistProofs Proofs.PersistProofs
     Proofs.SplineProofs Proofs.SplineDer Proofs.SplineDerList Proofs.SplineDerBounded Proofs.DerProofs
     Proofs.SplineDerReal Proofs.SplineHull Proofs.InfProofs Proofs.BernProofs Proofs.ToFuncProofs
     Proofs.ConvReal Proofs.EulerConv Proofs.EulerConvVec Proofs.CollocConv.
Import ListNotations.
Local Open Scope nat_scope.

(* ================================================================== C13 / C18: the oracle hypotheses, localised *)
(* The commuting hypothesis of C13 / C18 quantifies over ALL specifications and ALL updates; it is satisfiable
   (C13_nonvacuous) but a real transcription need not satisfy it for updates it is never asked to perform.  The same
   conclusions hold when it is assumed only for the updates of the history, at the specification they are applied to. *)
Section HistLocal.
Variables (Spec Edit Upd NLP : Type).
Variable apply_edit : Spec -> Edit -> Spec.
Variable apply_upd : Spec -> Upd -> Spec.
Variable transcribe : Spec -> NLP.
Variable live_upd : NLP -> Upd -> NLP.

Notation hstate := (hstate Spec NLP).
Notation hstep := (hstep Spec Edit Upd NLP apply_edit apply_upd transcribe live_upd).
Notation hrun := (hrun Spec Edit Upd NLP apply_edit apply_upd transcribe live_upd).
Notation next_nlp := (next_nlp Spec Edit Upd NLP apply_edit apply_upd transcribe live_upd).
Notation final_spec := (final_spec Spec Edit Upd apply_edit apply_upd).
Notation HInv := (HInv Spec NLP transcribe).

(* the updates of a history commute with transcription where they occur *)
Definition upd_commutes_along (sp : Spec) (ops : list (hop Edit Upd)) : Prop :=
  forall pre u post, ops = pre ++ HUpd Edit Upd u :: post ->
    live_upd (transcribe (final_spec sp pre)) u = transcribe (apply_upd (final_spec sp pre) u).

Lemma step_spec (s : hstate) o : h_spec Spec NLP (hstep s o) = final_spec (h_spec Spec NLP s) [o].
Proof. destruct o as [e|u|]; unfold History.hstep; cbn [History.final_spec]; try reflexivity;
  destruct (h_flag Spec NLP s); reflexivity. Qed.

Lemma hinv_run_local ops : forall s : hstate,
  HInv s -> upd_commutes_along (h_spec Spec NLP s) ops -> HInv (hrun s ops).
Proof.
  induction ops as [|o ops IH]; intros s I H; [exact I|].
  cbn [History.hrun fold_left].
  change (fold_left hstep ops (hstep s o)) with (hrun (hstep s o) ops).
  apply IH.
  - destruct o as [e|u|]; unfold History.hstep.
    + intro Hf. discriminate Hf.
    + destruct (h_flag Spec NLP s) eqn:E.
      * intros _. cbn. rewrite (I E). cbn. f_equal. exact (H [] u ops eq_refl).
      * intro Hf. discriminate Hf.
    + destruct (h_flag Spec NLP s) eqn:E; [exact I|]. intros _. reflexivity.
  - intros pre u post Hops. rewrite step_spec.
    specialize (H (o :: pre) u post). cbn [app] in H. rewrite Hops in H. specialize (H eq_refl).
    destruct o; exact H.
Qed.

Theorem history_independent_local sp ops :
  upd_commutes_along sp ops ->
  next_nlp (hrun (hinit Spec NLP sp) ops) = Some (transcribe (final_spec sp ops)).
Proof.
  intro H.
  assert (I : HInv (hrun (hinit Spec NLP sp) ops)).
  { apply hinv_run_local; [intro Hf; discriminate Hf|exact H]. }
  unfold History.next_nlp, History.hstep.
  pose proof (spec_run Spec Edit Upd NLP apply_edit apply_upd transcribe live_upd (hinit Spec NLP sp) ops) as Es.
  cbn [h_spec hinit] in Es. rewrite <- Es.
  destruct (h_flag Spec NLP (hrun (hinit Spec NLP sp) ops)) eqn:E; [apply I; exact E|reflexivity].
Qed.

(* the global hypothesis implies the local one: C13_history_independent is a special case *)
Lemma upd_commutes_global_local :
  (forall sp u, live_upd (transcribe sp) u = transcribe (apply_upd sp u)) ->
  forall sp ops, upd_commutes_along sp ops.
Proof. intros H sp ops pre u post _. apply H. Qed.

(* C18 with the codec assumed only on the declaration that is saved, and the updates only along the continuation *)
Variable Bytes : Type.
Variable ser : Spec -> Bytes.
Variable deser : Bytes -> option Spec.

Theorem loaded_behaves_fresh_local sp ops ops' :
  let s := hrun (hinit Spec NLP sp) ops in
  deser (ser (final_spec sp ops)) = Some (final_spec sp ops) ->
  upd_commutes_along (final_spec sp ops) ops' ->
  exists l, load Spec NLP Bytes deser (snd (save Spec NLP Bytes ser s)) = Some l /\
    next_nlp (hrun l ops') = Some (transcribe (final_spec (final_spec sp ops) ops')).
Proof.
  intros s Hc Hu. exists (hinit Spec NLP (final_spec sp ops)). split.
  - unfold load, save. cbn [snd]. subst s.
    rewrite (spec_run Spec Edit Upd NLP apply_edit apply_upd transcribe live_upd). cbn [h_spec hinit].
    rewrite Hc. reflexivity.
  - apply history_independent_local. exact Hu.
Qed.

End HistLocal.

(* an oracle that violates the GLOBAL commuting hypothesis (the update 0 does not commute at the specification 0) but
   satisfies the local one along a history that never performs that update there *)
Example C13_local_hypothesis_weaker :
  let apply_edit := fun (sp e : nat) => sp + e in
  let apply_upd := fun (sp u : nat) => sp in
  let transcribe := fun sp : nat => sp in
  let live_upd := fun (n u : nat) => match n, u with 0, 0 => 1 | _, _ => n end in
  ~ (forall sp u, live_upd (transcribe sp) u = transcribe (apply_upd sp u)) /\
  upd_commutes_along nat nat nat nat apply_edit apply_upd transcribe live_upd 0
     [HEdit nat nat 2; HQuery nat nat; HUpd nat nat 0; HQuery nat nat].
Proof.
  split.
  - intro H. specialize (H 0 0). discriminate H.
  - intros pre u post E.
    destruct pre as [|o1 [|o2 [|o3 [|o4 pre]]]]; cbn [app] in E.
    + discriminate E.
    + discriminate E.
    + injection E as E1 E2 E3 E4. subst o1 o2 u. reflexivity.
    + discriminate E.
    + destruct pre; discriminate E.
Qed.

Local Open Scope nat_scope.

(* ================================================================== C17: knot functions that pad with 0 *)
Section KnotPad.
Context {F : Type} {OF : Ops F}.
Hypothesis Fth : field_theory o0 o1 oadd omul osub oopp odiv oinv (@eq F).
Add Field FFvb : Fth.

(* (b) the separation hypothesis over ALL b > j is unsatisfiable by the model's knot function as soon as one of
   the knots K_0..K_j is 0 - every grid that starts at t0 = 0, every normalised grid [0,1] *)
Theorem unbounded_separation_unsatisfiable (K : list F) (j a : nat) :
  a <= j -> knot_fun K a = o0 ->
  ~ (forall a b, a <= j -> j < b -> knot_fun K b -! knot_fun K a <> o0).
Proof.
  intros Ha H0 H. apply (H a (Nat.max (S j) (length K)) Ha ltac:(lia)).
  rewrite H0. unfold knot_fun. rewrite nth_overflow by lia. ring.
Qed.

(* likewise monotonicity over ALL indices fails beyond the end of a list whose last knot is not <= 0 *)
Theorem unbounded_monotonicity_unsatisfiable (le : F -> F -> Prop) (K : list F) :
  K <> [] -> ~ le (last K o0) o0 ->
  ~ (forall a b, a <= b -> le (knot_fun K a) (knot_fun K b)).
Proof.
  intros Hne Hl H. apply Hl.
  assert (E : last K o0 = knot_fun K (length K - 1)).
  { unfold knot_fun. destruct K as [|y K']; [congruence|]. clear.
    revert y. induction K' as [|z K' IH]; intro y; [reflexivity|].
    change (last (y :: z :: K') o0) with (last (z :: K') o0). rewrite IH.
    cbn [length]. replace (S (S (length K')) - 1) with (S (S (length K') - 1)) by lia. reflexivity. }
  rewrite E.
  replace (o0 : F) with (knot_fun K (length K)) by (unfold knot_fun; apply nth_overflow; lia).
  apply H. lia.
Qed.

(* ---- (corrected statements) separation only on the knots that are read: b <= j + E + 1 *)
Section Tight.
Variable k : nat -> F.
Variables j E : nat.
Hypothesis Hsep : forall a b, a <= j -> j < b -> b <= j + E + 1 -> k b -! k a <> o0.

Let k' : nat -> F := fun m => k (Nat.min m (j + E + 1)).

Lemma k'_eq m : m <= j + E + 1 -> k' m = k m.
Proof. intro H. unfold k'. replace (Nat.min m (j + E + 1)) with m by lia. reflexivity. Qed.

Lemma k'_sep a b : a <= j -> j < b -> k' b -! k' a <> o0.
Proof. intros Ha Hb. unfold k'. replace (Nat.min a (j + E + 1)) with a by lia. apply Hsep; lia. Qed.

Lemma k'_cdb x e i : e <= E -> cdb k j x e i = cdb k' j x e i.
Proof. intro He. apply cdb_ext. intros m Hm. symmetry. apply k'_eq. lia. Qed.

Lemma k'_dcdb x e i : e <= E -> dcdb k j x e i = dcdb k' j x e i.
Proof. intro He. apply dcdb_ext. intros m Hm. symmetry. apply k'_eq. lia. Qed.

Theorem partition_of_unity_tight x e n : e <= E -> e <= j -> j < n -> sumf (cdb k j x e) n = o1.
Proof.
  intros HeE He Hn.
  rewrite (sumf_ext (cdb k j x e) (cdb k' j x e)) by (intros i _; apply k'_cdb; exact HeE).
  exact (partition_of_unity Fth k' j x k'_sep e n He Hn).
Qed.

Theorem basis_derivative_tight x e' i : S e' <= E ->
  dcdb k j x (S e') i
  = of_nat (S e') *! ((if Nat.leb (j - e') i && Nat.leb i j
                       then cdb k j x e' i /! (k (i + S e') -! k i) else o0)
                      -! (if Nat.leb (j - e') (S i) && Nat.leb (S i) j
                          then cdb k j x e' (S i) /! (k (S i + S e') -! k (S i)) else o0)).
Proof.
  intro He.
  rewrite (k'_dcdb x (S e') i He).
  pose proof (basis_derivative Fth k' j x k'_sep e' i
    : dcdb k' j x (S e') i
      = of_nat (S e') *! ((if Nat.leb (j - e') i && Nat.leb i j
                           then cdb k' j x e' i /! (k' (i + S e') -! k' i) else o0)
                          -! (if Nat.leb (j - e') (S i) && Nat.leb (S i) j
                              then cdb k' j x e' (S i) /! (k' (S i + S e') -! k' (S i)) else o0))) as B.
  rewrite B. rewrite <- !(k'_cdb x e') by lia.
  destruct (Nat.leb (j - e') i && Nat.leb i j) eqn:E1; destruct (Nat.leb (j - e') (S i) && Nat.leb (S i) j) eqn:E2.
  all: try (apply andb_true_iff in E1; destruct E1 as [E1a E1b]; apply Nat.leb_le in E1a; apply Nat.leb_le in E1b).
  all: try (apply andb_true_iff in E2; destruct E2 as [E2a E2b]; apply Nat.leb_le in E2a; apply Nat.leb_le in E2b).
  all: try rewrite (k'_eq i) by lia; try rewrite (k'_eq (i + S e')) by lia;
       try rewrite (k'_eq (S i)) by lia; try rewrite (k'_eq (S i + S e')) by lia; reflexivity.
Qed.

Theorem spline_derivative_tight x (c : nat -> F) e' n : S e' <= E -> S e' <= j -> j < n ->
  sumf (fun i => c i *! dcdb k j x (S e') i) n
  = sumf (fun i => of_nat (S e') *! (c (S i) -! c i) /! (k (S i + S e') -! k (S i)) *! cdb k j x e' (S i)) (n - 1).
Proof.
  intros He Hd Hn.
  rewrite (sumf_ext _ (fun i => c i *! dcdb k' j x (S e') i)) by (intros i _; rewrite (k'_dcdb x (S e') i He); reflexivity).
  rewrite (spline_derivative Fth k' j x k'_sep c e' n Hd Hn).
  apply sumf_ext. intros i Hi.
  rewrite <- (k'_cdb x e' (S i)) by lia.
  destruct (le_lt_dec j i) as [Hji|Hij].
  - rewrite (cdb_support Fth k j x e' (S i)) by lia. ring.
  - rewrite (k'_eq (S i + S e')), (k'_eq (S i)) by lia. reflexivity.
Qed.

End Tight.
End KnotPad.

(* over the reals: the analytic derivative, with the separation hypothesis on the knots that are read *)
Theorem spline_is_derive_tight (k : nat -> R) (j : nat) (c : nat -> R) (e' n : nat) (x : R) :
  (forall a b, a <= j -> j < b -> b <= j + S e' + 1 -> (k b - k a <> 0)%R) -> S e' <= j -> j < n ->
  is_derive (fun y => @sumf R ROps (fun i => (c i * @cdb R ROps k j y (S e') i)%R) n) x
            (@sumf R ROps (fun i => (@of_nat R ROps (S e') * (c (S i) - c i) / (k (S i + S e')%nat - k (S i))
                                     * @cdb R ROps k j x e' (S i))%R) (n - 1)).
Proof.
  intros Hsep Hd Hn.
  pose proof (@spline_derivative_tight R ROps R_field_laws k j (S e') Hsep x c e' n (le_n _) Hd Hn) as E.
  cbn [oadd omul osub odiv oopp o0 o1 ROps] in E. rewrite <- E.
  apply (sumf_is_derive (fun i y => @cdb R ROps k j y (S e') i) (fun i => @dcdb R ROps k j x (S e') i)).
  intro i. apply cdb_is_derive.
Qed.

(* nonnegativity of the basis with monotonicity on the knots that are read (from Proofs/SplineHull.v) *)
Theorem basis_nonnegative_bounded :
  forall (F : Type) (OF : Ops F), FieldLaws OF -> forall le : F -> F -> Prop, OrderLaws OF le ->
  forall (k : nat -> F) (j d : nat) (x : F),
    (forall a b, a <= b -> b <= j + d + 1 -> le (k a) (k b)) -> k j <> k (S j) -> le (k j) x -> le x (k (S j)) ->
    forall e i, e <= d -> le o0 (cdb k j x e i).
Proof.
  intros F OF Fl le [A T O P M] k j d x H1 H2 H3 H4 e i He.
  exact (cdb_nonneg_bounded Fl le A T O P M k j d x H1 H2 H3 H4 e i He).
Qed.

(* the natural instance: normalised grid 0, 1/2, 1, degree 2 (clamped knots 0,0,0,1/2,1,1,1), span j = 2.
   The hypotheses of the four abstract-k theorems of C17 (separation for ALL b > j) and of C17_basis_nonnegative
   (monotone for ALL a <= b) are FALSE for k = knot_fun K; the tight hypotheses hold, and the conclusions follow. *)
Local Existing Instance QcOps.
Example C17_knot_fun_instance :
  let K := @clamped Qc QcOps [Q2Qc 0; Q2Qc (1#2); Q2Qc 1] 2 in
  let k := @knot_fun Qc QcOps K in
  ~ (forall a b, a <= 2 -> 2 < b -> k b -! k a <> o0) /\
  ~ (forall a b, a <= b -> (k a <= k b)%Qc) /\
  (forall a b, a <= 2 -> 2 < b -> b <= 2 + 2 + 1 -> k b -! k a <> o0) /\
  (forall a b, a <= b -> b <= 2 + 2 + 1 -> (k a <= k b)%Qc) /\
  (forall x e n, e <= 2 -> 2 < n -> sumf (cdb k 2 x e) n = o1) /\
  (forall x e i, e <= 2 -> k 2 <> k 3 -> (k 2 <= x)%Qc -> (x <= k 3)%Qc -> (0 <= cdb k 2 x e i)%Qc).
Proof.
  intros K k.
  assert (Hsep : forall a b, a <= 2 -> 2 < b -> b <= 2 + 2 + 1 -> k b -! k a <> o0).
  { intros a b Ha Hb Hb5.
    assert (Ea : k a = Q2Qc 0) by (destruct a as [|[|[|a]]]; try reflexivity; lia).
    rewrite Ea. destruct b as [|[|[|[|[|[|b]]]]]]; try lia; vm_compute; intro E; discriminate E. }
  assert (Hmono : forall a b, a <= b -> b <= 2 + 2 + 1 -> (k a <= k b)%Qc).
  { intros a b Hab Hb.
    destruct a as [|[|[|[|[|[|a]]]]]]; destruct b as [|[|[|[|[|[|b]]]]]]; try lia;
      vm_compute; intro E; discriminate E. }
  split; [|split; [|split; [exact Hsep|split; [exact Hmono|split]]]].
  - apply (unbounded_separation_unsatisfiable QcLaws K 2 0); [lia|reflexivity].
  - apply (unbounded_monotonicity_unsatisfiable Qcle K); [discriminate|].
    vm_compute. intro E. apply E. reflexivity.
  - intros x e n He Hn. exact (partition_of_unity_tight QcLaws k 2 2 Hsep x e n He He Hn).
  - intros x e i He Hs Hlo Hhi.
    exact (basis_nonnegative_bounded Qc QcOps QcLaws Qcle Qc_order_laws k 2 2 x Hmono Hs Hlo Hhi e i He).
Qed.

(* the abstract hypothesis itself is satisfiable (infinite strictly increasing knot sequences): k m = m over R *)
Example abstract_separation_satisfiable :
  forall j a b, a <= j -> j < b -> (INR b - INR a <> 0)%R.
Proof. intros j a b Ha Hb. assert (INR a < INR b)%R by (apply lt_INR; lia). lra. Qed.

(* ================================================================== C15: an end-to-end witness *)
(* N = M = 1, control grid [0; 1] (t0 = 0), one state with step polynomial x(tau) = tau, the constraint
   x*x - x <= 0 on grid='inf': all hypotheses of C15_polynomial_constraint_holds_between_grid_points hold *)
Definition qz (a : Z) : Qc := Q2Qc (inject_Z a).
Definition exL : mlists Qc :=
  @mkLists Qc 1 1 [[qz 0]; [qz 1]] [[]] [] [] [] [[]] [[]; []] [] [[]] [[]; []] (qz 1) (qz 0)
           [qz 0; qz 1] [[qz 0; qz 1]] [[qz 0]; [qz 1]] [[]; []] [] [] [] []
           [[[qz 0]; [qz 1]; [qz 0]; [qz 0]; [qz 0]]] [] [].
Definition exC : bconstr := mkBC 0 (BSub (BMul (BX 0) (BX 0)) (BX 0)) false (RV.Expr.EC 0).

Example C15_rows_witness :
  let h := (nth 1 (L_cg exL) o0 -! nth 0 (L_cg exL) o0) /! of_nat (L_M exL) in
  length (nth (0 * L_M exL + 0) (L_poly exL) []) = 5 /\ h <> o0 /\
  List.Forall (fun r => (rw_h r <= 0)%Qc) (infp_rows_step exL exC 0 0) /\
  length (infp_rows_step exL exC 0 0) = 9.
Proof.
  cbn zeta. split; [reflexivity|]. split; [vm_compute; intro E; discriminate E|]. split.
  - repeat constructor; vm_compute; intro E; discriminate E.
  - vm_compute. reflexivity.
Qed.

(* the order hypotheses of C15 (and C14) in Qc, all five *)
Example Qc_order_hypotheses :
  (forall a : Qc, (a <= a)%Qc) /\ (forall a b c d : Qc, (a <= b -> c <= d -> a + c <= b + d)%Qc) /\
  (forall a b c : Qc, (0 <= c -> a <= b -> a * c <= b * c)%Qc) /\
  (forall a b : Qc, (0 <= a -> 0 <= b -> 0 <= a * b)%Qc) /\ (0 <= 1)%Qc.
Proof.
  split; [intro a; apply Qcle_refl|]. split; [intros a b c d H1 H2; apply Qcplus_le_compat; assumption|].
  split; [intros a b c H1 H2; apply Qcmult_le_compat_r; assumption|]. split.
  - intros a b Ha Hb. replace (Q2Qc 0) with (Q2Qc 0 * b)%Qc by ring. apply Qcmult_le_compat_r; assumption.
  - vm_compute. intro E. discriminate E.
Qed.

(* ... and the theorem applied to the witness: x(tau)^2 - x(tau) <= 0 for every tau = s*h, s in [0,1] *)
Example C15_applied_to_witness :
  forall s : Qc, (0 <= s)%Qc -> (s <= 1)%Qc ->
    let h := (nth 1 (L_cg exL) o0 -! nth 0 (L_cg exL) o0) /! of_nat (L_M exL) in
    (beval (fun j => polyval (state_coeffs exL 0 j) (s *! h))
           (fun j => polyval (pderiv (state_coeffs exL 0 j)) (s *! h)) (bc_expr exC)
     <= eval_control exL 0 (bc_bound exC))%Qc.
Proof.
  intros s H0 H1.
  destruct Qc_order_hypotheses as (O1 & O2 & O3 & O4 & O5).
  destruct C15_rows_witness as (W1 & W2 & W3 & _).
  exact (infp_rows_step_sufficient QcLaws Qc_char0 Qcle O1 O2 O3 O4 O5 exL exC 0 0 W1 W2 W3 s H0 H1).
Qed.

(* ================================================================== C14: the scale hypotheses in Qc, scale 4 *)
Example C14_feasible_hypotheses :
  let s := Q2Qc 4 in
  s <> @o0 Qc QcOps /\ (@o0 Qc QcOps <= s)%Qc /\ (@o0 Qc QcOps <= @odiv Qc QcOps (@o1 Qc QcOps) s)%Qc.
Proof. cbn zeta. repeat split; vm_compute; intro E; discriminate E. Qed.

(* ================================================================== C19: the side conditions *)
Example C19_side_conditions :
  fixed_or_free (HFixed 1) /\ fixed_or_free (HFree 1) /\ horizon_free [] /\
  horizon_free [mkTfArg GX 0 1 [[1#2]; [3#2]]].
Proof.
  split; [exact I|]. split; [exact I|]. split; [intros a []|].
  intros a [<-|[]]. split; discriminate.
Qed.

(* ================================================================== C03: witnesses that were missing *)
Local Open Scope R_scope.
(* C03_builtin_rescaling / C03_builtin_quadrature_rescaling: global differentiability hypotheses *)
Example C03_rescaling_hypotheses :
  (forall (i : nat) t, is_derive ((fun (_ : nat) s => exp s) i) t ((fun (_ : nat) (X : nat -> R) (_ : R) => X 0%nat) i
                                                            (fun j => (fun (_ : nat) s => exp s) j t) t)) /\
  (forall t, is_derive exp t (exp t)).
Proof. split; [intros i t; apply is_derive_exp|intro t; apply is_derive_exp]. Qed.

(* C03_dc_radau1_integral_converges: x' = -x, implicit Euler sequence, integrand g = x; the accumulator is the
   right-endpoint sum; every hypothesis holds and the bound follows *)
Fixpoint decay_Q (t0 h : R) (j : nat) : R :=
  match j with
  | O => 0
  | S j' => decay_Q t0 h j' + nth 0 (@coeff_B R ROps [1]) 0 * (h * (exp (- t0) / (1 + h) ^ (S j')))
  end.

Example dc_radau1_integral_decay (t0 T : R) (M : nat) :
  0 < T -> (0 < M)%nat ->
  let h := T / INR M in
  h * 1 <= 1 / 2 ->
  Rabs (decay_Q t0 h M - RInt (fun s => exp (- s)) t0 (t0 + T))
  <= (T * (1 * (3 * exp (- t0) * ((exp (T * (2 * 1)) - 1) / (2 * 1))) + 3 / 2 * exp (- t0))) * h.
Proof.
  intros HT HM h HhL.
  pose proof (dc_radau1_decay t0 T M HT HM) as D0. cbv zeta in D0. fold h in D0.
  destruct (D0 HhL) as (Hcol & Hcont & _). clear D0.
  set (F := fun (X : list R) (_ : R) => [- nth 0 X 0]).
  set (Y := fun j : nat => [exp (- t0) / (1 + h) ^ j]) in *.
  pose proof (dc_radau1_integral_converges F (fun X _ => nth 0 X 0) 1 (fun _ s => exp (- s)) t0 T 1 1
                (exp (- t0)) (exp (- t0)) M Y (fun j => Y (S j)) (decay_Q t0 h) HT Rlt_0_1
                (Rlt_le _ _ (exp_pos _)) Rle_0_1 HM) as E.
  cbv zeta in E. fold h in E.
  apply (E HhL); clear E.
  - intros k _. reflexivity.
  - intros k _. reflexivity.
  - unfold Y, xvec. cbn [seq map pow]. f_equal. field.
  - intros k _. apply Hcol.
  - intros k _. apply Hcont.
  - reflexivity.
  - intros k _. reflexivity.
  - intros i t Hi _. assert (i = 0%nat) by lia. subst i. unfold F, xvec. cbn [seq map nth].
    auto_derive; [exact I|]. ring.
  - intros i t _ _. apply ex_derive_n_exp_opp.
  - intros i t _ Ht. rewrite Derive_n_exp_opp. replace ((-1) ^ 2) with 1 by ring. rewrite Rmult_1_l.
    rewrite Rabs_pos_eq by (left; apply exp_pos).
    destruct Ht as [[Ht|Ht] _]; [left; apply exp_increasing; lra|rewrite Ht; apply Rle_refl].
  - intros i t X Y' Hi _ _ _. assert (i = 0%nat) by lia. subst i. unfold F. cbn [nth].
    replace (- nth 0 X 0 - - nth 0 Y' 0) with (- (nth 0 X 0 - nth 0 Y' 0)) by ring.
    rewrite Rabs_Ropp, Rmult_1_l. apply (dist_max_ge 1 X Y' 0). lia.
  - intros t X Y' _ _ _. rewrite Rmult_1_l. apply (dist_max_ge 1 X Y' 0). lia.
  - intro t. unfold xvec. cbn [seq map nth]. auto_derive. exact I.
  - intros t Ht. unfold xvec. cbn [seq map nth].
    replace (Derive (fun s => exp (- s)) t) with (- exp (- t)).
    + rewrite Rabs_Ropp, Rabs_pos_eq by (left; apply exp_pos).
      destruct Ht as [[Ht|Ht] _]; [left; apply exp_increasing; lra|rewrite Ht; apply Rle_refl].
    + symmetry. apply is_derive_unique. auto_derive; [exact I|]. ring.
Qed.

Print Assumptions unbounded_separation_unsatisfiable.
Print Assumptions partition_of_unity_tight.
Print Assumptions basis_derivative_tight.
Print Assumptions spline_derivative_tight.
Print Assumptions spline_is_derive_tight.
Print Assumptions basis_nonnegative_bounded.
Print Assumptions C17_knot_fun_instance.
Print Assumptions history_independent_local.
Print Assumptions loaded_behaves_fresh_local.
Print Assumptions C15_applied_to_witness.
Print Assumptions dc_radau1_integral_decay.
