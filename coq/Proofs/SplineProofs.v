(* C17: the Cox-de Boor basis of Mech/Spline.v — support and partition of unity. *)
From Coq Require Import ZArith List Field Lia Bool.
From RV Require Import Base.Num Base.Vec Mech.Spline Proofs.NumLemmas.
Import ListNotations.
Local Open Scope nat_scope.

Section SplineProofs.
Context {F : Type} {OF : Ops F}.
Hypothesis Fth : field_theory o0 o1 oadd omul osub oopp odiv oinv (@eq F).
Add Field FFsp : Fth.

Fixpoint sumf (f : nat -> F) (n : nat) : F :=
  match n with O => o0 | S n' => sumf f n' +! f n' end.

Lemma sumf_add f g n : sumf (fun i => f i +! g i) n = sumf f n +! sumf g n.
Proof. induction n as [|n IH]; cbn [sumf]; [ring|rewrite IH; ring]. Qed.

Lemma sumf_ext f g n : (forall i, i < n -> f i = g i) -> sumf f n = sumf g n.
Proof.
  induction n as [|n IH]; intro H; cbn [sumf]; [reflexivity|].
  rewrite IH by (intros i Hi; apply H; lia). rewrite (H n) by lia. reflexivity.
Qed.

Lemma sumf_shift g n : sumf (fun i => g (S i)) n = sumf g (S n) -! g 0.
Proof. induction n as [|n IH]; cbn [sumf]; [ring|]. rewrite IH. cbn [sumf]. ring. Qed.

Lemma sumf_delta j n : j < n -> sumf (fun i => if Nat.eqb i j then o1 else o0) n = o1.
Proof.
  induction n as [|n IH]; intro H; [lia|]. cbn [sumf].
  destruct (Nat.eq_dec n j) as [->|Hne].
  - rewrite Nat.eqb_refl.
    assert (Z : sumf (fun i => if Nat.eqb i j then o1 else o0) j = o0).
    { clear -Fth. assert (G : forall m, m <= j -> sumf (fun i => if Nat.eqb i j then o1 else o0) m = o0).
      { induction m as [|m IHm]; intro Hm; cbn [sumf]; [reflexivity|].
        rewrite IHm by lia. assert (E : Nat.eqb m j = false) by (apply Nat.eqb_neq; lia). rewrite E. ring. }
      apply G. lia. }
    rewrite Z. ring.
  - rewrite IH by lia. assert (E : Nat.eqb n j = false) by (apply Nat.eqb_neq; exact Hne). rewrite E. ring.
Qed.

Section Basis.
Variable k : nat -> F.       (* the (clamped) knot sequence *)
Variable j : nat.            (* index of the knot span containing x *)
Variable x : F.
(* knots on either side of the span are distinct: k_a < k_{j+1} for a <= j *)
Hypothesis Hsep : forall a b, a <= j -> j < b -> k b -! k a <> o0.

(* a basis function of degree e vanishes unless j - e <= i <= j *)
Theorem cdb_support e i : ~ (j - e <= i <= j) -> cdb k j x e i = o0.
Proof.
  intro H. destruct e as [|e']; cbn [cdb].
  - assert (E : Nat.eqb i j = false) by (apply Nat.eqb_neq; lia). rewrite E. reflexivity.
  - assert (E1 : (Nat.leb (j - e') i && Nat.leb i j) = false).
    { apply andb_false_iff. destruct (Nat.leb_spec (j - e') i); [right; apply Nat.leb_gt; lia|left; reflexivity]. }
    assert (E2 : (Nat.leb (j - e') (S i) && Nat.leb (S i) j) = false).
    { apply andb_false_iff. destruct (Nat.leb_spec (j - e') (S i)); [right; apply Nat.leb_gt; lia|left; reflexivity]. }
    rewrite E1, E2. ring.
Qed.

(* the two Cox-de Boor terms that involve B_{m,e'} add up to B_{m,e'} *)
Lemma cdb_terms_merge e' m :
  (if Nat.leb (j - e') m && Nat.leb m j
   then (x -! k m) /! (k (m + S e') -! k m) *! cdb k j x e' m else o0)
  +! (if Nat.leb (j - e') m && Nat.leb m j
      then (k (m + S e') -! x) /! (k (m + S e') -! k m) *! cdb k j x e' m else o0)
  = cdb k j x e' m.
Proof.
  destruct (Nat.leb (j - e') m && Nat.leb m j) eqn:E.
  - apply andb_true_iff in E. destruct E as [E1 E2].
    apply Nat.leb_le in E1. apply Nat.leb_le in E2.
    assert (D : k (m + S e') -! k m <> o0) by (apply Hsep; lia).
    field. exact D.
  - rewrite (cdb_support e' m); [ring|].
    apply andb_false_iff in E. destruct E as [E|E]; apply Nat.leb_gt in E; lia.
Qed.

(* partition of unity: for degree e <= j (always true on clamped knots) the basis functions sum to one *)
Theorem partition_of_unity e n : e <= j -> j < n -> sumf (cdb k j x e) n = o1.
Proof.
  revert n. induction e as [|e' IH]; intros n He Hn.
  - cbn [cdb]. apply sumf_delta. exact Hn.
  - set (t1 := fun i => if Nat.leb (j - e') i && Nat.leb i j
                        then (x -! k i) /! (k (i + S e') -! k i) *! cdb k j x e' i else o0).
    set (g := fun m => if Nat.leb (j - e') m && Nat.leb m j
                       then (k (m + S e') -! x) /! (k (m + S e') -! k m) *! cdb k j x e' m else o0).
    assert (E : forall i, cdb k j x (S e') i = t1 i +! g (S i)).
    { intro i. cbn [cdb]. unfold t1, g. replace (S i + S e') with (S (i + S e')) by lia. reflexivity. }
    rewrite (sumf_ext _ (fun i => t1 i +! g (S i))) by (intros i _; apply E).
    rewrite sumf_add, sumf_shift. cbn [sumf].
    assert (G0 : g 0 = o0).
    { unfold g. assert (E0 : (Nat.leb (j - e') 0 && Nat.leb 0 j) = false).
      { apply andb_false_iff. left. apply Nat.leb_gt. lia. } rewrite E0. reflexivity. }
    assert (Gn : g n = o0).
    { unfold g. assert (En : (Nat.leb (j - e') n && Nat.leb n j) = false).
      { apply andb_false_iff. right. apply Nat.leb_gt. lia. } rewrite En. reflexivity. }
    rewrite G0, Gn.
    replace (sumf t1 n +! (sumf g n +! o0 -! o0)) with (sumf (fun m => t1 m +! g m) n) by (rewrite sumf_add; ring).
    rewrite (sumf_ext _ (cdb k j x e')) by (intros m _; unfold t1, g; apply cdb_terms_merge).
    apply IH; lia.
Qed.

End Basis.
End SplineProofs.
