(* C11: a free-time problem restricted to T = c is the fixed-time problem (plus T >= 0). *)
From Coq Require Import ZArith QArith List Field Lia Bool.
From RV Require Import Base.Num Base.PyList Base.Vec Expr Ocp Rows Mech.Grid Mech.Intg Mech.Sampling
     Mech.Shooting Mech.Colloc Proofs.ListLemmas Proofs.ShootProofs.
Import ListNotations.
Local Open Scope nat_scope.

Definition with_T (oc : ocp) (h : horizon) : ocp :=
  mkOcp (o_nx oc) (o_nu oc) (o_nz oc) (o_ode oc) (o_quad oc) (o_alg oc)
        (o_scale_x oc) (o_scale_u oc) (o_scale_z oc) (o_scale_der oc)
        (o_c_control oc) (o_c_integrator oc) (o_c_roots oc) (o_c_point oc) (o_objective oc)
        (o_t0 oc) h (o_method oc).

Section FreeProofs.
Context {F : Type} {OF : Ops F}.

Lemma lists_of_with_T oc h (pt : point F) s :
  horizon_value h pt (p_T pt) = T_of oc pt ->
  lists_of (with_T oc h) pt s = lists_of oc pt s.
Proof.
  intro H. destruct oc. unfold lists_of, grid_of, T_of, t0_of, with_T in *. cbn in *.
  rewrite H. reflexivity.
Qed.

(* rows of MultipleShooting with the "T is a decision variable" flag and the T>=0 row abstracted *)
Definition rows_ms_flag (oc : ocp) (pt : point F) (flag : bool) (extra : list (row F)) : list (row F) :=
  let me := o_method oc in
  let N := m_N me in
  let cg := grid_of oc pt in
  let a := shoot oc pt cg false in
  let L := lists_of oc pt false in
  let Tl := T_local (m_grid me) N (T_of oc pt) (p_Tloc pt) in
  let t0l := t0_of oc pt :: p_t0loc pt in
  bounds_finalize (m_grid me) cg (t0_of oc pt) (T_of oc pt)
  ++ flat_map (fun k =>
       dyn_rows oc pt a k
       ++ bounds_T (m_grid me) N flag (T_of oc pt) Tl t0l k
       ++ path_rows_k oc L k) (seq 0 N)
  ++ last_rows L (o_c_control oc ++ o_c_integrator oc)
  ++ map (prow L) (o_c_point oc)
  ++ extra.

Lemma rows_ms_is_flag oc pt :
  rows_ms oc pt = rows_ms_flag oc pt (horizon_is_var (o_T oc)) (freeT_rows oc pt).
Proof. reflexivity. Qed.

Lemma rows_ms_flag_with_T oc h pt flag extra :
  horizon_value h pt (p_T pt) = T_of oc pt ->
  rows_ms_flag (with_T oc h) pt flag extra = rows_ms_flag oc pt flag extra.
Proof.
  intro H. destruct oc. unfold rows_ms_flag, lists_of, grid_of, T_of, t0_of, with_T in *. cbn in *.
  rewrite H. reflexivity.
Qed.

(* the is_parametric filter only removes rows: with a fixed horizon the grid emits a subset *)
Lemma minmax_if_incl (b : bool) (l : list (row F)) r : In r (if b then l else []) -> In r l.
Proof. destruct b; [auto|intros []]. Qed.

Lemma bounds_T_flag_incl go N T Tl t0l k r :
  In r (@bounds_T F OF go N false T Tl t0l k) -> In r (bounds_T go N true T Tl t0l k).
Proof.
  unfold bounds_T. destruct (go_spec go); intro H.
  - apply in_app_or in H. apply in_or_app. destruct H as [H|H]; [left|right; exact H].
    destruct (k =? 0); [|exact H]. destruct (loc_T go); [destruct H|].
    destruct (go_min go), (go_max go); try destruct H; exact H.
  - apply in_app_or in H. apply in_or_app. destruct H as [H|H]; [left|right; exact H].
    destruct (loc_T go).
    + destruct ((k =? 0) || (k =? N - 1)); [|exact H].
      destruct (k =? 0); cbn [negb orb] in *; [destruct H|exact H].
    + apply in_app_or in H. apply in_or_app. destruct H as [H|H]; [left|right].
      * destruct (k =? 0); [destruct H|exact H].
      * destruct ((k =? N - 1) && (1 <? N)); [destruct H|exact H].
  - apply in_app_or in H. apply in_or_app. destruct H as [H|H]; [left|right; exact H].
    destruct (loc_T go); [destruct H|].
    destruct (go_min go), (go_max go); try destruct H; exact H.
  - exact H.
Qed.

Lemma rows_ms_flag_incl oc pt extra r :
  In r (rows_ms_flag oc pt false extra) -> In r (rows_ms_flag oc pt true extra).
Proof.
  unfold rows_ms_flag. intro H.
  apply in_app_or in H. apply in_or_app. destruct H as [H|H]; [left; exact H|right].
  apply in_app_or in H. apply in_or_app. destruct H as [H|H]; [left|right; exact H].
  apply in_flat_map in H. destruct H as (k & Hk & H). apply in_flat_map. exists k. split; [exact Hk|].
  apply in_app_or in H. apply in_or_app. destruct H as [H|H]; [left; exact H|right].
  apply in_app_or in H. apply in_or_app. destruct H as [H|H]; [left|right; exact H].
  apply bounds_T_flag_incl. exact H.
Qed.

Lemma rows_ms_flag_only_grid_more oc pt extra r :
  In r (rows_ms_flag oc pt true extra) ->
  In r (rows_ms_flag oc pt false extra) \/ rw_kind r = KGrid.
Proof.
  unfold rows_ms_flag. intro H.
  apply in_app_or in H. destruct H as [H|H]; [left; apply in_or_app; left; exact H|].
  apply in_app_or in H. destruct H as [H|H].
  2:{ left. apply in_or_app. right. apply in_or_app. right. exact H. }
  apply in_flat_map in H. destruct H as (k & Hk & H).
  apply in_app_or in H. destruct H as [H|H].
  { left. apply in_or_app. right. apply in_or_app. left. apply in_flat_map. exists k. split; [exact Hk|].
    apply in_or_app. left. exact H. }
  apply in_app_or in H. destruct H as [H|H].
  { right. eapply bounds_T_kind. exact H. }
  left. apply in_or_app. right. apply in_or_app. left. apply in_flat_map. exists k. split; [exact Hk|].
  apply in_or_app. right. apply in_or_app. right. exact H.
Qed.

(* ---- MultipleShooting: free T restricted to T = c versus the OCP declared with the number c *)
Theorem ms_freetime_restriction (oc : ocp) (pt : point F) (g c : Q) :
  o_T oc = HFree g -> p_T pt = of_Q c ->
  let oc' := with_T oc (HFixed c) in
  (forall r, In r (rows_ms oc' pt) -> In r (rows_ms oc pt)) /\
  (forall r, In r (rows_ms oc pt) ->
     In r (rows_ms oc' pt) \/ r = mkRow KFreeT 0 0 SLe (o0 -! of_Q c) \/ rw_kind r = KGrid) /\
  objective (lists_of oc pt false) (o_objective oc) = objective (lists_of oc' pt false) (o_objective oc').
Proof.
  intros HT Hp. cbn zeta.
  assert (HV : horizon_value (HFixed c) pt (p_T pt) = T_of oc pt).
  { unfold T_of. rewrite HT. cbn. symmetry. exact Hp. }
  assert (E' : rows_ms (with_T oc (HFixed c)) pt = rows_ms_flag oc pt false []).
  { rewrite rows_ms_is_flag. cbn [with_T o_T horizon_is_var]. unfold freeT_rows. cbn [with_T o_T].
    apply rows_ms_flag_with_T. exact HV. }
  assert (E : rows_ms oc pt = rows_ms_flag oc pt true [mkRow KFreeT 0 0 SLe (o0 -! of_Q c)]).
  { rewrite rows_ms_is_flag. unfold freeT_rows. rewrite HT. cbn [horizon_is_var].
    unfold T_of. rewrite HT. cbn [horizon_value]. rewrite Hp. reflexivity. }
  split; [|split].
  - intros r Hr. rewrite E' in Hr. rewrite E.
    apply rows_ms_flag_incl.
    unfold rows_ms_flag in *. repeat (apply in_app_or in Hr; destruct Hr as [Hr|Hr]);
      repeat (try (apply in_or_app; left; exact Hr); apply in_or_app; right).
    destruct Hr.
  - intros r Hr. rewrite E in Hr. rewrite E'.
    assert (Hsplit : In r (rows_ms_flag oc pt true []) \/ r = mkRow KFreeT 0 0 SLe (o0 -! of_Q c)).
    { unfold rows_ms_flag in *. repeat (apply in_app_or in Hr; destruct Hr as [Hr|Hr]).
      - left. apply in_or_app. left. exact Hr.
      - left. apply in_or_app. right. apply in_or_app. left. exact Hr.
      - left. apply in_or_app. right. apply in_or_app. right. apply in_or_app. left. exact Hr.
      - left. apply in_or_app. right. apply in_or_app. right. apply in_or_app. right.
        apply in_or_app. left. exact Hr.
      - destruct Hr as [<-|[]]. right. reflexivity. }
    destruct Hsplit as [H|H]; [|right; left; exact H].
    destruct (rows_ms_flag_only_grid_more oc pt [] r H) as [H'|H']; [left; exact H'|right; right; exact H'].
  - rewrite (lists_of_with_T oc (HFixed c) pt false HV). reflexivity.
Qed.

End FreeProofs.
