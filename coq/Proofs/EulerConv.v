(* C03 (complete convergence statements, over the reals, about the model's own functions):
   - euler_converges: discrete_system (intg_expl_euler ..) at the instance ROps, scalar ODE x' = f(t,x),
     f Lipschitz in x, x twice differentiable with |x''| <= K on [t0, t0+T]: every entry j of the Xi output is
     within (K/2)(e^{TL}-1)/L * h of x(t0 + j h), h = T/M.  The local error bound is proved with
     Taylor-Lagrange (Coquelicot), the propagation with global_error_order (ConvReal.v).
   - rk4_linear_converges: discrete_system (intg_rk (lin_sys lam)) at ROps on x' = lam x: every entry j of the
     Xi output is within C h^4 of e^{lam j h} x0 for |lam| h <= 1, C explicit in lam, T, x0; the local error
     |R(z) - e^z| <= e/120 |z|^5 (rk4_local_error) is the Taylor-Lagrange remainder of exp. *)
From Coq Require Import Reals ZArith QArith List Lia Lra.
From Coquelicot Require Import Coquelicot.
From RV Require Import Base.Num Base.Vec Mech.Intg Spec.SpecDyn Proofs.NumLemmas Proofs.VecLemmas Proofs.DynProofs Proofs.DerProofs Proofs.SplineDerReal Proofs.ConvProofs Proofs.ConvReal.
Import ListNotations.
Local Open Scope R_scope.

Lemma of_nat_R (n : nat) : @of_nat R ROps n = INR n.
Proof. unfold of_nat. rewrite of_Z_R. symmetry. apply INR_IZR_INZ. Qed.

Lemma Char0_R : @Char0 R ROps.
Proof. intro p. rewrite of_pos_R. apply not_0_IZR. discriminate. Qed.

Fixpoint euler_seq (f : R -> R -> R) (t0 h : R) (j : nat) (y0 : R) : R :=
  match j with
  | O => y0
  | S j' => euler_seq f t0 h j' y0 + h * f (t0 + INR j' * h) (euler_seq f t0 h j' y0)
  end.

Definition scalar_sys (f : R -> R -> R) : sysfun R :=
  mkSys (fun X t => [f t (nth 0 X 0)]) (fun _ _ => []).

Lemma euler_model_iter f t0 h DTc j y0 :
  iter_steps (fun t X => r_xf (@intg_expl_euler R ROps (scalar_sys f) X t h DTc)) t0 h j [y0]
  = [euler_seq f t0 h j y0].
Proof.
  induction j as [|j IH]; cbn [iter_steps euler_seq]; [reflexivity|].
  rewrite IH. unfold intg_expl_euler, scalar_sys. cbn [r_xf s_ode vadd vscale map nth].
  rewrite of_nat_R. reflexivity.
Qed.

Lemma taylor2 (x : R -> R) (a h K : R) :
  0 < h ->
  (forall t, a <= t <= a + h -> ex_derive x t) ->
  (forall t, a <= t <= a + h -> ex_derive_n x 2 t) ->
  (forall t, a <= t <= a + h -> Rabs (Derive_n x 2 t) <= K) ->
  Rabs (x (a + h) - x a - h * Derive x a) <= K / 2 * h ^ 2.
Proof.
  intros Hh H1 H2 HK.
  destruct (Taylor_Lagrange x 1 a (a + h)) as (zeta & Hz & E).
  - lra.
  - intros t Ht k Hk. destruct k as [|[|[|k]]]; [exact I|exact (H1 t Ht)|exact (H2 t Ht)|lia].
  - rewrite E. specialize (HK zeta ltac:(lra)).
    set (D2 := Derive_n x 2 zeta) in *.
    cbn [sum_f_R0 fact Derive_n Nat.mul Nat.add INR].
    replace (a + h - a) with h by ring.
    change (Derive (fun x0 : R => x x0) a) with (Derive x a).
    replace (_ - _ - _) with (h ^ 2 / 2 * D2) by (cbn [pow]; field).
    rewrite Rabs_mult. rewrite Rabs_pos_eq by nra.
    assert (0 <= h ^ 2 / 2) by nra. nra.
Qed.

Lemma grid_le (T : R) (M k : nat) :
  0 < T -> (0 < M)%nat -> (k <= M)%nat -> 0 <= INR k * (T / INR M) <= T.
Proof.
  intros HT HM Hk.
  assert (HMr : 0 < INR M) by (apply lt_0_INR; exact HM).
  assert (Hh : 0 < T / INR M) by (apply Rdiv_lt_0_compat; assumption).
  assert (Hkr : INR k <= INR M) by (apply le_INR; exact Hk).
  assert (Hk0 : 0 <= INR k) by apply pos_INR.
  split.
  - apply Rmult_le_pos; lra.
  - replace T with (INR M * (T / INR M)) at 2 by (field; lra).
    apply Rmult_le_compat_r; lra.
Qed.

Theorem euler_converges (f : R -> R -> R) (x : R -> R) (t0 T L K : R) (M : nat) :
  0 < T -> 0 < L -> (0 < M)%nat ->
  (forall t, t0 <= t <= t0 + T -> is_derive x t (f t (x t))) ->
  (forall t, t0 <= t <= t0 + T -> ex_derive_n x 2 t) ->
  (forall t, t0 <= t <= t0 + T -> Rabs (Derive_n x 2 t) <= K) ->
  (forall t a b, t0 <= t <= t0 + T -> Rabs (f t a - f t b) <= L * Rabs (a - b)) ->
  let h := T / INR M in
  let sys := mkSys (fun X t => [f t (nth 0 X 0)]) (fun _ _ => []) in
  let st := @discrete_system R ROps (intg_expl_euler sys) M 0 [x t0] T t0 in
  forall j, (j <= M)%nat ->
    Rabs (nth 0 (nth j (ds_X st) [x t0]) 0 - x (t0 + INR j * h))
    <= (K / 2 * ((exp (T * L) - 1) / L)) * h.
Proof.
  intros HT HL HM Hsol Hex2 HK Hlip h sys st j Hj.
  assert (HMr : 0 < INR M) by (apply lt_0_INR; exact HM).
  assert (Hh : 0 < h) by (apply Rdiv_lt_0_compat; assumption).
  assert (HK0 : 0 <= K).
  { eapply Rle_trans; [apply Rabs_pos|apply (HK t0); lra]. }
  subst st. rewrite (discrete_system_Xi R_field_laws) by exact Hj.
  change (@odiv R ROps T (@of_nat R ROps M)) with (T / @of_nat R ROps M).
  rewrite of_nat_R. fold h.
  change sys with (scalar_sys f). rewrite euler_model_iter. cbn [nth].
  set (e := fun k : nat => if (k <=? M)%nat
                           then Rabs (euler_seq f t0 h k (x t0) - x (t0 + INR k * h)) else 0).
  assert (He0 : forall k, 0 <= e k).
  { intro k. unfold e. destruct (k <=? M)%nat; [apply Rabs_pos|lra]. }
  assert (Hej : e j = Rabs (euler_seq f t0 h j (x t0) - x (t0 + INR j * h))).
  { unfold e. apply Nat.leb_le in Hj. rewrite Hj. reflexivity. }
  rewrite <- Hej.
  replace (K / 2 * ((exp (T * L) - 1) / L) * h) with (K / 2 * ((exp (T * L) - 1) / L) * h ^ 1)
    by (rewrite pow_1; reflexivity).
  apply (global_error_order e h L (K / 2) T 1 j Hh HL).
  - lra.
  - unfold e. cbn [Nat.leb INR euler_seq]. rewrite Rmult_0_l, Rplus_0_r.
    replace (x t0 - x t0) with 0 by ring. apply Rabs_R0.
  - apply (grid_le T M j HT HM Hj).
  - intro k.
    assert (Hpos : 0 <= (1 + h * L) * e k + K / 2 * h ^ 2).
    { specialize (He0 k). assert (0 <= h * L) by (apply Rmult_le_pos; lra).
      assert (0 <= (1 + h * L) * e k) by (apply Rmult_le_pos; lra).
      assert (0 <= K / 2 * h ^ 2) by (apply Rmult_le_pos; [lra|apply pow2_ge_0]). lra. }
    unfold e at 1. destruct (S k <=? M)%nat eqn:Hk; [|exact Hpos].
    apply Nat.leb_le in Hk.
    assert (Hk' : (k <=? M)%nat = true) by (apply Nat.leb_le; lia).
    unfold e. rewrite Hk'. cbn [euler_seq].
    set (y := euler_seq f t0 h k (x t0)).
    set (tk := t0 + INR k * h).
    pose proof (grid_le T M k HT HM ltac:(lia)) as Gk. fold h in Gk.
    pose proof (grid_le T M (S k) HT HM Hk) as Gk1. fold h in Gk1.
    rewrite S_INR in Gk1.
    replace (t0 + INR (S k) * h) with (tk + h) by (rewrite S_INR; unfold tk; ring).
    assert (Itk : t0 <= tk <= t0 + T) by (unfold tk; lra).
    assert (Isub : forall t, tk <= t <= tk + h -> t0 <= t <= t0 + T).
    { intros t Ht. unfold tk in *. lra. }
    assert (R := taylor2 x tk h K Hh
      (fun t Ht => ex_intro _ _ (Hsol t (Isub t Ht)))
      (fun t Ht => Hex2 t (Isub t Ht)) (fun t Ht => HK t (Isub t Ht))).
    rewrite (is_derive_unique _ _ _ (Hsol tk Itk)) in R.
    pose proof (Hlip tk y (x tk) Itk) as Lp.
    set (D := y - x tk) in *. set (G := f tk y - f tk (x tk)) in *.
    set (r := x (tk + h) - x tk - h * f tk (x tk)) in *.
    replace (y + h * f tk y - x (tk + h)) with (D + h * G + - r) by (unfold D, G, r; ring).
    eapply Rle_trans; [apply Rabs_triang|]. rewrite Rabs_Ropp.
    eapply Rle_trans; [apply Rplus_le_compat_r; apply Rabs_triang|].
    rewrite Rabs_mult, (Rabs_pos_eq h) by lra.
    assert (h * Rabs G <= h * (L * Rabs D)) by (apply Rmult_le_compat_l; lra).
    lra.
Qed.

(* the same with the hypotheses stated globally *)
Corollary euler_converges_global (f : R -> R -> R) (x : R -> R) (t0 T L K : R) (M : nat) :
  0 < T -> 0 < L -> 0 <= K -> (0 < M)%nat ->
  (forall t, is_derive x t (f t (x t))) ->
  (forall t, ex_derive_n x 2 t) ->
  (forall t, t0 <= t <= t0 + T -> Rabs (Derive_n x 2 t) <= K) ->
  (forall t a b, Rabs (f t a - f t b) <= L * Rabs (a - b)) ->
  let h := T / INR M in
  let sys := mkSys (fun X t => [f t (nth 0 X 0)]) (fun _ _ => []) in
  let st := @discrete_system R ROps (intg_expl_euler sys) M 0 [x t0] T t0 in
  forall j, (j <= M)%nat ->
    Rabs (nth 0 (nth j (ds_X st) [x t0]) 0 - x (t0 + INR j * h))
    <= (K / 2 * ((exp (T * L) - 1) / L)) * h.
Proof.
  intros HT HL _ HM Hsol Hex2 HK Hlip.
  apply (euler_converges f x t0 T L K M HT HL HM); auto.
Qed.

(* the hypotheses are satisfiable: x' = x, x = exp, L = 1, K = exp (t0 + T) *)
Example euler_converges_exp (t0 T : R) (M : nat) :
  0 < T -> (0 < M)%nat ->
  let h := T / INR M in
  let sys := mkSys (fun X (_ : R) => [nth 0 X 0]) (fun _ _ => []) in
  let st := @discrete_system R ROps (intg_expl_euler sys) M 0 [exp t0] T t0 in
  forall j, (j <= M)%nat ->
    Rabs (nth 0 (nth j (ds_X st) [exp t0]) 0 - exp (t0 + INR j * h))
    <= (exp (t0 + T) / 2 * ((exp (T * 1) - 1) / 1)) * h.
Proof.
  intros HT HM.
  apply (euler_converges (fun _ y => y) exp t0 T 1 (exp (t0 + T)) M HT Rlt_0_1 HM).
  - intros t _. apply is_derive_exp.
  - intros t _. exists (exp t). exact (is_derive_n_exp 2 t).
  - intros t Ht. rewrite (is_derive_n_unique _ _ _ _ (is_derive_n_exp 2 t)).
    rewrite Rabs_pos_eq by (left; apply exp_pos).
    destruct Ht as [_ [Ht|Ht]]; [left; apply exp_increasing; exact Ht|rewrite Ht; apply Rle_refl].
  - intros t a b _. lra.
Qed.

(* ------------------------------------------------------------------ RK4, linear test equation *)
Definition rk4R (z : R) : R := 1 + z + z * z / 2 + z * z * z / 6 + z * z * z * z / 24.

Lemma rk4_model_step lam y t h DTc : h <> 0 ->
  r_xf (@intg_rk R ROps (lin_sys lam) [y] t h DTc) = [rk4R (lam * h) * y].
Proof.
  intro Hh.
  pose proof (@rk4_stability_poly R ROps R_field_laws Char0_R lam y t h DTc Hh) as E.
  cbv zeta in E. rewrite E. rewrite !of_Z_R. unfold o2. cbn [oadd omul odiv o1 ROps].
  unfold rk4R. reflexivity.
Qed.

Lemma rk4_model_iter lam t0 h DTc j x0 : h <> 0 ->
  iter_steps (fun t X => r_xf (@intg_rk R ROps (lin_sys lam) X t h DTc)) t0 h j [x0]
  = [rk4R (lam * h) ^ j * x0].
Proof.
  intro Hh. induction j as [|j IH]; cbn [iter_steps pow].
  - f_equal. ring.
  - rewrite IH, rk4_model_step by exact Hh. f_equal. ring.
Qed.

Lemma Derive_n_exp n x : Derive_n exp n x = exp x.
Proof. apply is_derive_n_unique. apply is_derive_n_exp. Qed.

Lemma ex_derive_n_exp n x : ex_derive_n exp n x.
Proof. destruct n as [|n]; [exact I|]. exists (exp x). exact (is_derive_n_exp (S n) x). Qed.

Lemma exp_taylor4 (z : R) :
  exists th, 0 < th < 1 /\ exp z = rk4R z + z ^ 5 / 120 * exp (z * th).
Proof.
  assert (Hloc : forall n y, locally y (fun y0 : R => forall k, (k <= n)%nat -> ex_derive_n exp k y0)).
  { intros n y. apply filter_forall. intros y0 k _. apply ex_derive_n_exp. }
  destruct (Taylor_Lagrange (fun s => exp (z * s)) 4 0 1 Rlt_0_1) as (th & Hth & E).
  - intros t _ k _. apply ex_derive_n_comp_scal. apply Hloc.
  - exists th. split; [exact Hth|].
    rewrite Rmult_1_r in E. rewrite E. cbn [sum_f_R0].
    rewrite !Derive_n_comp_scal by apply Hloc. rewrite !Derive_n_exp.
    rewrite Rmult_0_r, exp_0.
    replace (INR (fact 0)) with 1 by reflexivity.
    replace (INR (fact 1)) with 1 by reflexivity.
    replace (INR (fact 2)) with 2 by (rewrite INR_IZR_INZ; reflexivity).
    replace (INR (fact 3)) with 6 by (rewrite INR_IZR_INZ; reflexivity).
    replace (INR (fact 4)) with 24 by (rewrite INR_IZR_INZ; reflexivity).
    replace (INR (fact 5)) with 120 by (rewrite INR_IZR_INZ; reflexivity).
    unfold rk4R. field.
Qed.

(* one-step local error of the stability polynomial against exp: order 5 *)
Theorem rk4_local_error (z : R) :
  Rabs z <= 1 -> Rabs (rk4R z - exp z) <= exp 1 / 120 * Rabs z ^ 5.
Proof.
  intro Hz. destruct (exp_taylor4 z) as (th & Hth & E). rewrite E.
  replace (rk4R z - (rk4R z + z ^ 5 / 120 * exp (z * th))) with (- (z ^ 5 / 120 * exp (z * th))) by ring.
  rewrite Rabs_Ropp, Rabs_mult. unfold Rdiv at 1. rewrite Rabs_mult, <- RPow_abs.
  rewrite (Rabs_pos_eq (/ 120)) by lra.
  rewrite (Rabs_pos_eq (exp (z * th))) by (left; apply exp_pos).
  assert (Hp : 0 <= Rabs z ^ 5) by (apply pow_le; apply Rabs_pos).
  assert (Hle : z * th <= 1).
  { eapply Rle_trans; [apply Rle_abs|]. rewrite Rabs_mult, (Rabs_pos_eq th) by lra.
    pose proof (Rabs_pos z). nra. }
  assert (He : exp (z * th) <= exp 1).
  { destruct Hle as [Hl|Hl]; [left; apply exp_increasing; exact Hl|rewrite Hl; apply Rle_refl]. }
  pose proof (exp_pos (z * th)).
  replace (exp 1 / 120 * Rabs z ^ 5) with (Rabs z ^ 5 * / 120 * exp 1) by field.
  apply Rmult_le_compat_l; [|exact He].
  apply Rmult_le_pos; lra.
Qed.

Lemma rk4R_bound (z : R) : Rabs z <= 1 -> Rabs (rk4R z) <= 1 + 2 * Rabs z.
Proof.
  intro Hz. unfold rk4R.
  set (a := Rabs z) in *.
  assert (Ha : 0 <= a) by apply Rabs_pos.
  assert (H1 : Rabs (z * z) = a * a) by (rewrite Rabs_mult; reflexivity).
  assert (H2 : Rabs (z * z * z) = a * a * a) by (rewrite !Rabs_mult; reflexivity).
  assert (H3 : Rabs (z * z * z * z) = a * a * a * a) by (rewrite !Rabs_mult; reflexivity).
  eapply Rle_trans; [apply Rabs_triang|].
  eapply Rle_trans; [apply Rplus_le_compat_r; apply Rabs_triang|].
  eapply Rle_trans; [apply Rplus_le_compat_r; apply Rplus_le_compat_r; apply Rabs_triang|].
  eapply Rle_trans; [apply Rplus_le_compat_r; apply Rplus_le_compat_r; apply Rplus_le_compat_r; apply Rabs_triang|].
  unfold Rdiv. rewrite !(Rabs_mult _ (/ _)), H1, H2, H3.
  rewrite Rabs_R1, (Rabs_pos_eq (/ 2)), (Rabs_pos_eq (/ 6)), (Rabs_pos_eq (/ 24)) by lra.
  fold a.
  assert (a * a <= a) by nra.
  assert (a * a * a <= a) by nra.
  assert (a * a * a * a <= a) by nra.
  lra.
Qed.

Theorem rk4_linear_converges (lam x0 t0 T : R) (M : nat) :
  0 < T -> lam <> 0 -> (0 < M)%nat ->
  let h := T / INR M in
  Rabs lam * h <= 1 ->
  let st := @discrete_system R ROps (intg_rk (lin_sys lam)) M 0 [x0] T t0 in
  let C := (exp 1 / 120 * Rabs lam ^ 5 * exp (Rabs lam * T) * Rabs x0)
           * ((exp (T * (2 * Rabs lam)) - 1) / (2 * Rabs lam)) in
  forall j, (j <= M)%nat ->
    Rabs (nth 0 (nth j (ds_X st) [x0]) 0 - exp (lam * (INR j * h)) * x0) <= C * h ^ 4.
Proof.
  intros HT Hlam HM h Hz st C j Hj.
  assert (HMr : 0 < INR M) by (apply lt_0_INR; exact HM).
  assert (Hh : 0 < h) by (apply Rdiv_lt_0_compat; assumption).
  assert (Hal : 0 < Rabs lam) by (apply Rabs_pos_lt; exact Hlam).
  subst st. rewrite (discrete_system_Xi R_field_laws) by exact Hj.
  change (@odiv R ROps T (@of_nat R ROps M)) with (T / @of_nat R ROps M).
  rewrite of_nat_R. fold h.
  rewrite rk4_model_iter by lra. cbn [nth].
  set (z := lam * h).
  assert (Haz : Rabs z = h * Rabs lam).
  { unfold z. rewrite Rabs_mult, (Rabs_pos_eq h) by lra. ring. }
  assert (Hz1 : Rabs z <= 1) by (rewrite Haz; lra).
  set (xx := fun k : nat => exp (lam * (INR k * h)) * x0).
  set (e := fun k : nat => if (k <=? M)%nat then Rabs (rk4R z ^ k * x0 - xx k) else 0).
  assert (He0 : forall k, 0 <= e k).
  { intro k. unfold e. destruct (k <=? M)%nat; [apply Rabs_pos|lra]. }
  assert (Hej : e j = Rabs (rk4R z ^ j * x0 - xx j)).
  { unfold e. apply Nat.leb_le in Hj. rewrite Hj. reflexivity. }
  change (exp (lam * (INR j * h)) * x0) with (xx j). rewrite <- Hej.
  set (C0 := exp 1 / 120 * Rabs lam ^ 5 * exp (Rabs lam * T) * Rabs x0).
  assert (HC0 : 0 <= C0).
  { unfold C0. pose proof (exp_pos 1). pose proof (exp_pos (Rabs lam * T)).
    pose proof (Rabs_pos x0). assert (0 <= Rabs lam ^ 5) by (apply pow_le; lra).
    repeat apply Rmult_le_pos; lra. }
  apply (global_error_order e h (2 * Rabs lam) C0 T 4 j Hh).
  - lra.
  - exact HC0.
  - unfold e, xx. cbn [Nat.leb INR pow]. rewrite Rmult_0_l, Rmult_0_r, exp_0.
    replace (1 * x0 - 1 * x0) with 0 by ring. apply Rabs_R0.
  - apply (grid_le T M j HT HM Hj).
  - intro k.
    assert (Hpos : 0 <= (1 + h * (2 * Rabs lam)) * e k + C0 * h ^ 5).
    { specialize (He0 k). assert (0 <= h * (2 * Rabs lam)) by (apply Rmult_le_pos; lra).
      assert (0 <= (1 + h * (2 * Rabs lam)) * e k) by (apply Rmult_le_pos; lra).
      assert (0 <= C0 * h ^ 5) by (apply Rmult_le_pos; [lra|apply pow_le; lra]). lra. }
    unfold e at 1. destruct (S k <=? M)%nat eqn:Hk; [|exact Hpos].
    apply Nat.leb_le in Hk.
    assert (Hk' : (k <=? M)%nat = true) by (apply Nat.leb_le; lia).
    unfold e. rewrite Hk'.
    pose proof (grid_le T M k HT HM ltac:(lia)) as Gk. fold h in Gk.
    assert (Exx : xx (S k) = exp z * xx k).
    { unfold xx, z. rewrite S_INR.
      replace (lam * ((INR k + 1) * h)) with (lam * h + lam * (INR k * h)) by ring.
      rewrite exp_plus. ring. }
    rewrite Exx. cbn [pow].
    set (y := rk4R z ^ k * x0).
    replace (rk4R z * rk4R z ^ k * x0 - exp z * xx k)
      with (rk4R z * (y - xx k) + (rk4R z - exp z) * xx k) by (unfold y; ring).
    eapply Rle_trans; [apply Rabs_triang|]. rewrite !Rabs_mult.
    pose proof (rk4R_bound z Hz1) as B1. pose proof (rk4_local_error z Hz1) as B2.
    rewrite Haz in B1.
    assert (B3 : Rabs (xx k) <= exp (Rabs lam * T) * Rabs x0).
    { unfold xx. rewrite Rabs_mult, (Rabs_pos_eq (exp _)) by (left; apply exp_pos).
      apply Rmult_le_compat_r; [apply Rabs_pos|].
      assert (Hle : lam * (INR k * h) <= Rabs lam * T).
      { eapply Rle_trans; [apply Rle_abs|]. rewrite Rabs_mult, (Rabs_pos_eq (INR k * h)) by lra.
        apply Rmult_le_compat_l; lra. }
      destruct Hle as [Hl|Hl]; [left; apply exp_increasing; exact Hl|rewrite Hl; apply Rle_refl]. }
    assert (B4 : Rabs (rk4R z - exp z) * Rabs (xx k) <= C0 * h ^ 5).
    { replace (C0 * h ^ 5) with ((exp 1 / 120 * Rabs z ^ 5) * (exp (Rabs lam * T) * Rabs x0)).
      - apply Rmult_le_compat; [apply Rabs_pos|apply Rabs_pos|exact B2|exact B3].
      - rewrite Haz, Rpow_mult_distr. unfold C0. ring. }
    assert (B5 : Rabs (rk4R z) * Rabs (y - xx k) <= (1 + 2 * (h * Rabs lam)) * Rabs (y - xx k)).
    { apply Rmult_le_compat_r; [apply Rabs_pos|exact B1]. }
    replace (1 + h * (2 * Rabs lam)) with (1 + 2 * (h * Rabs lam)) by ring.
    lra.
Qed.

(* the hypotheses are satisfiable: x' = -x on [t0, t0 + 1], any number of steps *)
Example rk4_linear_converges_decay (x0 t0 : R) (M : nat) :
  (0 < M)%nat ->
  let h := 1 / INR M in
  let st := @discrete_system R ROps (intg_rk (lin_sys (-1))) M 0 [x0] 1 t0 in
  forall j, (j <= M)%nat ->
    Rabs (nth 0 (nth j (ds_X st) [x0]) 0 - exp (-1 * (INR j * h)) * x0)
    <= (exp 1 / 120 * Rabs (-1) ^ 5 * exp (Rabs (-1) * 1) * Rabs x0
        * ((exp (1 * (2 * Rabs (-1))) - 1) / (2 * Rabs (-1)))) * h ^ 4.
Proof.
  intros HM.
  apply (rk4_linear_converges (-1) x0 t0 1 M Rlt_0_1 ltac:(lra) HM).
  assert (E1 : Rabs (-1) = 1) by (unfold Rabs; destruct (Rcase_abs (-1)); lra).
  rewrite E1, Rmult_1_l.
  assert (1 <= INR M) by (apply (le_INR 1); lia).
  assert (0 < / INR M) by (apply Rinv_0_lt_compat; lra).
  assert (INR M * / INR M = 1) by (field; lra).
  unfold Rdiv. nra.
Qed.

Print Assumptions euler_converges.
Print Assumptions rk4_local_error.
Print Assumptions rk4_linear_converges.
