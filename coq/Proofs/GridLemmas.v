(* Facts about linspace and the integrator grid: every integrator step of control
   interval k has length (t_{k+1} - t_k)/M. *)
From Coq Require Import ZArith List Field Lia Bool.
From RV Require Import Base.Num Base.PyList Base.Vec Expr Ocp Rows Mech.Grid
     Proofs.NumLemmas Proofs.ListLemmas Proofs.PyLemmas.
Import ListNotations.

Lemma nth_removelast {A} (l : list A) d i : S i < length l -> nth i (removelast l) d = nth i l d.
Proof.
  revert i. induction l as [|x l IH]; intros i H; [cbn in H; lia|].
  destruct l as [|y l]; [cbn in H; lia|].
  destruct i as [|i]; [reflexivity|].
  change (removelast (x :: y :: l)) with (x :: removelast (y :: l)).
  cbn [nth]. apply IH. cbn in *. lia.
Qed.

Lemma length_removelast {A} (l : list A) : length (removelast l) = length l - 1.
Proof.
  induction l as [|x l IH]; [reflexivity|].
  destruct l as [|y l]; [reflexivity|].
  change (removelast (x :: y :: l)) with (x :: removelast (y :: l)).
  cbn [length] in *. rewrite IH. lia.
Qed.

Section GridLemmas.
Context {F : Type} {OF : Ops F}.
Hypothesis Fth : field_theory o0 o1 oadd omul osub oopp odiv oinv (@eq F).
Hypothesis Ch0 : @Char0 F OF.
Add Field FFg : Fth.

Lemma of_nat_nz n : n <> 0 -> (@of_nat F OF n) <> o0.
Proof.
  intro H. unfold of_nat. destruct (Z.of_nat n) as [|p|p] eqn:E; try lia.
  cbn. apply Ch0.
Qed.

Lemma linspace_length (a b : F) n : length (linspace a b n) = S n.
Proof.
  unfold linspace. destruct n as [|n]; [reflexivity|].
  rewrite app_length, map_length, seq_length. cbn. lia.
Qed.

Lemma linspace_nth (a b : F) n i : i < n ->
  nth i (linspace a b n) o0 = a +! of_nat i *! ((b -! a) /! of_nat n).
Proof.
  intro H. unfold linspace. destruct n as [|n]; [lia|].
  rewrite app_nth1 by (rewrite map_length, seq_length; exact H).
  rewrite nth_map_seq by exact H. reflexivity.
Qed.

Lemma linspace_last (a b : F) n : 0 < n -> nth n (linspace a b n) o0 = b.
Proof.
  intro H. unfold linspace. destruct n as [|n]; [lia|].
  rewrite app_nth2 by (rewrite map_length, seq_length; lia).
  rewrite map_length, seq_length, Nat.sub_diag. reflexivity.
Qed.

(* consecutive entries of linspace differ by (b-a)/n *)
Lemma linspace_step (a b : F) n i : i < n ->
  nth (S i) (linspace a b n) o0 -! nth i (linspace a b n) o0 = (b -! a) /! of_nat n.
Proof.
  intro H. assert (Hn : (@of_nat F OF n) <> o0) by (apply of_nat_nz; lia).
  rewrite (linspace_nth a b n i H).
  destruct (Nat.eq_dec (S i) n) as [E|E].
  - rewrite E, linspace_last by lia.
    assert (Ei : (@of_nat F OF n) = of_nat i +! o1) by (rewrite <- E; apply (of_nat_S Fth)).
    rewrite Ei in *. field. exact Hn.
  - rewrite linspace_nth by lia. rewrite (of_nat_S Fth). field. exact Hn.
Qed.

Section IG.
Variables (cg : list F) (N M : nat).
Hypothesis HM : 0 < M.
Let ig := integrator_grid cg N M.
Definition tk (k : nat) : F := nth k cg o0.

Lemma ig_length : length ig = N.
Proof. unfold ig, integrator_grid. rewrite map_length, seq_length. reflexivity. Qed.

Lemma ig_nth k : k < N ->
  nth k ig [] = let tl := linspace (tk k) (tk (S k)) M in
                if S k <? N then removelast tl else tl.
Proof.
  intro H. unfold ig, integrator_grid.
  rewrite nth_map_seq by exact H. reflexivity.
Qed.

Lemma ig_nth0 k : k < N -> nth 0 (nth k ig []) o0 = tk k.
Proof.
  intro H. rewrite ig_nth by exact H. cbn zeta.
  assert (E : nth 0 (linspace (tk k) (tk (S k)) M) o0 = tk k).
  { rewrite linspace_nth by exact HM. rewrite of_nat_0. ring. }
  destruct (S k <? N); [|exact E].
  rewrite nth_removelast by (rewrite linspace_length; lia). exact E.
Qed.

(* get_DT_at(k, i) for a proper interval and step *)
Theorem get_DT_at_spec k i : k < N -> i < M ->
  get_DT_at ig (Z.of_nat k) i = (tk (S k) -! tk k) /! of_nat M.
Proof.
  intros Hk Hi. unfold get_DT_at.
  rewrite pygetd_nat by (rewrite ig_length; exact Hk).
  rewrite ig_nth by exact Hk. cbn zeta.
  set (tl := linspace (tk k) (tk (S k)) M).
  assert (Hl : length tl = S M) by apply linspace_length.
  assert (HMnz : (@of_nat F OF M) <> o0) by (apply of_nat_nz; lia).
  destruct (S k <? N) eqn:EkN.
  - apply Nat.ltb_lt in EkN. rewrite length_removelast, Hl.
    replace (S M - 1 - 1) with (M - 1) by lia.
    destruct (i <? M - 1) eqn:Ei.
    + apply Nat.ltb_lt in Ei.
      rewrite !nth_removelast by (rewrite Hl; lia).
      apply linspace_step. lia.
    + apply Nat.ltb_ge in Ei. assert (i = M - 1) by lia. subst i.
      replace (Z.of_nat k + 1)%Z with (Z.of_nat (S k)) by lia.
      rewrite pygetd_nat by (rewrite ig_length; lia).
      rewrite ig_nth0 by lia.
      rewrite nth_removelast by (rewrite Hl; lia).
      unfold tl. rewrite linspace_nth by lia.
      assert (EM : (@of_nat F OF M) = of_nat (M - 1) +! o1).
      { rewrite <- (of_nat_S Fth). f_equal. lia. }
      rewrite EM in *. field. exact HMnz.
  - rewrite Hl. replace (S M - 1) with M by lia.
    destruct (i <? M) eqn:Ei; [|apply Nat.ltb_ge in Ei; lia].
    apply linspace_step. exact Hi.
Qed.

(* get_DT_at(-1, M-1): the last step of the last interval *)
Theorem get_DT_at_final : 0 < N ->
  get_DT_at ig (-1) (M - 1) = (tk N -! tk (N - 1)) /! of_nat M.
Proof.
  intro HN. unfold get_DT_at.
  rewrite pygetd_m1 by (rewrite ig_length; lia). rewrite ig_length.
  rewrite ig_nth by lia. cbn zeta.
  replace (S (N - 1)) with N by lia.
  rewrite Nat.ltb_irrefl.
  rewrite linspace_length. replace (S M - 1) with M by lia.
  destruct (M - 1 <? M) eqn:E; [|apply Nat.ltb_ge in E; lia].
  replace (S (M - 1)) with M by lia.
  pose proof (linspace_step (tk (N - 1)) (tk N) M (M - 1)) as H.
  replace (S (M - 1)) with M in H by lia. apply H. lia.
Qed.

End IG.

End GridLemmas.
