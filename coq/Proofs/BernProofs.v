(* C15: the Bernstein-form algebra of Mech/Bern.v represents the polynomial operations exactly, and
   coefficients below a bound keep the polynomial below it on the whole step — for every degree. *)
From Coq Require Import ZArith QArith List Field Lia Bool.
From RV Require Import Base.Num Base.PyList Base.Vec Base.Poly Expr Ocp Rows Mech.Grid Mech.Sampling Mech.Inf Mech.Bern Proofs.NumLemmas Proofs.VecLemmas
     Proofs.InfProofs.
Import ListNotations.
Local Open Scope nat_scope.

(* ---- lists *)
Lemma zw_length {A B C} (f : A -> B -> C) a b : length (zw f a b) = Nat.min (length a) (length b).
Proof.
  revert b. induction a as [|x a IH]; intros [|y b]; cbn [zw length Nat.min]; try reflexivity.
  rewrite IH. reflexivity.
Qed.

Lemma browN_length n : length (browN n) = S n.
Proof.
  induction n as [|n IH]; cbn [browN]; [reflexivity|].
  rewrite zw_length. cbn [length]. rewrite app_length, IH. cbn [length]. lia.
Qed.

Lemma zw_shift_pos r x :
  Forall (fun v => 1 <= v) r -> (1 <= x \/ r <> []) ->
  Forall (fun v => 1 <= v) (zw Nat.add (x :: r) (r ++ [0])).
Proof.
  revert x. induction r as [|y r IH]; intros x Hr Hx.
  - cbn [zw app]. constructor; [|constructor]. destruct Hx as [Hx|Hx]; [lia|congruence].
  - cbn [zw app]. inversion Hr as [|y' r' Hy Hr']; subst.
    constructor; [lia|]. apply IH; [exact Hr'|left; exact Hy].
Qed.

Lemma browN_pos n : Forall (fun v => 1 <= v) (browN n).
Proof.
  induction n as [|n IH]; cbn [browN].
  - constructor; [lia|constructor].
  - apply zw_shift_pos; [exact IH|right]. intro E. pose proof (browN_length n) as L. rewrite E in L. discriminate.
Qed.

Section BernProofs.
Context {F : Type} {OF : Ops F}.
Hypothesis Fth : field_theory o0 o1 oadd omul osub oopp odiv oinv (@eq F).
Hypothesis Ch0 : @Char0 F OF.
Add Field FFb : Fth.

Lemma opow_add (t : F) m n : opow t (m + n) = opow t m *! opow t n.
Proof. induction m as [|m IH]; cbn [Nat.add opow]; [ring|rewrite IH; ring]. Qed.

Lemma opow_sub_add (t : F) m n : n <= m -> opow t (m - n) *! opow t n = opow t m.
Proof. intro H. rewrite <- opow_add. f_equal. lia. Qed.

Lemma opow_one n : opow (o1 : F) n = o1.
Proof. induction n as [|n IH]; cbn [opow]; [reflexivity|rewrite IH; ring]. Qed.

Lemma of_nat_add m n : (of_nat (m + n) : F) = of_nat m +! of_nat n.
Proof.
  induction m as [|m IH]; cbn [Nat.add].
  - rewrite of_nat_0. ring.
  - rewrite !(of_nat_S Fth), IH. ring.
Qed.

Lemma of_nat_nz n : 1 <= n -> (of_nat n : F) <> o0.
Proof.
  intro H. destruct n as [|n]; [lia|]. unfold of_nat. cbn [Z.of_nat of_Z]. apply Ch0.
Qed.

(* ---- the homogeneous form *)
Lemma hom_vadd (a b : list F) s t :
  hom (vadd a b) s t
  = opow t (Nat.max (length a) (length b) - length a) *! hom a s t
    +! opow t (Nat.max (length a) (length b) - length b) *! hom b s t.
Proof.
  revert b. induction a as [|x a IH]; intros b.
  - cbn [vadd length hom Nat.max]. rewrite Nat.sub_diag. cbn [opow]. ring.
  - destruct b as [|y b].
    + cbn [vadd length Nat.max]. rewrite Nat.sub_diag. cbn [opow hom]. ring.
    + cbn [vadd hom length]. rewrite IH, length_vadd.
      change (Nat.max (S (length a)) (S (length b))) with (S (Nat.max (length a) (length b))).
      cbn [Nat.sub].
      set (m := Nat.max (length a) (length b)).
      assert (Ha : length a <= m) by (unfold m; lia).
      assert (Hb : length b <= m) by (unfold m; lia).
      pose proof (opow_sub_add t m (length a) Ha) as Ea.
      pose proof (opow_sub_add t m (length b) Hb) as Eb.
      transitivity (x *! (opow t (m - length a) *! opow t (length a)) +! y *! (opow t (m - length b) *! opow t (length b))
                    +! s *! (opow t (m - length a) *! hom a s t +! opow t (m - length b) *! hom b s t)).
      * rewrite Ea, Eb. ring.
      * ring.
Qed.

Lemma hom_vadd_same (a b : list F) s t :
  length a = length b -> hom (vadd a b) s t = hom a s t +! hom b s t.
Proof.
  intro H. rewrite hom_vadd, H, Nat.max_id, Nat.sub_diag. cbn [opow]. ring.
Qed.

Lemma hom_vscale c (a : list F) s t : hom (vscale c a) s t = c *! hom a s t.
Proof.
  induction a as [|x a IH]; cbn [vscale map hom].
  - ring.
  - unfold vscale in IH. rewrite IH, map_length. ring.
Qed.

Lemma hom_vsub_same (a b : list F) s t :
  length a = length b -> hom (vsub a b) s t = hom a s t -! hom b s t.
Proof.
  revert b. induction a as [|x a IH]; intros [|y b] H; try discriminate.
  - cbn. ring.
  - cbn [vsub hom]. rewrite IH by (cbn in H; lia). rewrite length_vsub.
    replace (Nat.max (length a) (length b)) with (length a) by (cbn in H; lia).
    replace (length b) with (length a) by (cbn in H; lia). ring.
Qed.

Lemma hom_app0 (a : list F) s t : hom (a ++ [o0]) s t = t *! hom a s t.
Proof.
  induction a as [|x a IH]; cbn [app hom length].
  - cbn [opow]. ring.
  - rewrite IH, app_length. cbn [length]. rewrite Nat.add_1_r. cbn [opow]. ring.
Qed.

Lemma length_pmul (p q : list F) :
  p <> [] -> q <> [] -> length (pmul p q) = length p + length q - 1.
Proof.
  intros Hp Hq. induction p as [|c p IH]; [congruence|].
  cbn [pmul]. unfold padd, pscale. rewrite length_vadd, length_vscale. cbn [length].
  destruct p as [|c' p].
  - cbn [pmul length]. destruct q; [congruence|cbn [length]; lia].
  - rewrite IH by discriminate. cbn [length]. destruct q; [congruence|cbn [length]; lia].
Qed.

Lemma hom_pmul (p q : list F) s t : q <> [] -> hom (pmul p q) s t = hom p s t *! hom q s t.
Proof.
  intro Hq. induction p as [|c p IH].
  - cbn. ring.
  - cbn [pmul]. unfold padd, pscale. rewrite hom_vadd, hom_vscale, length_vscale.
    cbn [hom length]. rewrite IH.
    destruct p as [|c' p].
    + cbn [pmul length hom opow].
      replace (Nat.max (length q) 1) with (length q) by (destruct q; [congruence|cbn [length]; lia]).
      rewrite Nat.sub_diag. cbn [opow]. ring.
    + rewrite length_pmul by (discriminate || assumption). cbn [length].
      assert (Hl : 1 <= length q) by (destruct q; [congruence|cbn [length]; lia]).
      replace (Nat.max (length q) (S (S (length p) + length q - 1))) with (S (length p) + length q) by lia.
      replace (S (length p) + length q - length q) with (S (length p)) by lia.
      replace (S (length p) + length q - S (S (length p) + length q - 1)) with 0 by lia.
      cbn [opow hom length]. ring.
Qed.

(* ---- Pascal rows *)
Lemma map_of_nat_zw (a b : list nat) :
  length a = length b ->
  map (@of_nat F OF) (zw Nat.add a b) = vadd (map of_nat a) (map of_nat b).
Proof.
  revert b. induction a as [|x a IH]; intros [|y b] H; try discriminate; [reflexivity|].
  cbn [zw map vadd]. rewrite of_nat_add, IH by (cbn in H; lia). reflexivity.
Qed.

Lemma brow_length n : length (brow n : list F) = S n.
Proof. unfold brow. rewrite map_length. apply browN_length. Qed.

Lemma brow_S n : (brow (S n) : list F) = vadd (o0 :: brow n) (brow n ++ [o0]).
Proof.
  unfold brow. cbn [browN]. rewrite map_of_nat_zw.
  - cbn [map]. rewrite map_app. reflexivity.
  - cbn [length]. rewrite app_length. cbn [length]. lia.
Qed.

Lemma hom_brow n s t : hom (brow n) s t = opow (s +! t) n.
Proof.
  induction n as [|n IH].
  - cbn. ring.
  - rewrite brow_S, hom_vadd_same.
    + rewrite hom_app0. cbn [hom]. rewrite IH. cbn [opow]. ring.
    + cbn [length]. rewrite app_length. cbn [length]. lia.
Qed.

Lemma brow_nz n : Forall (fun v : F => v <> o0) (brow n).
Proof.
  unfold brow. pose proof (browN_pos n) as H. induction H as [|x l Hx Hl IH]; cbn [map]; constructor.
  - apply of_nat_nz. exact Hx.
  - exact IH.
Qed.

(* ---- scaling *)
Lemma zw_mul_div (r c : list F) :
  length r = length c -> Forall (fun v => v <> o0) r -> zw omul r (zw odiv c r) = c.
Proof.
  revert c. induction r as [|x r IH]; intros [|y c] H Hr; try discriminate; [reflexivity|].
  inversion Hr as [|x' r' Hx Hr']; subst. cbn [zw]. rewrite IH by (cbn in H; lia || assumption).
  f_equal. field. exact Hx.
Qed.

Lemma bunscale_length (c : list F) : length (bunscale c) = length c.
Proof.
  unfold bunscale. rewrite zw_length, brow_length. destruct c; cbn [length]; lia.
Qed.

Lemma bscale_length (c : list F) : length (bscale c) = length c.
Proof.
  unfold bscale. rewrite zw_length, brow_length. destruct c; cbn [length]; lia.
Qed.

Lemma bscale_bunscale (c : list F) : c <> [] -> bscale (bunscale c) = c.
Proof.
  intro H. unfold bscale. rewrite bunscale_length. unfold bunscale.
  apply zw_mul_div; [|apply brow_nz].
  rewrite brow_length. destruct c; [congruence|cbn [length]; lia].
Qed.

Lemma zw_mul_vadd (r a b : list F) :
  length a = length b -> zw omul r (vadd a b) = vadd (zw omul r a) (zw omul r b).
Proof.
  revert a b. induction r as [|x r IH]; intros [|y a] [|z b] H; try discriminate; try reflexivity.
  cbn [vadd zw]. rewrite IH by (cbn in H; lia). f_equal. ring.
Qed.

Lemma zw_mul_vsub (r a b : list F) :
  length a = length b -> zw omul r (vsub a b) = vsub (zw omul r a) (zw omul r b).
Proof.
  revert a b. induction r as [|x r IH]; intros [|y a] [|z b] H; try discriminate; try reflexivity.
  cbn [vsub zw]. rewrite IH by (cbn in H; lia). f_equal. ring.
Qed.

Lemma zw_mul_vscale (r a : list F) c : zw omul r (vscale c a) = vscale c (zw omul r a).
Proof.
  revert a. induction r as [|x r IH]; intros [|y a]; try reflexivity.
  cbn [vscale map zw]. unfold vscale in IH. rewrite IH. f_equal. ring.
Qed.

(* ---- the operations represent the polynomial operations *)
Lemma bpoly_vadd_same (a b : list F) s :
  length a = length b -> bpoly (vadd a b) s = bpoly a s +! bpoly b s.
Proof.
  intro H. unfold bpoly, bscale. rewrite length_vadd, <- H, Nat.max_id, zw_mul_vadd by exact H.
  apply hom_vadd_same. rewrite !zw_length, H. reflexivity.
Qed.

Lemma bpoly_vsub_same (a b : list F) s :
  length a = length b -> bpoly (vsub a b) s = bpoly a s -! bpoly b s.
Proof.
  intro H. unfold bpoly, bscale. rewrite length_vsub, <- H, Nat.max_id, zw_mul_vsub by exact H.
  apply hom_vsub_same. rewrite !zw_length, H. reflexivity.
Qed.

Lemma bpoly_vscale c (a : list F) s : bpoly (vscale c a) s = c *! bpoly a s.
Proof.
  unfold bpoly, bscale. rewrite length_vscale, zw_mul_vscale. apply hom_vscale.
Qed.

Lemma bpoly_bneg (a : list F) s : bpoly (bneg a) s = oopp (bpoly a s).
Proof. unfold bneg. rewrite bpoly_vscale. ring. Qed.

Lemma bpoly_const (c s : F) : bpoly [c] s = c.
Proof. unfold bpoly, bscale, brow. cbn. ring. Qed.

Lemma pmul_nonnil (p q : list F) : p <> [] -> q <> [] -> pmul p q <> [].
Proof.
  intros Hp Hq E. pose proof (length_pmul p q Hp Hq) as L. rewrite E in L. cbn [length] in L.
  destruct p; [congruence|]. destruct q; [congruence|]. cbn [length] in L. lia.
Qed.

Lemma bscale_nonnil (a : list F) : a <> [] -> bscale a <> [].
Proof. intros H E. pose proof (bscale_length a) as L. rewrite E in L. destruct a; [congruence|discriminate]. Qed.

Theorem bpoly_bmul (a b : list F) s : a <> [] -> b <> [] -> bpoly (bmul a b) s = bpoly a s *! bpoly b s.
Proof.
  intros Ha Hb. unfold bpoly at 1. unfold bmul.
  rewrite bscale_bunscale by (apply pmul_nonnil; apply bscale_nonnil; assumption).
  apply hom_pmul. apply bscale_nonnil. exact Hb.
Qed.

Lemma bmul_length (a b : list F) : a <> [] -> b <> [] -> length (bmul a b) = length a + length b - 1.
Proof.
  intros Ha Hb. unfold bmul. rewrite bunscale_length, length_pmul by (apply bscale_nonnil; assumption).
  rewrite !bscale_length. reflexivity.
Qed.

Theorem bpoly_belev1 (b : list F) s : b <> [] -> bpoly (belev1 b) s = bpoly b s.
Proof.
  intro Hb. unfold bpoly at 1. unfold belev1.
  rewrite bscale_bunscale by (apply pmul_nonnil; [apply bscale_nonnil; exact Hb|discriminate]).
  rewrite hom_pmul by discriminate. unfold bpoly. cbn [hom length opow]. ring.
Qed.

Lemma belev1_length (b : list F) : b <> [] -> length (belev1 b) = S (length b).
Proof.
  intro Hb. unfold belev1. rewrite bunscale_length, length_pmul by (apply bscale_nonnil; exact Hb) || discriminate.
  rewrite bscale_length. cbn [length]. destruct b; [congruence|cbn [length]; lia].
Qed.

Lemma nonnil_of_length (b : list F) n : length b = S n -> b <> [].
Proof. intros H E. rewrite E in H. discriminate. Qed.

Lemma belev_spec k (b : list F) s :
  b <> [] -> bpoly (belev k b) s = bpoly b s /\ length (belev k b) = k + length b.
Proof.
  revert b. induction k as [|k IH]; intros b Hb; cbn [belev]; [split; reflexivity|].
  assert (Hb' : belev1 b <> []).
  { apply (nonnil_of_length _ (length b)). apply belev1_length. exact Hb. }
  destruct (IH (belev1 b) Hb') as [E1 E2]. split.
  - rewrite E1. apply bpoly_belev1. exact Hb.
  - rewrite E2, belev1_length by exact Hb. lia.
Qed.

Lemma bto_spec m (b : list F) s :
  b <> [] -> length b <= m -> bpoly (bto m b) s = bpoly b s /\ length (bto m b) = m.
Proof.
  intros Hb Hm. unfold bto. destruct (belev_spec (m - length b) b s Hb) as [E1 E2]. split; [exact E1|].
  rewrite E2. lia.
Qed.

Theorem bpoly_badd (a b : list F) s : a <> [] -> b <> [] -> bpoly (badd a b) s = bpoly a s +! bpoly b s.
Proof.
  intros Ha Hb. unfold badd.
  destruct (bto_spec (Nat.max (length a) (length b)) a s Ha ltac:(lia)) as [A1 A2].
  destruct (bto_spec (Nat.max (length a) (length b)) b s Hb ltac:(lia)) as [B1 B2].
  rewrite bpoly_vadd_same by congruence. rewrite A1, B1. reflexivity.
Qed.

Theorem bpoly_bsub (a b : list F) s : a <> [] -> b <> [] -> bpoly (bsub a b) s = bpoly a s -! bpoly b s.
Proof.
  intros Ha Hb. unfold bsub.
  destruct (bto_spec (Nat.max (length a) (length b)) a s Ha ltac:(lia)) as [A1 A2].
  destruct (bto_spec (Nat.max (length a) (length b)) b s Hb ltac:(lia)) as [B1 B2].
  rewrite bpoly_vsub_same by congruence. rewrite A1, B1. reflexivity.
Qed.

Lemma badd_length (a b : list F) : a <> [] -> b <> [] -> length (badd a b) = Nat.max (length a) (length b).
Proof.
  intros Ha Hb. unfold badd. rewrite length_vadd.
  destruct (bto_spec (Nat.max (length a) (length b)) a o0 Ha ltac:(lia)) as [_ A2].
  destruct (bto_spec (Nat.max (length a) (length b)) b o0 Hb ltac:(lia)) as [_ B2].
  rewrite A2, B2. lia.
Qed.

Lemma bsub_length (a b : list F) : a <> [] -> b <> [] -> length (bsub a b) = Nat.max (length a) (length b).
Proof.
  intros Ha Hb. unfold bsub. rewrite length_vsub.
  destruct (bto_spec (Nat.max (length a) (length b)) a o0 Ha ltac:(lia)) as [_ A2].
  destruct (bto_spec (Nat.max (length a) (length b)) b o0 Hb ltac:(lia)) as [_ B2].
  rewrite A2, B2. lia.
Qed.

(* ---- degree 4: the literal conversion matrix and the derivative *)
Lemma bpoly_bern4 (b0 b1 b2 b3 b4 s : F) : bpoly [b0; b1; b2; b3; b4] s = bern4_poly [b0; b1; b2; b3; b4] s.
Proof.
  unfold bpoly, bscale, brow, bern4_poly, bern4, osum, of_nat.
  cbn [length Nat.sub browN zw app Nat.add map hom opow seq nth fold_left Z.of_nat Pos.of_succ_nat Pos.succ of_Z of_pos].
  unfold o2. ring.
Qed.

Theorem bpoly_bernstein4 (a0 a1 a2 a3 a4 s : F) :
  bpoly (bernstein4 [a0; a1; a2; a3; a4]) s
  = a0 +! a1 *! s +! a2 *! s *! s +! a3 *! s *! s *! s +! a4 *! s *! s *! s *! s.
Proof.
  rewrite <- (p2b4_correct Fth Ch0 a0 a1 a2 a3 a4 s).
  unfold bernstein4, p2b4. cbn [map]. apply bpoly_bern4.
Qed.

Theorem bpoly_bderiv4 (a0 a1 a2 a3 a4 s : F) :
  bpoly (bderiv (bernstein4 [a0; a1; a2; a3; a4])) s
  = a1 +! o2 *! a2 *! s +! (o1 +! o2) *! a3 *! s *! s +! o2 *! o2 *! a4 *! s *! s *! s.
Proof.
  unfold bernstein4, p2b4, bderiv.
  cbn [map length Nat.sub seq nth combine fst snd].
  unfold bpoly, bscale, brow, osum, of_Q, of_nat.
  cbn [map length Nat.sub browN zw app Nat.add hom opow fold_left Z.of_nat Pos.of_succ_nat Pos.succ of_Z of_pos
       Qnum Qden].
  unfold o2. field.
  assert (H2 := nz2 Fth Ch0). assert (H3 := nz3 Fth Ch0). unfold o2 in *.
  repeat split; try assumption;
    try (intro E; apply H2; rewrite <- E; ring);
    try (intro E; apply H3; rewrite <- E; ring).
  all: try exact (mul_nz Fth _ _ H2 H2); try exact (mul_nz Fth _ _ H2 H3).
  all: destruct Fth as [_ H1 _ _]; try exact H1.
Qed.

(* the Bernstein coefficients of the rescaled step polynomial represent the state (and its time
   derivative) at physical time s*h after the start of the step *)
Lemma step_value (c0 c1 c2 c3 c4 h s : F) :
  bpoly (bernstein4 (rescale [c0; c1; c2; c3; c4] h)) s = polyval [c0; c1; c2; c3; c4] (s *! h).
Proof.
  unfold rescale. cbn [rescale_from]. rewrite bpoly_bernstein4. cbn [polyval]. ring.
Qed.

Lemma step_deriv (c0 c1 c2 c3 c4 h s : F) :
  h <> o0 ->
  bpoly (bderiv (bernstein4 (rescale [c0; c1; c2; c3; c4] h))) s /! h
  = polyval (pderiv [c0; c1; c2; c3; c4]) (s *! h).
Proof.
  intro Hh. unfold rescale. cbn [rescale_from]. rewrite bpoly_bderiv4.
  unfold pderiv. cbn [pderiv_from polyval]. unfold of_nat.
  cbn [Z.of_nat Pos.of_succ_nat Pos.succ of_Z of_pos]. unfold o2. field. exact Hh.
Qed.

Lemma bderiv4_nonnil (b0 b1 b2 b3 b4 : F) : bderiv [b0; b1; b2; b3; b4] <> [].
Proof. unfold bderiv. cbn [length Nat.sub seq map]. discriminate. Qed.

(* ---- re-interpretation of a whole constraint expression *)
Theorem bern_of_correct (X : nat -> list F) (h : F) (xv dxv : nat -> F) (s : F) :
  (forall j, X j <> []) ->
  (forall j, bderiv (X j) <> []) ->
  (forall j, bpoly (X j) s = xv j) ->
  (forall j, bpoly (bderiv (X j)) s /! h = dxv j) ->
  h <> o0 ->
  forall e, bern_of X h e <> [] /\ bpoly (bern_of X h e) s = beval xv dxv e.
Proof.
  intros HX HD Hx Hd Hh e.
  induction e as [q|j|j|a [IHa1 IHa2] b [IHb1 IHb2]|a [IHa1 IHa2] b [IHb1 IHb2]|a [IHa1 IHa2] b [IHb1 IHb2]|a [IHa1 IHa2]];
    cbn [bern_of beval].
  - split; [discriminate|apply bpoly_const].
  - split; [apply HX|apply Hx].
  - split.
    + intro E. apply (HD j). unfold vscale in E. destruct (bderiv (X j)); [reflexivity|discriminate].
    + rewrite bpoly_vscale, <- Hd. field. exact Hh.
  - split.
    + apply (nonnil_of_length _ (Nat.max (length (bern_of X h a)) (length (bern_of X h b)) - 1)).
      rewrite badd_length by assumption. destruct (bern_of X h a); [congruence|cbn [length]; lia].
    + rewrite bpoly_badd by assumption. rewrite IHa2, IHb2. reflexivity.
  - split.
    + apply (nonnil_of_length _ (Nat.max (length (bern_of X h a)) (length (bern_of X h b)) - 1)).
      rewrite bsub_length by assumption. destruct (bern_of X h a); [congruence|cbn [length]; lia].
    + rewrite bpoly_bsub by assumption. rewrite IHa2, IHb2. reflexivity.
  - split.
    + apply (nonnil_of_length _ (length (bern_of X h a) + length (bern_of X h b) - 2)).
      rewrite bmul_length by assumption.
      destruct (bern_of X h a); [congruence|]. destruct (bern_of X h b); [congruence|]. cbn [length]. lia.
    + rewrite bpoly_bmul by assumption. rewrite IHa2, IHb2. reflexivity.
  - split.
    + unfold bneg, vscale. destruct (bern_of X h a); [congruence|discriminate].
    + rewrite bpoly_bneg, IHa2. reflexivity.
Qed.

(* ---- the certificate, for every degree *)
Section Order.
Variable le : F -> F -> Prop.
Hypothesis le_refl : forall a, le a a.
Hypothesis le_add : forall a b c d, le a b -> le c d -> le (a +! c) (b +! d).
Hypothesis le_mul_nonneg : forall a b c, le o0 c -> le a b -> le (a *! c) (b *! c).
Hypothesis mul_nonneg : forall a b, le o0 a -> le o0 b -> le o0 (a *! b).
Hypothesis le_0_1 : le o0 o1.

Lemma of_nat_nonneg n : le o0 (of_nat n : F).
Proof.
  destruct n as [|n]; [rewrite of_nat_0; apply le_refl|].
  unfold of_nat. cbn [Z.of_nat of_Z]. apply (of_pos_nonneg Fth le le_add mul_nonneg le_0_1).
Qed.

Lemma hom_weighted_le (r b : list F) c s t :
  length r = length b -> Forall (le o0) r -> Forall (fun v => le v c) b -> le o0 s -> le o0 t ->
  le (hom (zw omul r b) s t) (c *! hom r s t).
Proof.
  revert b. induction r as [|x r IH]; intros [|y b] H Hr Hb Hs Ht; try discriminate.
  - cbn [zw hom]. replace (c *! o0) with (o0 : F) by ring. apply le_refl.
  - inversion Hr as [|x' r' Hx Hr']; subst. inversion Hb as [|y' b' Hy Hb']; subst.
    cbn [zw hom]. rewrite zw_length. replace (length b) with (length r) by (cbn in H; lia). rewrite Nat.min_id.
    replace (c *! (x *! opow t (length r) +! s *! hom r s t))
      with (c *! (x *! opow t (length r)) +! (c *! hom r s t) *! s) by ring.
    apply le_add.
    + replace (x *! y *! opow t (length r)) with (y *! (x *! opow t (length r))) by ring.
      apply le_mul_nonneg; [|exact Hy].
      apply mul_nonneg; [exact Hx|]. apply (opow_nonneg le mul_nonneg le_0_1). exact Ht.
    + replace (s *! hom (zw omul r b) s t) with (hom (zw omul r b) s t *! s) by ring.
      apply le_mul_nonneg; [exact Hs|]. apply IH; [cbn in H; lia|assumption..].
Qed.

Theorem bernstein_bound_any_degree (b : list F) (c s : F) :
  b <> [] -> le o0 s -> le s o1 -> Forall (fun v => le v c) b -> le (bpoly b s) c.
Proof.
  intros Hb H0 H1 Hc.
  assert (H1s : le o0 (o1 -! s)).
  { replace (o0 : F) with (s +! oopp s) by ring. replace (o1 -! s) with (o1 +! oopp s) by ring.
    apply le_add; [exact H1|apply le_refl]. }
  assert (E : c = c *! hom (brow (length b - 1)) s (o1 -! s)).
  { rewrite hom_brow. replace (s +! (o1 -! s)) with (o1 : F) by ring. rewrite opow_one. ring. }
  rewrite E. unfold bpoly, bscale. apply hom_weighted_le; try assumption.
  - rewrite brow_length. destruct b; [congruence|cbn [length]; lia].
  - unfold brow. apply Forall_forall. intros v Hv. apply in_map_iff in Hv. destruct Hv as [n [<- _]].
    apply of_nat_nonneg.
Qed.

Theorem bernstein_lower_bound_any_degree (b : list F) (c s : F) :
  b <> [] -> le o0 s -> le s o1 -> Forall (fun v => le c v) b -> le c (bpoly b s).
Proof.
  intros Hb H0 H1 Hc.
  assert (Hn : le (bpoly (bneg b) s) (oopp c)).
  { apply bernstein_bound_any_degree; try assumption.
    - unfold bneg, vscale. destruct b; [congruence|discriminate].
    - unfold bneg, vscale. apply Forall_forall. intros v Hv. apply in_map_iff in Hv. destruct Hv as [w [<- Hw]].
      rewrite Forall_forall in Hc. specialize (Hc w Hw).
      pose proof (le_add _ _ _ _ Hc (le_refl (oopp c +! oopp w))) as H.
      replace (c +! (oopp c +! oopp w)) with (oopp o1 *! w) in H by ring.
      replace (w +! (oopp c +! oopp w)) with (oopp c) in H by ring. exact H. }
  rewrite bpoly_bneg in Hn.
  pose proof (le_add _ _ _ _ Hn (le_refl (bpoly b s +! c))) as H.
  replace (oopp (bpoly b s) +! (bpoly b s +! c)) with c in H by ring.
  replace (oopp c +! (bpoly b s +! c)) with (bpoly b s) in H by ring. exact H.
Qed.

(* all rows  coefficient - bound <= 0  hold  ==>  the constrained expression, evaluated on the step
   polynomials of the states (and their time derivatives), is below the bound on the whole step *)
Theorem inf_rows_sufficient (X : nat -> list F) (h : F) (xv dxv : nat -> F) (e : bexpr) (bound s : F) :
  (forall j, X j <> []) -> (forall j, bderiv (X j) <> []) ->
  (forall j, bpoly (X j) s = xv j) -> (forall j, bpoly (bderiv (X j)) s /! h = dxv j) -> h <> o0 ->
  le o0 s -> le s o1 ->
  Forall (fun v => le (v -! bound) o0) (bern_of X h e) ->
  le (beval xv dxv e) bound.
Proof.
  intros HX HD Hx Hd Hh H0 H1 Hrows.
  destruct (bern_of_correct X h xv dxv s HX HD Hx Hd Hh e) as [Hn <-].
  apply bernstein_bound_any_degree; try assumption.
  apply Forall_forall. intros v Hv. rewrite Forall_forall in Hrows. specialize (Hrows v Hv).
  pose proof (le_add _ _ _ _ Hrows (le_refl bound)) as Hle.
  replace (v -! bound +! bound) with v in Hle by ring. replace (o0 +! bound) with bound in Hle by ring.
  exact Hle.
Qed.

Theorem inf_rows_sufficient_lower (X : nat -> list F) (h : F) (xv dxv : nat -> F) (e : bexpr) (bound s : F) :
  (forall j, X j <> []) -> (forall j, bderiv (X j) <> []) ->
  (forall j, bpoly (X j) s = xv j) -> (forall j, bpoly (bderiv (X j)) s /! h = dxv j) -> h <> o0 ->
  le o0 s -> le s o1 ->
  Forall (fun v => le (bound -! v) o0) (bern_of X h e) ->
  le bound (beval xv dxv e).
Proof.
  intros HX HD Hx Hd Hh H0 H1 Hrows.
  destruct (bern_of_correct X h xv dxv s HX HD Hx Hd Hh e) as [Hn <-].
  apply bernstein_lower_bound_any_degree; try assumption.
  apply Forall_forall. intros v Hv. rewrite Forall_forall in Hrows. specialize (Hrows v Hv).
  pose proof (le_add _ _ _ _ Hrows (le_refl v)) as Hle.
  replace (bound -! v +! v) with bound in Hle by ring. replace (o0 +! v) with v in Hle by ring.
  exact Hle.
Qed.

Lemma list5 (l : list F) : length l = 5 -> exists c0 c1 c2 c3 c4, l = [c0; c1; c2; c3; c4].
Proof.
  intro H. destruct l as [|c0 [|c1 [|c2 [|c3 [|c4 [|c5 l]]]]]]; try discriminate.
  exists c0, c1, c2, c3, c4. reflexivity.
Qed.

(* the rows the model generates for one polynomial constraint on one integrator step *)
Theorem infp_rows_step_sufficient (L : mlists F) (c : bconstr) (k l : nat) :
  let step := k * L_M L + l in
  let h := (nth (S k) (L_cg L) o0 -! nth k (L_cg L) o0) /! of_nat (L_M L) in
  length (nth step (L_poly L) []) = 5 -> h <> o0 ->
  Forall (fun r => le (rw_h r) o0) (infp_rows_step L c k l) ->
  forall s, le o0 s -> le s o1 ->
    let v := beval (fun j => polyval (state_coeffs L step j) (s *! h))
                   (fun j => polyval (pderiv (state_coeffs L step j)) (s *! h)) (bc_expr c) in
    let b := eval_control L (Z.of_nat k) (bc_bound c) in
    if bc_lower c then le b v else le v b.
Proof.
  intros step h H5 Hh Hrows s H0 H1.
  assert (Hc : forall j, exists c0 c1 c2 c3 c4, state_coeffs L step j = [c0; c1; c2; c3; c4]).
  { intro j. apply list5. unfold state_coeffs. rewrite map_length. exact H5. }
  intros v b. unfold v, b.
  assert (A1 : forall j, step_bern L k l h j <> []).
  { intro j. unfold step_bern. fold step. destruct (Hc j) as (c0 & c1 & c2 & c3 & c4 & E). rewrite E.
    unfold bernstein4, p2b4. cbn [map]. discriminate. }
  assert (A2 : forall j, bderiv (step_bern L k l h j) <> []).
  { intro j. unfold step_bern. fold step. destruct (Hc j) as (c0 & c1 & c2 & c3 & c4 & E). rewrite E.
    unfold bernstein4, p2b4. cbn [map]. apply bderiv4_nonnil. }
  assert (A3 : forall j, bpoly (step_bern L k l h j) s = polyval (state_coeffs L step j) (s *! h)).
  { intro j. unfold step_bern. fold step. destruct (Hc j) as (c0 & c1 & c2 & c3 & c4 & E). rewrite E.
    apply step_value. }
  assert (A4 : forall j, bpoly (bderiv (step_bern L k l h j)) s /! h
                         = polyval (pderiv (state_coeffs L step j)) (s *! h)).
  { intro j. unfold step_bern. fold step. destruct (Hc j) as (c0 & c1 & c2 & c3 & c4 & E). rewrite E.
    apply step_deriv. exact Hh. }
  unfold infp_rows_step in Hrows. fold step in Hrows. fold h in Hrows.
  rewrite Forall_map in Hrows. cbn [rw_h] in Hrows.
  destruct (bc_lower c).
  - exact (inf_rows_sufficient_lower (step_bern L k l h) h _ _ (bc_expr c) _ s A1 A2 A3 A4 Hh H0 H1 Hrows).
  - exact (inf_rows_sufficient (step_bern L k l h) h _ _ (bc_expr c) _ s A1 A2 A3 A4 Hh H0 H1 Hrows).
Qed.

End Order.
End BernProofs.
