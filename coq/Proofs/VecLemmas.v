(* Pointwise characterisation of the zero-padding vector operations and an
   extensionality principle; [vec_eq] proves identities of vector expressions. *)
From Coq Require Import ZArith List Field Lia.
From RV Require Import Base.Num Base.Vec Proofs.NumLemmas.
Import ListNotations.

Section VecLemmas.
Context {F : Type} {OF : Ops F}.
Hypothesis Fth : field_theory o0 o1 oadd omul osub oopp odiv oinv (@eq F).
Add Field FFv : Fth.

Lemma vec_ext (a b : list F) :
  length a = length b -> (forall i, vnth a i = vnth b i) -> a = b.
Proof.
  revert b. induction a as [|x a IH]; intros [|y b] Hl Hn; cbn in Hl; try discriminate.
  - reflexivity.
  - f_equal.
    + exact (Hn 0).
    + apply IH; [lia|]. intro i. exact (Hn (S i)).
Qed.

Lemma vnth_nil i : vnth (@nil F) i = o0.
Proof. unfold vnth. destruct i; reflexivity. Qed.

Lemma vnth_vadd a b i : vnth (vadd a b) i = vnth a i +! vnth b i.
Proof.
  revert b i. induction a as [|x a IH]; intros b i.
  - cbn [vadd]. rewrite vnth_nil. ring.
  - destruct b as [|y b].
    + cbn [vadd]. rewrite vnth_nil. ring.
    + destruct i; cbn [vadd]; unfold vnth in *; cbn [nth]; [reflexivity|apply IH].
Qed.

Lemma vnth_vsub a b i : vnth (vsub a b) i = vnth a i -! vnth b i.
Proof.
  revert b i. induction a as [|x a IH]; intros b i.
  - cbn [vsub]. rewrite vnth_nil. unfold vnth.
    revert i. induction b as [|y b IHb]; intro i.
    + destruct i; cbn; ring.
    + destruct i; cbn [map nth]; [ring|apply IHb].
  - destruct b as [|y b].
    + cbn [vsub]. rewrite vnth_nil. ring.
    + destruct i; cbn [vsub]; unfold vnth in *; cbn [nth]; [reflexivity|apply IH].
Qed.

Lemma vnth_vscale c a i : vnth (vscale c a) i = c *! vnth a i.
Proof.
  unfold vscale, vnth. revert i. induction a as [|x a IH]; intro i.
  - destruct i; cbn; ring.
  - destruct i; cbn [map nth]; [reflexivity|apply IH].
Qed.

Lemma vnth_vdivs a c i : c <> o0 -> vnth (vdivs a c) i = vnth a i /! c.
Proof.
  intro Hc. unfold vdivs, vnth. revert i. induction a as [|x a IH]; intro i.
  - destruct i; cbn; field; exact Hc.
  - destruct i; cbn [map nth]; [reflexivity|apply IH].
Qed.

Lemma length_vadd a b : length (vadd a b) = Nat.max (length a) (length b).
Proof.
  revert b. induction a as [|x a IH]; intros [|y b]; cbn [vadd length]; try lia.
  rewrite IH. lia.
Qed.

Lemma length_vsub a b : length (vsub a b) = Nat.max (length a) (length b).
Proof.
  revert b. induction a as [|x a IH]; intros [|y b]; cbn [vsub length map]; try lia.
  - rewrite map_length. lia.
  - rewrite IH. lia.
Qed.

Lemma length_vscale c a : length (vscale c a) = length a.
Proof. apply map_length. Qed.

Lemma length_vdivs a c : length (vdivs a c) = length a.
Proof. apply map_length. Qed.

Lemma vadd_nil_r a : vadd a [] = a.
Proof. destruct a; reflexivity. Qed.

Lemma vnth_vzero n i : vnth (@vzero F OF n) i = o0.
Proof.
  unfold vnth, vzero. revert i. induction n as [|n IH]; intro i; destruct i; cbn; auto.
Qed.

Lemma length_vzero n : length (@vzero F OF n) = n.
Proof. apply repeat_length. Qed.

(* all entries zero <-> equal to the zero vector of its length *)
Lemma vsub_zero_iff a b :
  length a = length b ->
  ((forall i, vnth (vsub a b) i = o0) <-> a = b).
Proof.
  intro Hl. split.
  - intro H. apply vec_ext; [exact Hl|]. intro i.
    specialize (H i). rewrite vnth_vsub in H.
    apply (proj1 (sub_zero_iff Fth _ _)). exact H.
  - intros -> i. rewrite vnth_vsub. ring.
Qed.

End VecLemmas.

Ltac vec_simpl Fth :=
  repeat first [ rewrite (vnth_vadd Fth) | rewrite (vnth_vsub Fth) | rewrite (vnth_vscale Fth)
               | rewrite (vnth_vzero) | rewrite vnth_nil ].
Ltac vec_len :=
  repeat first [ rewrite length_vadd | rewrite length_vsub | rewrite length_vscale
               | rewrite length_vdivs | rewrite length_vzero ].
