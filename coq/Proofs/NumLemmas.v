(* Consequences of the field laws for the numeral embeddings. *)
From Coq Require Import ZArith QArith List Field Lia.
From RV Require Import Base.Num.
Import ListNotations.

Section NumLemmas.
Context {F : Type} {OF : Ops F}.
Hypothesis Fth : field_theory o0 o1 oadd omul osub oopp odiv oinv (@eq F).
Add Field FF : Fth.

Lemma of_pos_succ p : of_pos (Pos.succ p) = of_pos p +! o1.
Proof.
  induction p as [p IH|p IH|]; cbn [Pos.succ of_pos]; unfold o2 in *.
  - rewrite IH. ring.
  - ring.
  - ring.
Qed.

Lemma of_pos_add p r : of_pos (p + r) = of_pos p +! of_pos r.
Proof.
  revert r. induction p as [|p IH] using Pos.peano_ind; intro r.
  - rewrite Pos.add_1_l, of_pos_succ. cbn [of_pos]. ring.
  - rewrite Pos.add_succ_l, !of_pos_succ, IH. ring.
Qed.

Lemma of_pos_mul p r : of_pos (p * r) = of_pos p *! of_pos r.
Proof.
  induction p as [|p IH] using Pos.peano_ind.
  - rewrite Pos.mul_1_l. cbn [of_pos]. ring.
  - rewrite Pos.mul_succ_l, of_pos_add, IH, of_pos_succ. ring.
Qed.

Lemma of_nat_S n : of_nat (S n) = of_nat n +! o1.
Proof.
  unfold of_nat. rewrite Nat2Z.inj_succ.
  destruct (Z.of_nat n) as [|p|p] eqn:E.
  - cbn. ring.
  - change (Z.succ (Z.pos p)) with (Z.pos (p + 1)). cbn [of_Z].
    rewrite of_pos_add. reflexivity.
  - pose proof (Nat2Z.is_nonneg n). lia.
Qed.

Lemma of_nat_0 : of_nat 0 = o0.
Proof. reflexivity. Qed.

Lemma of_nat_1 : of_nat 1 = o1.
Proof. reflexivity. Qed.

Lemma opow_S x n : opow x (S n) = x *! opow x n.
Proof. reflexivity. Qed.

Lemma div_zero_iff a s : s <> o0 -> (a /! s = o0 <-> a = o0).
Proof.
  intro Hs. split; intro H.
  - assert (E : a = (a /! s) *! s) by (field; exact Hs). rewrite E, H. ring.
  - subst a. field. exact Hs.
Qed.

Lemma sub_zero_iff a b : a -! b = o0 <-> a = b.
Proof.
  split; intro H.
  - assert (E : a = (a -! b) +! b) by ring. rewrite E, H. ring.
  - subst. ring.
Qed.

Lemma mul_nz a b : a <> o0 -> b <> o0 -> a *! b <> o0.
Proof.
  intros Ha Hb E. apply Ha.
  assert (H : a = (a *! b) /! b) by (field; exact Hb).
  rewrite H, E. field. exact Hb.
Qed.

Lemma opow_nz a n : a <> o0 -> opow a n <> o0.
Proof.
  intro Ha. induction n as [|n IH]; cbn [opow].
  - destruct Fth as [_ H _ _]. exact H.
  - apply mul_nz; assumption.
Qed.

End NumLemmas.
