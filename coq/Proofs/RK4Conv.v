(* C03 (continued): convergence of the model's RK4 loop discrete_system (intg_rk sys) at ROps for a GENERAL
   right-hand side, order (at least) one, max norm (dist_max of EulerConvVec.v).
   Assumed: s_ode maps length-n states to length-n lists; Lipschitz in the state (constant L, all states,
   t in [t0,t0+T]); Lipschitz in time (constant Lt, all states); exact solution x with |x_i'| <= B and
   |x_i''| <= K on [t0,t0+T].  No bound on f away from the solution and no restriction on h.
   Proof: the RK4 step map is Lipschitz with constant 1 + q + q^2/2 + q^3/6 + q^4/24, q = hL (rk4_lipschitz);
   at the exact solution its increment differs from Euler's by h^2 (LB+Lt)(1/2 + q/6 + q^2/24)
   (rk4_consistency); Taylor-Lagrange (taylor2) for the Euler defect; global_error_order with p = 1.
   Second part (rk4_converges_order2): order two for scalar autonomous x' = f(x), f globally C^2 with
   |f'| <= L, |f''| <= F2, solution with |x'| <= B and |x'''| <= K3 on [t0,t0+T]. *)
From Coq Require Import Reals ZArith QArith List Lia Lra.
From Coquelicot Require Import Coquelicot.
From RV Require Import Base.Num Base.Vec Mech.Intg Spec.SpecDyn Proofs.NumLemmas Proofs.VecLemmas Proofs.DynProofs Proofs.DerProofs Proofs.SplineDerReal Proofs.ConvProofs Proofs.ConvReal Proofs.EulerConv Proofs.EulerConvVec.
Import ListNotations.
Local Open Scope R_scope.

Lemma nth_vadd_R (A B : list R) i : nth i (@vadd R ROps A B) 0 = nth i A 0 + nth i B 0.
Proof. exact (@vnth_vadd R ROps R_field_laws A B i). Qed.
Lemma nth_vscale_R c (A : list R) i : nth i (@vscale R ROps c A) 0 = c * nth i A 0.
Proof. exact (@vnth_vscale R ROps R_field_laws c A i). Qed.

(* ---- the stages of intg_rk over the reals *)
Definition rk_x2 (F : list R -> R -> list R) X t h := @vadd R ROps X (@vscale R ROps (h / 2) (F X t)).
Definition rk_k2 (F : list R -> R -> list R) X t h := F (rk_x2 F X t h) (t + h / 2).
Definition rk_x3 (F : list R -> R -> list R) X t h := @vadd R ROps X (@vscale R ROps (h / 2) (rk_k2 F X t h)).
Definition rk_k3 (F : list R -> R -> list R) X t h := F (rk_x3 F X t h) (t + h / 2).
Definition rk_x4 (F : list R -> R -> list R) X t h := @vadd R ROps X (@vscale R ROps h (rk_k3 F X t h)).
Definition rk_k4 (F : list R -> R -> list R) X t h := F (rk_x4 F X t h) (t + h).
Definition rk_next (F : list R -> R -> list R) X t h :=
  @vadd R ROps X (@vscale R ROps (h / 6)
    (@vadd R ROps (@vadd R ROps (@vadd R ROps (F X t) (@vscale R ROps 2 (rk_k2 F X t h)))
                                (@vscale R ROps 2 (rk_k3 F X t h))) (rk_k4 F X t h))).

Lemma rk4_model_next (sys : sysfun R) X t h DTc :
  r_xf (@intg_rk R ROps sys X t h DTc) = rk_next (s_ode sys) X t h.
Proof.
  unfold intg_rk, rk_next, rk_k4, rk_x4, rk_k3, rk_x3, rk_k2, rk_x2. cbn [r_xf].
  unfold o6. rewrite of_Z_R. reflexivity.
Qed.

Fixpoint vrk4 (F : list R -> R -> list R) (t0 h : R) (j : nat) (X0 : list R) : list R :=
  match j with
  | O => X0
  | S j' => rk_next F (vrk4 F t0 h j' X0) (t0 + INR j' * h) h
  end.

Lemma rk4_model_iter_vec (sys : sysfun R) t0 h DTc j X0 :
  iter_steps (fun t X => r_xf (@intg_rk R ROps sys X t h DTc)) t0 h j X0
  = vrk4 (s_ode sys) t0 h j X0.
Proof.
  induction j as [|j IH]; cbn [iter_steps vrk4]; [reflexivity|].
  rewrite IH, rk4_model_next, of_nat_R. reflexivity.
Qed.

Lemma comb_bound h a0 a1 a2 a3 a4 d m1 m2 m3 m4 :
  0 <= h -> Rabs a0 <= d -> Rabs a1 <= m1 -> Rabs a2 <= m2 -> Rabs a3 <= m3 -> Rabs a4 <= m4 ->
  Rabs (a0 + h / 6 * (a1 + 2 * a2 + 2 * a3 + a4)) <= d + h / 6 * (m1 + 2 * m2 + 2 * m3 + m4).
Proof.
  intros Hh H0 H1 H2 H3 H4.
  eapply Rle_trans; [apply Rabs_triang|]. rewrite Rabs_mult, (Rabs_pos_eq (h / 6)) by lra.
  assert (Rabs (a1 + 2 * a2 + 2 * a3 + a4) <= m1 + 2 * m2 + 2 * m3 + m4).
  { eapply Rle_trans; [apply Rabs_triang|].
    eapply Rle_trans; [apply Rplus_le_compat_r; apply Rabs_triang|].
    eapply Rle_trans; [apply Rplus_le_compat_r; apply Rplus_le_compat_r; apply Rabs_triang|].
    rewrite !Rabs_mult, (Rabs_pos_eq 2) by lra. lra. }
  assert (h / 6 * Rabs (a1 + 2 * a2 + 2 * a3 + a4) <= h / 6 * (m1 + 2 * m2 + 2 * m3 + m4))
    by (apply Rmult_le_compat_l; lra).
  lra.
Qed.

Section RK4Step.
Variable F : list R -> R -> list R.
Variables (n : nat) (t0 T L Lt : R).
Hypothesis HL : 0 < L.
Hypothesis HLt : 0 <= Lt.
Hypothesis HlenF : forall X t, length X = n -> length (F X t) = n.
Hypothesis Hlip : forall i t X Y, (i < n)%nat -> t0 <= t <= t0 + T -> length X = n -> length Y = n ->
  Rabs (nth i (F X t) 0 - nth i (F Y t) 0) <= L * dist_max n X Y.
Hypothesis Hlipt : forall i t s X, (i < n)%nat -> t0 <= t <= t0 + T -> t0 <= s <= t0 + T -> length X = n ->
  Rabs (nth i (F X t) 0 - nth i (F X s) 0) <= Lt * Rabs (t - s).

Lemma len_stage (X K : list R) c : length X = n -> length K = n ->
  length (@vadd R ROps X (@vscale R ROps c K)) = n.
Proof. intros HX HK. rewrite length_vadd, length_vscale, HX, HK. lia. Qed.

Lemma len_x2 X t h : length X = n -> length (rk_x2 F X t h) = n.
Proof. intro HX. apply len_stage; [exact HX|apply HlenF; exact HX]. Qed.
Lemma len_x3 X t h : length X = n -> length (rk_x3 F X t h) = n.
Proof. intro HX. apply len_stage; [exact HX|apply HlenF; apply len_x2; exact HX]. Qed.
Lemma len_x4 X t h : length X = n -> length (rk_x4 F X t h) = n.
Proof. intro HX. apply len_stage; [exact HX|apply HlenF; apply len_x3; exact HX]. Qed.
Lemma len_next X t h : length X = n -> length (rk_next F X t h) = n.
Proof.
  intro HX. unfold rk_next. apply len_stage; [exact HX|].
  rewrite !length_vadd, !length_vscale. unfold rk_k2, rk_k3, rk_k4.
  rewrite !HlenF; auto using len_x2, len_x3, len_x4. lia.
Qed.

Lemma vrk4_length t1 h j X0 : length X0 = n -> length (vrk4 F t1 h j X0) = n.
Proof. intro H0. induction j as [|j IH]; cbn [vrk4]; [exact H0|apply len_next; exact IH]. Qed.

Lemma F_lip_le t X Y d i : (i < n)%nat -> t0 <= t <= t0 + T -> length X = n -> length Y = n ->
  dist_max n X Y <= d -> Rabs (nth i (F X t) 0 - nth i (F Y t) 0) <= L * d.
Proof.
  intros Hi Ht HX HY Hd. eapply Rle_trans; [apply Hlip; assumption|].
  apply Rmult_le_compat_l; lra.
Qed.

Lemma stage_lip (X Y KX KY : list R) c d m :
  0 <= c -> 0 <= m -> dist_max n X Y <= d ->
  (forall i, (i < n)%nat -> Rabs (nth i KX 0 - nth i KY 0) <= m) ->
  dist_max n (@vadd R ROps X (@vscale R ROps c KX)) (@vadd R ROps Y (@vscale R ROps c KY)) <= d + c * m.
Proof.
  intros Hc Hm Hd HK.
  pose proof (dist_max_nonneg n X Y) as H0.
  assert (0 <= c * m) by (apply Rmult_le_pos; assumption).
  apply dist_max_le; [lra|]. intros i Hi.
  rewrite !nth_vadd_R, !nth_vscale_R.
  replace (nth i X 0 + c * nth i KX 0 - (nth i Y 0 + c * nth i KY 0))
    with ((nth i X 0 - nth i Y 0) + c * (nth i KX 0 - nth i KY 0)) by ring.
  eapply Rle_trans; [apply Rabs_triang|]. rewrite Rabs_mult, (Rabs_pos_eq c) by exact Hc.
  pose proof (dist_max_ge n X Y i Hi).
  assert (c * Rabs (nth i KX 0 - nth i KY 0) <= c * m) by (apply Rmult_le_compat_l; auto).
  lra.
Qed.

(* the RK4 step map is Lipschitz in the state *)
Lemma rk4_lipschitz X Y t h :
  0 <= h -> t0 <= t -> t + h <= t0 + T -> length X = n -> length Y = n ->
  let d := dist_max n X Y in let q := h * L in
  dist_max n (rk_next F X t h) (rk_next F Y t h)
  <= d * (1 + q + q ^ 2 / 2 + q ^ 3 / 6 + q ^ 4 / 24).
Proof.
  intros Hh Ht0 Ht1 HX HY d q.
  assert (Hd : 0 <= d) by apply dist_max_nonneg.
  assert (It : t0 <= t <= t0 + T) by lra.
  assert (Ith : t0 <= t + h / 2 <= t0 + T) by lra.
  assert (Itf : t0 <= t + h <= t0 + T) by lra.
  set (m1 := L * d).
  assert (Hm1 : 0 <= m1) by (apply Rmult_le_pos; lra).
  assert (H1 : forall i, (i < n)%nat -> Rabs (nth i (F X t) 0 - nth i (F Y t) 0) <= m1).
  { intros i Hi. apply F_lip_le; auto. apply Rle_refl. }
  assert (D2 : dist_max n (rk_x2 F X t h) (rk_x2 F Y t h) <= d + h / 2 * m1).
  { apply stage_lip; [lra|exact Hm1|apply Rle_refl|exact H1]. }
  set (m2 := L * (d + h / 2 * m1)).
  assert (Hm2 : 0 <= m2) by (apply Rmult_le_pos; [lra|]; assert (0 <= h / 2 * m1) by (apply Rmult_le_pos; lra); lra).
  assert (H2 : forall i, (i < n)%nat -> Rabs (nth i (rk_k2 F X t h) 0 - nth i (rk_k2 F Y t h) 0) <= m2).
  { intros i Hi. apply F_lip_le; auto using len_x2. }
  assert (D3 : dist_max n (rk_x3 F X t h) (rk_x3 F Y t h) <= d + h / 2 * m2).
  { apply stage_lip; [lra|exact Hm2|apply Rle_refl|exact H2]. }
  set (m3 := L * (d + h / 2 * m2)).
  assert (Hm3 : 0 <= m3) by (apply Rmult_le_pos; [lra|]; assert (0 <= h / 2 * m2) by (apply Rmult_le_pos; lra); lra).
  assert (H3 : forall i, (i < n)%nat -> Rabs (nth i (rk_k3 F X t h) 0 - nth i (rk_k3 F Y t h) 0) <= m3).
  { intros i Hi. apply F_lip_le; auto using len_x3. }
  assert (D4 : dist_max n (rk_x4 F X t h) (rk_x4 F Y t h) <= d + h * m3).
  { apply stage_lip; [lra|exact Hm3|apply Rle_refl|exact H3]. }
  set (m4 := L * (d + h * m3)).
  assert (Hm4 : 0 <= m4) by (apply Rmult_le_pos; [lra|]; assert (0 <= h * m3) by (apply Rmult_le_pos; lra); lra).
  assert (H4 : forall i, (i < n)%nat -> Rabs (nth i (rk_k4 F X t h) 0 - nth i (rk_k4 F Y t h) 0) <= m4).
  { intros i Hi. apply F_lip_le; auto using len_x4. }
  replace (d * (1 + q + q ^ 2 / 2 + q ^ 3 / 6 + q ^ 4 / 24))
    with (d + h / 6 * (m1 + 2 * m2 + 2 * m3 + m4)) by (unfold m4, m3, m2, m1, q; field).
  assert (0 <= h / 6 * (m1 + 2 * m2 + 2 * m3 + m4)) by (apply Rmult_le_pos; lra).
  apply dist_max_le; [lra|]. intros i Hi.
  unfold rk_next. rewrite !nth_vadd_R, !nth_vscale_R, !nth_vadd_R, !nth_vscale_R.
  match goal with |- Rabs ?e <= _ =>
    replace e with ((nth i X 0 - nth i Y 0) + h / 6 *
      ((nth i (F X t) 0 - nth i (F Y t) 0) + 2 * (nth i (rk_k2 F X t h) 0 - nth i (rk_k2 F Y t h) 0)
       + 2 * (nth i (rk_k3 F X t h) 0 - nth i (rk_k3 F Y t h) 0)
       + (nth i (rk_k4 F X t h) 0 - nth i (rk_k4 F Y t h) 0))) by ring end.
  apply comb_bound; auto. apply dist_max_ge. exact Hi.
Qed.

Lemma stage_dev (X K : list R) c b :
  0 <= c -> 0 <= b -> (forall i, (i < n)%nat -> Rabs (nth i K 0) <= b) ->
  dist_max n (@vadd R ROps X (@vscale R ROps c K)) X <= c * b.
Proof.
  intros Hc Hb HK. apply dist_max_le; [apply Rmult_le_pos; assumption|]. intros i Hi.
  rewrite nth_vadd_R, nth_vscale_R.
  replace (nth i X 0 + c * nth i K 0 - nth i X 0) with (c * nth i K 0) by ring.
  rewrite Rabs_mult, (Rabs_pos_eq c) by exact Hc. apply Rmult_le_compat_l; auto.
Qed.

Lemma F_dev X' X s t rho tau i :
  (i < n)%nat -> t0 <= s <= t0 + T -> t0 <= t <= t0 + T -> length X' = n -> length X = n ->
  dist_max n X' X <= rho -> Rabs (s - t) <= tau ->
  Rabs (nth i (F X' s) 0 - nth i (F X t) 0) <= L * rho + Lt * tau.
Proof.
  intros Hi Hs Ht HX' HX Hr Htau.
  replace (nth i (F X' s) 0 - nth i (F X t) 0)
    with ((nth i (F X' s) 0 - nth i (F X s) 0) + (nth i (F X s) 0 - nth i (F X t) 0)) by ring.
  eapply Rle_trans; [apply Rabs_triang|].
  pose proof (F_lip_le s X' X rho i Hi Hs HX' HX Hr).
  pose proof (Hlipt i s t X Hi Hs Ht HX).
  assert (Lt * Rabs (s - t) <= Lt * tau) by (apply Rmult_le_compat_l; assumption).
  lra.
Qed.

Lemma abs_via (a b B' dl : R) : Rabs b <= B' -> Rabs (a - b) <= dl -> Rabs a <= B' + dl.
Proof.
  intros Hb Hd. replace a with (b + (a - b)) by ring.
  eapply Rle_trans; [apply Rabs_triang|]. lra.
Qed.

(* consistency with the Euler increment where |f| <= B *)
Lemma rk4_consistency X t h B :
  0 <= h -> t0 <= t -> t + h <= t0 + T -> length X = n -> 0 <= B ->
  (forall i, (i < n)%nat -> Rabs (nth i (F X t) 0) <= B) ->
  let q := h * L in
  forall i, (i < n)%nat ->
    Rabs (nth i (rk_next F X t h) 0 - (nth i X 0 + h * nth i (F X t) 0))
    <= h * (h * (L * B + Lt) * (1 / 2 + q / 6 + q ^ 2 / 24)).
Proof.
  intros Hh Ht0 Ht1 HX HB Hk1 q.
  assert (It : t0 <= t <= t0 + T) by lra.
  assert (Ith : t0 <= t + h / 2 <= t0 + T) by lra.
  assert (Itf : t0 <= t + h <= t0 + T) by lra.
  assert (Ah : Rabs (t + h / 2 - t) <= h / 2).
  { replace (t + h / 2 - t) with (h / 2) by ring. rewrite Rabs_pos_eq; lra. }
  assert (Af : Rabs (t + h - t) <= h).
  { replace (t + h - t) with h by ring. rewrite Rabs_pos_eq; lra. }
  assert (D2 : dist_max n (rk_x2 F X t h) X <= h / 2 * B) by (apply stage_dev; [lra|exact HB|exact Hk1]).
  set (d2 := L * (h / 2 * B) + Lt * (h / 2)).
  assert (Hd2 : 0 <= d2).
  { unfold d2. assert (0 <= h / 2 * B) by (apply Rmult_le_pos; lra).
    assert (0 <= L * (h / 2 * B)) by (apply Rmult_le_pos; lra).
    assert (0 <= Lt * (h / 2)) by (apply Rmult_le_pos; lra). lra. }
  assert (H2 : forall i, (i < n)%nat -> Rabs (nth i (rk_k2 F X t h) 0 - nth i (F X t) 0) <= d2).
  { intros i Hi. apply F_dev; auto using len_x2. }
  assert (B2 : forall i, (i < n)%nat -> Rabs (nth i (rk_k2 F X t h) 0) <= B + d2).
  { intros i Hi. apply (abs_via _ (nth i (F X t) 0)); auto. }
  assert (D3 : dist_max n (rk_x3 F X t h) X <= h / 2 * (B + d2)) by (apply stage_dev; [lra|lra|exact B2]).
  set (d3 := L * (h / 2 * (B + d2)) + Lt * (h / 2)).
  assert (Hd3 : 0 <= d3).
  { unfold d3. assert (0 <= h / 2 * (B + d2)) by (apply Rmult_le_pos; lra).
    assert (0 <= L * (h / 2 * (B + d2))) by (apply Rmult_le_pos; lra).
    assert (0 <= Lt * (h / 2)) by (apply Rmult_le_pos; lra). lra. }
  assert (H3 : forall i, (i < n)%nat -> Rabs (nth i (rk_k3 F X t h) 0 - nth i (F X t) 0) <= d3).
  { intros i Hi. apply F_dev; auto using len_x3. }
  assert (B3 : forall i, (i < n)%nat -> Rabs (nth i (rk_k3 F X t h) 0) <= B + d3).
  { intros i Hi. apply (abs_via _ (nth i (F X t) 0)); auto. }
  assert (D4 : dist_max n (rk_x4 F X t h) X <= h * (B + d3)) by (apply stage_dev; [lra|lra|exact B3]).
  set (d4 := L * (h * (B + d3)) + Lt * h).
  assert (H4 : forall i, (i < n)%nat -> Rabs (nth i (rk_k4 F X t h) 0 - nth i (F X t) 0) <= d4).
  { intros i Hi. apply F_dev; auto using len_x4. }
  intros i Hi.
  replace (h * (h * (L * B + Lt) * (1 / 2 + q / 6 + q ^ 2 / 24)))
    with (0 + h / 6 * (0 + 2 * d2 + 2 * d3 + d4)) by (unfold d4, d3, d2, q; field).
  unfold rk_next. rewrite !nth_vadd_R, !nth_vscale_R, !nth_vadd_R, !nth_vscale_R.
  match goal with |- Rabs ?e <= _ =>
    replace e with (0 + h / 6 *
      (0 + 2 * (nth i (rk_k2 F X t h) 0 - nth i (F X t) 0)
       + 2 * (nth i (rk_k3 F X t h) 0 - nth i (F X t) 0)
       + (nth i (rk_k4 F X t h) 0 - nth i (F X t) 0))) by field end.
  apply comb_bound; auto; rewrite Rabs_R0; apply Rle_refl.
Qed.

(* ---- global error of the RK4 iteration, order (at least) one *)
Lemma vrk4_error (x : nat -> R -> R) (K B : R) (M : nat) :
  0 < T -> 0 <= K -> 0 <= B -> (0 < M)%nat ->
  (forall i t, (i < n)%nat -> t0 <= t <= t0 + T ->
     is_derive (x i) t (nth i (F (xvec n x t) t) 0)) ->
  (forall i t, (i < n)%nat -> t0 <= t <= t0 + T -> ex_derive_n (x i) 2 t) ->
  (forall i t, (i < n)%nat -> t0 <= t <= t0 + T -> Rabs (Derive_n (x i) 2 t) <= K) ->
  (forall i t, (i < n)%nat -> t0 <= t <= t0 + T -> Rabs (nth i (F (xvec n x t) t) 0) <= B) ->
  let h := T / INR M in
  let Q := T * L in
  let L' := L * (1 + Q / 2 + Q ^ 2 / 6 + Q ^ 3 / 24) in
  let C1 := (L * B + Lt) * (1 / 2 + Q / 6 + Q ^ 2 / 24) in
  forall j, (j <= M)%nat ->
    dist_max n (vrk4 F t0 h j (xvec n x t0)) (xvec n x (t0 + INR j * h))
    <= ((K / 2 + C1) * ((exp (T * L') - 1) / L')) * h.
Proof.
  intros HT HK0 HB0 HM Hsol Hex2 HK HB h Q L' C1 j Hj.
  assert (HMr : 0 < INR M) by (apply lt_0_INR; exact HM).
  assert (Hh : 0 < h) by (apply Rdiv_lt_0_compat; assumption).
  assert (HhT : h <= T).
  { pose proof (grid_le T M 1 HT HM ltac:(lia)) as G1. cbn [INR] in G1. fold h in G1. lra. }
  assert (HQ : 0 < Q) by (apply Rmult_lt_0_compat; assumption).
  set (q := h * L).
  assert (Hq0 : 0 <= q) by (apply Rmult_le_pos; lra).
  assert (HqQ : q <= Q) by (apply Rmult_le_compat_r; lra).
  assert (Hq2 : q ^ 2 <= Q ^ 2) by (apply pow_incr; lra).
  assert (Hq3 : q ^ 3 <= Q ^ 3) by (apply pow_incr; lra).
  assert (HQ2 : 0 <= Q ^ 2) by (apply pow_le; lra).
  assert (HQ3 : 0 <= Q ^ 3) by (apply pow_le; lra).
  assert (Hq2p : 0 <= q ^ 2) by (apply pow_le; lra).
  assert (Hq3p : 0 <= q ^ 3) by (apply pow_le; lra).
  set (PQ := 1 + Q / 2 + Q ^ 2 / 6 + Q ^ 3 / 24) in *.
  assert (HPQ : 1 <= PQ) by (unfold PQ; lra).
  assert (HL' : 0 < L') by (apply Rmult_lt_0_compat; lra).
  set (c := L * B + Lt).
  assert (Hc : 0 <= c) by (unfold c; assert (0 <= L * B) by (apply Rmult_le_pos; lra); lra).
  assert (HC1 : 0 <= C1) by (apply Rmult_le_pos; [exact Hc|lra]).
  set (Yk := fun k => vrk4 F t0 h k (xvec n x t0)).
  assert (HlenY : forall k, length (Yk k) = n).
  { intro k. apply vrk4_length. apply length_xvec. }
  set (e := fun k : nat => if (k <=? M)%nat
                           then dist_max n (Yk k) (xvec n x (t0 + INR k * h)) else 0).
  assert (He0 : forall k, 0 <= e k).
  { intro k. unfold e. destruct (k <=? M)%nat; [apply dist_max_nonneg|lra]. }
  assert (Hej : e j = dist_max n (Yk j) (xvec n x (t0 + INR j * h))).
  { unfold e. apply Nat.leb_le in Hj. rewrite Hj. reflexivity. }
  fold (Yk j). rewrite <- Hej.
  replace ((K / 2 + C1) * ((exp (T * L') - 1) / L') * h)
    with ((K / 2 + C1) * ((exp (T * L') - 1) / L') * h ^ 1) by (rewrite pow_1; reflexivity).
  apply (global_error_order e h L' (K / 2 + C1) T 1 j Hh HL').
  - lra.
  - unfold e, Yk. cbn [Nat.leb INR vrk4]. rewrite Rmult_0_l, Rplus_0_r. apply dist_max_refl.
  - apply (grid_le T M j HT HM Hj).
  - intro k.
    assert (HhL' : 0 <= h * L') by (apply Rmult_le_pos; lra).
    assert (Hpos : 0 <= (1 + h * L') * e k + (K / 2 + C1) * h ^ 2).
    { specialize (He0 k).
      assert (0 <= (1 + h * L') * e k) by (apply Rmult_le_pos; lra).
      assert (0 <= (K / 2 + C1) * h ^ 2) by (apply Rmult_le_pos; [lra|apply pow2_ge_0]). lra. }
    unfold e at 1. destruct (S k <=? M)%nat eqn:Hk; [|exact Hpos].
    apply Nat.leb_le in Hk.
    assert (Hk' : (k <=? M)%nat = true) by (apply Nat.leb_le; lia).
    assert (Eek : e k = dist_max n (Yk k) (xvec n x (t0 + INR k * h))) by (unfold e; rewrite Hk'; reflexivity).
    apply dist_max_le; [exact Hpos|]. intros i Hi.
    rewrite Eek.
    set (tk := t0 + INR k * h).
    pose proof (grid_le T M k HT HM ltac:(lia)) as Gk. fold h in Gk.
    pose proof (grid_le T M (S k) HT HM Hk) as Gk1. fold h in Gk1.
    rewrite S_INR in Gk1.
    replace (t0 + INR (S k) * h) with (tk + h) by (rewrite S_INR; unfold tk; ring).
    assert (Itk : t0 <= tk <= t0 + T) by (unfold tk; lra).
    assert (Itk1 : tk + h <= t0 + T) by (unfold tk; lra).
    assert (Isub : forall t, tk <= t <= tk + h -> t0 <= t <= t0 + T).
    { intros t Ht. unfold tk in *. lra. }
    unfold Yk at 1. cbn [vrk4]. fold (Yk k). fold tk.
    rewrite nth_xvec by exact Hi.
    set (Y := Yk k). set (Xe := xvec n x tk).
    set (dd := dist_max n Y Xe).
    assert (Hdd : 0 <= dd) by apply dist_max_nonneg.
    (* 1: stability *)
    assert (S1 : Rabs (nth i (rk_next F Y tk h) 0 - nth i (rk_next F Xe tk h) 0) <= (1 + h * L') * dd).
    { eapply Rle_trans; [apply (dist_max_ge n _ _ i Hi)|].
      eapply Rle_trans; [apply rk4_lipschitz; [lra|lra|exact Itk1|apply HlenY|apply length_xvec]|].
      fold dd q.
      replace ((1 + h * L') * dd) with (dd * (1 + q * PQ)) by (unfold L', q; ring).
      apply Rmult_le_compat_l; [exact Hdd|].
      replace (1 + q + q ^ 2 / 2 + q ^ 3 / 6 + q ^ 4 / 24)
        with (1 + q * (1 + q / 2 + q ^ 2 / 6 + q ^ 3 / 24)) by field.
      assert (q * (1 + q / 2 + q ^ 2 / 6 + q ^ 3 / 24) <= q * PQ)
        by (apply Rmult_le_compat_l; [exact Hq0|unfold PQ; lra]).
      lra. }
    (* 2: consistency at the exact solution *)
    assert (S2 : Rabs (nth i (rk_next F Xe tk h) 0 - (x i tk + h * nth i (F Xe tk) 0)) <= C1 * h ^ 2).
    { pose proof (rk4_consistency Xe tk h B ltac:(lra) ltac:(lra) Itk1 (length_xvec n x tk) HB0
                    (fun i0 Hi0 => HB i0 tk Hi0 Itk) i Hi) as Cs.
      cbv zeta in Cs. unfold Xe in Cs at 2. rewrite nth_xvec in Cs by exact Hi. fold Xe q c in Cs.
      eapply Rle_trans; [exact Cs|].
      replace (C1 * h ^ 2) with (h * (h * c * (1 / 2 + Q / 6 + Q ^ 2 / 24))) by (unfold C1, c; ring).
      apply Rmult_le_compat_l; [lra|].
      apply Rmult_le_compat_l; [apply Rmult_le_pos; lra|lra]. }
    (* 3: Taylor *)
    assert (S3 := taylor2 (x i) tk h K Hh
      (fun t Ht => ex_intro _ _ (Hsol i t Hi (Isub t Ht)))
      (fun t Ht => Hex2 i t Hi (Isub t Ht)) (fun t Ht => HK i t Hi (Isub t Ht))).
    rewrite (is_derive_unique _ _ _ (Hsol i tk Hi Itk)) in S3. fold Xe in S3.
    set (a := nth i (rk_next F Y tk h) 0) in *. set (b := nth i (rk_next F Xe tk h) 0) in *.
    set (fe := nth i (F Xe tk) 0) in *.
    replace (a - x i (tk + h)) with ((a - b) + (b - (x i tk + h * fe)) + - (x i (tk + h) - x i tk - h * fe)) by ring.
    eapply Rle_trans; [apply Rabs_triang|]. rewrite Rabs_Ropp.
    eapply Rle_trans; [apply Rplus_le_compat_r; apply Rabs_triang|].
    lra.
Qed.

End RK4Step.

(* ---- the model: every entry of the Xi output of the RK4 loop, every component *)
Theorem rk4_converges_vec (sys : sysfun R) (n nq : nat) (x : nat -> R -> R) (t0 T L Lt K B : R) (M : nat) :
  0 < T -> 0 < L -> 0 <= Lt -> 0 <= K -> 0 <= B -> (0 < M)%nat ->
  (forall X t, length X = n -> length (s_ode sys X t) = n) ->
  (forall i t, (i < n)%nat -> t0 <= t <= t0 + T ->
     is_derive (x i) t (nth i (s_ode sys (xvec n x t) t) 0)) ->
  (forall i t, (i < n)%nat -> t0 <= t <= t0 + T -> ex_derive_n (x i) 2 t) ->
  (forall i t, (i < n)%nat -> t0 <= t <= t0 + T -> Rabs (Derive_n (x i) 2 t) <= K) ->
  (forall i t, (i < n)%nat -> t0 <= t <= t0 + T -> Rabs (nth i (s_ode sys (xvec n x t) t) 0) <= B) ->
  (forall i t X Y, (i < n)%nat -> t0 <= t <= t0 + T -> length X = n -> length Y = n ->
     Rabs (nth i (s_ode sys X t) 0 - nth i (s_ode sys Y t) 0) <= L * dist_max n X Y) ->
  (forall i t s X, (i < n)%nat -> t0 <= t <= t0 + T -> t0 <= s <= t0 + T -> length X = n ->
     Rabs (nth i (s_ode sys X t) 0 - nth i (s_ode sys X s) 0) <= Lt * Rabs (t - s)) ->
  let h := T / INR M in
  let Q := T * L in
  let L' := L * (1 + Q / 2 + Q ^ 2 / 6 + Q ^ 3 / 24) in
  let C1 := (L * B + Lt) * (1 / 2 + Q / 6 + Q ^ 2 / 24) in
  let X0 := xvec n x t0 in
  let st := @discrete_system R ROps (intg_rk sys) M nq X0 T t0 in
  forall j i, (j <= M)%nat -> (i < n)%nat ->
    Rabs (nth i (nth j (ds_X st) X0) 0 - x i (t0 + INR j * h))
    <= ((K / 2 + C1) * ((exp (T * L') - 1) / L')) * h.
Proof.
  intros HT HL HLt HK0 HB0 HM HlenF Hsol Hex2 HK HB Hlip Hlipt h Q L' C1 X0 st j i Hj Hi.
  subst st. rewrite (discrete_system_Xi R_field_laws) by exact Hj.
  change (@odiv R ROps T (@of_nat R ROps M)) with (T / @of_nat R ROps M).
  rewrite of_nat_R. fold h. rewrite rk4_model_iter_vec.
  pose proof (vrk4_error (s_ode sys) n t0 T L Lt HL HLt HlenF Hlip Hlipt x K B M
                HT HK0 HB0 HM Hsol Hex2 HK HB j Hj) as E.
  cbv zeta in E. fold h Q L' C1 in E.
  eapply Rle_trans; [|exact E].
  rewrite <- (nth_xvec n x (t0 + INR j * h) i Hi).
  apply dist_max_ge. exact Hi.
Qed.

(* ---- scalar ODE x' = f(t, x), as in euler_converges *)
Lemma dist_max_1 (X Y : list R) : dist_max 1 X Y = Rabs (nth 0 X 0 - nth 0 Y 0).
Proof.
  unfold dist_max. cbn [seq map fold_right]. apply Rmax_left. apply Rabs_pos.
Qed.

Theorem rk4_converges (f : R -> R -> R) (x : R -> R) (t0 T L Lt K B : R) (M : nat) :
  0 < T -> 0 < L -> 0 <= Lt -> 0 <= B -> (0 < M)%nat ->
  (forall t, t0 <= t <= t0 + T -> is_derive x t (f t (x t))) ->
  (forall t, t0 <= t <= t0 + T -> ex_derive_n x 2 t) ->
  (forall t, t0 <= t <= t0 + T -> Rabs (Derive_n x 2 t) <= K) ->
  (forall t, t0 <= t <= t0 + T -> Rabs (f t (x t)) <= B) ->
  (forall t a b, t0 <= t <= t0 + T -> Rabs (f t a - f t b) <= L * Rabs (a - b)) ->
  (forall t s a, t0 <= t <= t0 + T -> t0 <= s <= t0 + T -> Rabs (f t a - f s a) <= Lt * Rabs (t - s)) ->
  let h := T / INR M in
  let Q := T * L in
  let L' := L * (1 + Q / 2 + Q ^ 2 / 6 + Q ^ 3 / 24) in
  let C1 := (L * B + Lt) * (1 / 2 + Q / 6 + Q ^ 2 / 24) in
  let sys := mkSys (fun X t => [f t (nth 0 X 0)]) (fun _ _ => []) in
  let st := @discrete_system R ROps (intg_rk sys) M 0 [x t0] T t0 in
  forall j, (j <= M)%nat ->
    Rabs (nth 0 (nth j (ds_X st) [x t0]) 0 - x (t0 + INR j * h))
    <= ((K / 2 + C1) * ((exp (T * L') - 1) / L')) * h.
Proof.
  intros HT HL HLt HB0 HM Hsol Hex2 HK HB Hlip Hlipt h Q L' C1 sys st j Hj.
  assert (HK0 : 0 <= K).
  { eapply Rle_trans; [apply Rabs_pos|apply (HK t0); lra]. }
  apply (rk4_converges_vec sys 1 0 (fun _ => x) t0 T L Lt K B M HT HL HLt HK0 HB0 HM); try exact Hj; try lia.
  - intros X t _. reflexivity.
  - intros i t Hi Ht. assert (i = 0%nat) by lia. subst i. cbn [sys s_ode xvec seq map nth].
    apply Hsol. exact Ht.
  - intros i t _ Ht. apply Hex2. exact Ht.
  - intros i t _ Ht. apply HK. exact Ht.
  - intros i t Hi Ht. assert (i = 0%nat) by lia. subst i. cbn [sys s_ode xvec seq map nth]. apply HB. exact Ht.
  - intros i t X Y Hi Ht _ _. assert (i = 0%nat) by lia. subst i. cbn [sys s_ode nth].
    rewrite dist_max_1. apply Hlip. exact Ht.
  - intros i t s X Hi Ht Hs _. assert (i = 0%nat) by lia. subst i. cbn [sys s_ode nth].
    apply Hlipt; assumption.
Qed.

(* ---- the hypotheses are satisfiable *)
(* scalar: x' = x, x = exp, L = 1, Lt = 0, K = B = exp (t0 + T) *)
Example rk4_converges_exp (t0 T : R) (M : nat) :
  0 < T -> (0 < M)%nat ->
  let h := T / INR M in
  let sys := mkSys (fun X (_ : R) => [nth 0 X 0]) (fun _ _ => []) in
  let st := @discrete_system R ROps (intg_rk sys) M 0 [exp t0] T t0 in
  let Q := T * 1 in
  let L' := 1 * (1 + Q / 2 + Q ^ 2 / 6 + Q ^ 3 / 24) in
  let C1 := (1 * exp (t0 + T) + 0) * (1 / 2 + Q / 6 + Q ^ 2 / 24) in
  forall j, (j <= M)%nat ->
    Rabs (nth 0 (nth j (ds_X st) [exp t0]) 0 - exp (t0 + INR j * h))
    <= ((exp (t0 + T) / 2 + C1) * ((exp (T * L') - 1) / L')) * h.
Proof.
  intros HT HM.
  assert (Hexp : forall t, t0 <= t <= t0 + T -> Rabs (exp t) <= exp (t0 + T)).
  { intros t Ht. rewrite Rabs_pos_eq by (left; apply exp_pos).
    destruct Ht as [_ [Ht|Ht]]; [left; apply exp_increasing; exact Ht|rewrite Ht; apply Rle_refl]. }
  apply (rk4_converges (fun _ y => y) exp t0 T 1 0 (exp (t0 + T)) (exp (t0 + T)) M HT Rlt_0_1 (Rle_refl 0)
           (Rlt_le _ _ (exp_pos _)) HM).
  - intros t _. apply is_derive_exp.
  - intros t _. apply ex_derive_n_exp.
  - intros t Ht. rewrite Derive_n_exp. apply Hexp. exact Ht.
  - exact Hexp.
  - intros t a b _. lra.
  - intros t s a _ _. replace (a - a) with 0 by ring. rewrite Rabs_R0. lra.
Qed.

(* vector: the rotation x' = y, y' = -x with solution (sin, cos): L = 1, Lt = 0, K = 1, B = 1 *)
Example rk4_converges_rotation (t0 T : R) (M : nat) :
  0 < T -> (0 < M)%nat ->
  let h := T / INR M in
  let st := @discrete_system R ROps (intg_rk rot_sys) M 0 [sin t0; cos t0] T t0 in
  let Q := T * 1 in
  let L' := 1 * (1 + Q / 2 + Q ^ 2 / 6 + Q ^ 3 / 24) in
  let C1 := (1 * 1 + 0) * (1 / 2 + Q / 6 + Q ^ 2 / 24) in
  forall j, (j <= M)%nat ->
    Rabs (nth 0 (nth j (ds_X st) [sin t0; cos t0]) 0 - sin (t0 + INR j * h))
      <= ((1 / 2 + C1) * ((exp (T * L') - 1) / L')) * h /\
    Rabs (nth 1 (nth j (ds_X st) [sin t0; cos t0]) 0 - cos (t0 + INR j * h))
      <= ((1 / 2 + C1) * ((exp (T * L') - 1) / L')) * h.
Proof.
  intros HT HM h st Q L' C1 j Hj.
  assert (H : forall i, (i < 2)%nat ->
            Rabs (nth i (nth j (ds_X st) [sin t0; cos t0]) 0 - rot_sol i (t0 + INR j * h))
            <= ((1 / 2 + C1) * ((exp (T * L') - 1) / L')) * h).
  { intros i Hi.
    apply (rk4_converges_vec rot_sys 2 0 rot_sol t0 T 1 0 1 1 M HT Rlt_0_1 (Rle_refl 0) Rle_0_1 Rle_0_1 HM);
      try assumption.
    - intros X t _. reflexivity.
    - intros k t Hk _. destruct k as [|[|k]]; [| |lia]; cbn [rot_sys s_ode xvec seq map nth rot_sol].
      + apply is_derive_sin.
      + apply is_derive_cos.
    - intros k t Hk _. apply (rot_sol_D2 k t Hk).
    - intros k t Hk _. apply (rot_sol_D2 k t Hk).
    - intros k t Hk _. destruct k as [|[|k]]; [| |lia]; cbn [rot_sys s_ode xvec seq map nth rot_sol].
      + apply Rabs_le. pose proof (COS_bound t). lra.
      + rewrite Rabs_Ropp. apply Rabs_le. pose proof (SIN_bound t). lra.
    - intros k t X Y Hk _ _ _. rewrite Rmult_1_l.
      destruct k as [|[|k]]; [| |lia]; cbn [rot_sys s_ode nth].
      + apply (dist_max_ge 2 X Y 1). lia.
      + replace (- nth 0 X 0 - - nth 0 Y 0) with (- (nth 0 X 0 - nth 0 Y 0)) by ring.
        rewrite Rabs_Ropp. apply (dist_max_ge 2 X Y 0). lia.
    - intros k t s X _ _ _ _. cbn [rot_sys s_ode].
      match goal with |- Rabs ?e <= _ => replace e with 0 by ring end.
      rewrite Rabs_R0. lra. }
  split; [apply (H 0%nat); lia|apply (H 1%nat); lia].
Qed.


(* ================================================================== order two, scalar autonomous *)
(* second-order Taylor with a step of either sign, for a globally C^2 function *)
Lemma taylor2_gen (f : R -> R) (a dl F2 : R) :
  (forall s, ex_derive f s) -> (forall s, ex_derive_n f 2 s) ->
  (forall s, Rabs (Derive_n f 2 s) <= F2) ->
  Rabs (f (a + dl) - f a - dl * Derive f a) <= F2 / 2 * dl ^ 2.
Proof.
  intros H1 H2 HB.
  destruct (Rtotal_order 0 dl) as [Hp|[H0|Hn]].
  - apply taylor2; auto.
  - subst dl. replace (a + 0) with a by ring.
    replace (f a - f a - 0 * Derive f a) with 0 by ring. rewrite Rabs_R0. lra.
  - assert (Hloc : forall m y, (m <= 2)%nat ->
            locally y (fun y0 : R => forall k, (k <= m)%nat -> ex_derive_n f k y0)).
    { intros m y Hm. apply filter_forall. intros y0 k Hk.
      destruct k as [|[|[|k]]]; [exact I|apply H1|apply H2|lia]. }
    set (g := fun s => f (- s)).
    assert (G := taylor2 g (- a) (- dl) F2 ltac:(lra)).
    assert (Eg1 : Derive g (- a) = - Derive f a).
    { change (Derive g (- a)) with (Derive_n (fun y => f (- y)) 1 (- a)).
      rewrite Derive_n_comp_opp by (apply Hloc; lia). rewrite Ropp_involutive. change (Derive_n f 1 a) with (Derive f a). ring. }
    assert (Ea : g (- a + - dl) = f (a + dl)) by (unfold g; f_equal; ring).
    assert (Eb : g (- a) = f a) by (unfold g; f_equal; ring).
    rewrite Eg1, Ea, Eb in G.
    replace (f (a + dl) - f a - dl * Derive f a) with (f (a + dl) - f a - - dl * - Derive f a) by ring.
    replace (dl ^ 2) with ((- dl) ^ 2) by ring.
    apply G.
    + intros t _. apply (ex_derive_n_comp_opp f 1 t). apply Hloc. lia.
    + intros t _. apply (ex_derive_n_comp_opp f 2 t). apply Hloc. lia.
    + intros t _. unfold g. rewrite Derive_n_comp_opp by (apply Hloc; lia).
      replace ((-1) ^ 2) with 1 by ring. rewrite Rmult_1_l. apply HB.
Qed.

Lemma taylor3 (x : R -> R) (a h K3 : R) :
  0 < h ->
  (forall t k, a <= t <= a + h -> (k <= 3)%nat -> ex_derive_n x k t) ->
  (forall t, a <= t <= a + h -> Rabs (Derive_n x 3 t) <= K3) ->
  Rabs (x (a + h) - x a - h * Derive x a - h ^ 2 / 2 * Derive_n x 2 a) <= K3 / 6 * h ^ 3.
Proof.
  intros Hh Hex HK.
  destruct (Taylor_Lagrange x 2 a (a + h)) as (zeta & Hz & E).
  - lra.
  - intros t Ht k Hk. apply Hex; assumption.
  - rewrite E. specialize (HK zeta ltac:(lra)).
    set (D3 := Derive_n x 3 zeta) in *. set (D2 := Derive_n x 2 a) in *.
    cbn [sum_f_R0]. change (Derive_n x 1 a) with (Derive x a). change (Derive_n x 0 a) with (x a).
    replace (a + h - a) with h by ring.
    replace (INR (fact 0)) with 1 by reflexivity.
    replace (INR (fact 1)) with 1 by reflexivity.
    replace (INR (fact 2)) with 2 by (rewrite INR_IZR_INZ; reflexivity).
    replace (INR (fact 3)) with 6 by (rewrite INR_IZR_INZ; reflexivity).
    fold D2. match goal with |- Rabs ?e <= _ => replace e with (h ^ 3 / 6 * D3) by field end.
    rewrite Rabs_mult. assert (0 <= h ^ 3 / 6) by (assert (0 <= h ^ 3) by (apply pow_le; lra); lra).
    rewrite Rabs_pos_eq by assumption. nra.
Qed.

Lemma lipschitz_of_derivative (f : R -> R) (L : R) :
  (forall s, ex_derive f s) -> (forall s, Rabs (Derive f s) <= L) ->
  forall a b, Rabs (f a - f b) <= L * Rabs (a - b).
Proof.
  intros H1 HB a b. apply (bounded_variation f (Derive f) L b a).
  intros t _. split; [apply Derive_correct; apply H1|apply HB].
Qed.

(* along a solution of the autonomous equation x' = f(x): x'' = f'(x) f(x) *)
Lemma solution_D2 (f x : R -> R) :
  (forall t, is_derive x t (f (x t))) -> (forall s, ex_derive f s) ->
  forall t, ex_derive_n x 2 t /\ Derive_n x 2 t = Derive f (x t) * f (x t).
Proof.
  intros Hsol Hf t.
  assert (E : forall s, Derive x s = f (x s)) by (intro s; apply is_derive_unique; apply Hsol).
  assert (Hc : is_derive (fun s => f (x s)) t (f (x t) * Derive f (x t))).
  { apply (is_derive_comp f x t (Derive f (x t)) (f (x t))); [apply Derive_correct; apply Hf|apply Hsol]. }
  split.
  - change (ex_derive (Derive x) t). apply (ex_derive_ext (fun s => f (x s))); [intro s; symmetry; apply E|].
    eexists; exact Hc.
  - change (Derive (Derive x) t = Derive f (x t) * f (x t)).
    rewrite (Derive_ext (Derive x) (fun s => f (x s))) by exact E.
    replace (Derive f (x t) * f (x t)) with (f (x t) * Derive f (x t)) by ring.
    apply is_derive_unique. exact Hc.
Qed.

(* ---- the scalar autonomous RK4 step *)
Definition s_k2 (f : R -> R) a h := f (a + h / 2 * f a).
Definition s_k3 (f : R -> R) a h := f (a + h / 2 * s_k2 f a h).
Definition s_k4 (f : R -> R) a h := f (a + h * s_k3 f a h).
Definition s_next (f : R -> R) a h := a + h / 6 * (f a + 2 * s_k2 f a h + 2 * s_k3 f a h + s_k4 f a h).

Lemma s_next_model (f : R -> R) a (t : R) h :
  rk_next (fun X (_ : R) => [f (nth 0 X 0)]) [a] t h = [s_next f a h].
Proof. reflexivity. Qed.

Fixpoint srk4 (f : R -> R) (h : R) (j : nat) (y0 : R) : R :=
  match j with O => y0 | S j' => s_next f (srk4 f h j' y0) h end.

Lemma srk4_model (f : R -> R) t0 h j y0 :
  vrk4 (fun X (_ : R) => [f (nth 0 X 0)]) t0 h j [y0] = [srk4 f h j y0].
Proof.
  induction j as [|j IH]; cbn [vrk4 srk4]; [reflexivity|]. rewrite IH. apply s_next_model.
Qed.

Lemma arg_lip a b ka kb c d m :
  0 <= c -> Rabs (a - b) <= d -> Rabs (ka - kb) <= m -> Rabs ((a + c * ka) - (b + c * kb)) <= d + c * m.
Proof.
  intros Hc Hd Hm. replace (a + c * ka - (b + c * kb)) with ((a - b) + c * (ka - kb)) by ring.
  eapply Rle_trans; [apply Rabs_triang|]. rewrite Rabs_mult, (Rabs_pos_eq c) by exact Hc.
  assert (c * Rabs (ka - kb) <= c * m) by (apply Rmult_le_compat_l; assumption). lra.
Qed.

Lemma lip_le (f : R -> R) L u v d :
  0 <= L -> (forall a b, Rabs (f a - f b) <= L * Rabs (a - b)) -> Rabs (u - v) <= d ->
  Rabs (f u - f v) <= L * d.
Proof.
  intros HL Hl Hd. eapply Rle_trans; [apply Hl|]. apply Rmult_le_compat_l; assumption.
Qed.

Lemma s_next_lipschitz (f : R -> R) L a b h :
  0 <= L -> 0 <= h -> (forall u v, Rabs (f u - f v) <= L * Rabs (u - v)) ->
  let d := Rabs (a - b) in let q := h * L in
  Rabs (s_next f a h - s_next f b h) <= d * (1 + q + q ^ 2 / 2 + q ^ 3 / 6 + q ^ 4 / 24).
Proof.
  intros HL Hh Hl d q.
  assert (Hd : 0 <= d) by apply Rabs_pos.
  set (m1 := L * d).
  assert (H1 : Rabs (f a - f b) <= m1) by (apply Hl).
  set (m2 := L * (d + h / 2 * m1)).
  assert (H2 : Rabs (s_k2 f a h - s_k2 f b h) <= m2).
  { unfold s_k2. apply lip_le; [exact HL|exact Hl|]. apply arg_lip; [lra|apply Rle_refl|exact H1]. }
  set (m3 := L * (d + h / 2 * m2)).
  assert (H3 : Rabs (s_k3 f a h - s_k3 f b h) <= m3).
  { unfold s_k3. apply lip_le; [exact HL|exact Hl|]. apply arg_lip; [lra|apply Rle_refl|exact H2]. }
  set (m4 := L * (d + h * m3)).
  assert (H4 : Rabs (s_k4 f a h - s_k4 f b h) <= m4).
  { unfold s_k4. apply lip_le; [exact HL|exact Hl|]. apply arg_lip; [lra|apply Rle_refl|exact H3]. }
  replace (d * (1 + q + q ^ 2 / 2 + q ^ 3 / 6 + q ^ 4 / 24))
    with (d + h / 6 * (m1 + 2 * m2 + 2 * m3 + m4)) by (unfold m4, m3, m2, m1, q; field).
  unfold s_next.
  match goal with |- Rabs ?e <= _ =>
    replace e with ((a - b) + h / 6 * ((f a - f b) + 2 * (s_k2 f a h - s_k2 f b h)
       + 2 * (s_k3 f a h - s_k3 f b h) + (s_k4 f a h - s_k4 f b h))) by ring end.
  apply comb_bound; auto. apply Rle_refl.
Qed.

Lemma sq_le a B : Rabs a <= B -> a ^ 2 <= B ^ 2.
Proof.
  intro H. rewrite <- (pow2_abs a). apply pow_incr. split; [apply Rabs_pos|exact H].
Qed.

(* second-order consistency: the increment matches h f + h^2/2 f' f up to h^3 *)
Lemma s_next_consistency (f : R -> R) (L F2 B a h : R) :
  0 <= L -> 0 <= F2 -> 0 <= B -> 0 <= h ->
  (forall s, ex_derive f s) -> (forall s, ex_derive_n f 2 s) ->
  (forall s, Rabs (Derive f s) <= L) -> (forall s, Rabs (Derive_n f 2 s) <= F2) ->
  Rabs (f a) <= B ->
  let q := h * L in
  let b2 := 1 + q / 2 in let b3 := 1 + q / 2 * b2 in
  Rabs (s_next f a h - (a + h * f a + h ^ 2 / 2 * (Derive f a * f a)))
  <= h ^ 3 * ((F2 * B ^ 2 * (1 / 4 + b2 ^ 2 / 4 + b3 ^ 2 / 2) + L ^ 2 * B * (1 / 2 + b2 / 2)) / 6).
Proof.
  intros HL HF2 HB Hh Hf1 Hf2 HfL HfF2 HFa q b2 b3.
  pose proof (lipschitz_of_derivative f L Hf1 HfL) as Hl.
  set (Fa := f a) in *. set (D := Derive f a).
  assert (HD : Rabs D <= L) by apply HfL.
  assert (Tay : forall dl, Rabs (f (a + dl) - Fa - dl * D) <= F2 / 2 * dl ^ 2)
    by (intro dl; apply taylor2_gen; auto).
  (* stage 2 *)
  set (e2 := L * (h / 2 * B)).
  assert (He2 : 0 <= e2) by (apply Rmult_le_pos; [lra|apply Rmult_le_pos; lra]).
  assert (E2 : Rabs (s_k2 f a h - Fa) <= e2).
  { unfold s_k2. fold Fa. apply lip_le; [exact HL|exact Hl|].
    replace (a + h / 2 * Fa - a) with (h / 2 * Fa) by ring.
    rewrite Rabs_mult, (Rabs_pos_eq (h / 2)) by lra. apply Rmult_le_compat_l; lra. }
  assert (B2 : Rabs (s_k2 f a h) <= B + e2) by (apply (abs_via _ Fa); assumption).
  set (r2 := F2 / 2 * ((h / 2) ^ 2 * B ^ 2)).
  assert (R2 : Rabs (s_k2 f a h - Fa - h / 2 * Fa * D) <= r2).
  { eapply Rle_trans; [apply (Tay (h / 2 * Fa))|]. unfold r2.
    apply Rmult_le_compat_l; [lra|]. rewrite Rpow_mult_distr.
    apply Rmult_le_compat_l; [apply pow2_ge_0|apply sq_le; exact HFa]. }
  (* stage 3 *)
  set (k2 := s_k2 f a h) in *.
  set (e3 := L * (h / 2 * (B + e2))).
  assert (He3 : 0 <= e3) by (apply Rmult_le_pos; [lra|apply Rmult_le_pos; lra]).
  assert (E3 : Rabs (s_k3 f a h - Fa) <= e3).
  { unfold s_k3. fold k2. apply lip_le; [exact HL|exact Hl|].
    replace (a + h / 2 * k2 - a) with (h / 2 * k2) by ring.
    rewrite Rabs_mult, (Rabs_pos_eq (h / 2)) by lra. apply Rmult_le_compat_l; lra. }
  assert (B3 : Rabs (s_k3 f a h) <= B + e3) by (apply (abs_via _ Fa); assumption).
  set (r3 := F2 / 2 * ((h / 2) ^ 2 * (B + e2) ^ 2)).
  assert (R3 : Rabs (s_k3 f a h - Fa - h / 2 * Fa * D) <= r3 + h / 2 * (L * e2)).
  { replace (s_k3 f a h - Fa - h / 2 * Fa * D)
      with ((s_k3 f a h - Fa - h / 2 * k2 * D) + h / 2 * (D * (k2 - Fa))) by ring.
    eapply Rle_trans; [apply Rabs_triang|]. apply Rplus_le_compat.
    - eapply Rle_trans; [apply (Tay (h / 2 * k2))|]. unfold r3.
      apply Rmult_le_compat_l; [lra|]. rewrite Rpow_mult_distr.
      apply Rmult_le_compat_l; [apply pow2_ge_0|apply sq_le; exact B2].
    - rewrite Rabs_mult, (Rabs_pos_eq (h / 2)) by lra. apply Rmult_le_compat_l; [lra|].
      rewrite Rabs_mult. apply Rmult_le_compat; auto using Rabs_pos. }
  (* stage 4 *)
  set (k3 := s_k3 f a h) in *.
  set (r4 := F2 / 2 * (h ^ 2 * (B + e3) ^ 2)).
  assert (R4 : Rabs (s_k4 f a h - Fa - h * Fa * D) <= r4 + h * (L * e3)).
  { replace (s_k4 f a h - Fa - h * Fa * D)
      with ((s_k4 f a h - Fa - h * k3 * D) + h * (D * (k3 - Fa))) by ring.
    eapply Rle_trans; [apply Rabs_triang|]. apply Rplus_le_compat.
    - unfold s_k4. fold k3. eapply Rle_trans; [apply (Tay (h * k3))|]. unfold r4.
      apply Rmult_le_compat_l; [lra|]. rewrite Rpow_mult_distr.
      apply Rmult_le_compat_l; [apply pow2_ge_0|apply sq_le; exact B3].
    - rewrite Rabs_mult, (Rabs_pos_eq h) by lra. apply Rmult_le_compat_l; [lra|].
      rewrite Rabs_mult. apply Rmult_le_compat; auto using Rabs_pos. }
  set (k4 := s_k4 f a h) in *.
  replace (h ^ 3 * ((F2 * B ^ 2 * (1 / 4 + b2 ^ 2 / 4 + b3 ^ 2 / 2) + L ^ 2 * B * (1 / 2 + b2 / 2)) / 6))
    with (0 + h / 6 * (0 + 2 * r2 + 2 * (r3 + h / 2 * (L * e2)) + (r4 + h * (L * e3))))
    by (unfold r2, r3, r4, e3, e2, b3, b2, q; field).
  unfold s_next. fold Fa k2 k3 k4.
  match goal with |- Rabs ?e <= _ =>
    replace e with (0 + h / 6 * (0 + 2 * (k2 - Fa - h / 2 * Fa * D) + 2 * (k3 - Fa - h / 2 * Fa * D)
                                 + (k4 - Fa - h * Fa * D))) by field end.
  apply comb_bound; auto; rewrite Rabs_R0; apply Rle_refl.
Qed.

(* ---- order two for the model's RK4 loop, scalar autonomous x' = f(x), f globally C^2 with bounded f', f'' *)
Theorem rk4_converges_order2 (f x : R -> R) (t0 T L F2 B K3 : R) (M : nat) :
  0 < T -> 0 < L -> 0 <= F2 -> 0 <= B -> (0 < M)%nat ->
  (forall s, ex_derive f s) -> (forall s, ex_derive_n f 2 s) ->
  (forall s, Rabs (Derive f s) <= L) -> (forall s, Rabs (Derive_n f 2 s) <= F2) ->
  (forall t, is_derive x t (f (x t))) ->
  (forall t, ex_derive_n x 3 t) ->
  (forall t, t0 <= t <= t0 + T -> Rabs (Derive_n x 3 t) <= K3) ->
  (forall t, t0 <= t <= t0 + T -> Rabs (f (x t)) <= B) ->
  let h := T / INR M in
  let Q := T * L in
  let L' := L * (1 + Q / 2 + Q ^ 2 / 6 + Q ^ 3 / 24) in
  let b2 := 1 + Q / 2 in let b3 := 1 + Q / 2 * b2 in
  let C2 := (F2 * B ^ 2 * (1 / 4 + b2 ^ 2 / 4 + b3 ^ 2 / 2) + L ^ 2 * B * (1 / 2 + b2 / 2)) / 6 in
  let sys := mkSys (fun X (_ : R) => [f (nth 0 X 0)]) (fun _ _ => []) in
  let st := @discrete_system R ROps (intg_rk sys) M 0 [x t0] T t0 in
  forall j, (j <= M)%nat ->
    Rabs (nth 0 (nth j (ds_X st) [x t0]) 0 - x (t0 + INR j * h))
    <= ((C2 + K3 / 6) * ((exp (T * L') - 1) / L')) * h ^ 2.
Proof.
  intros HT HL HF2 HB0 HM Hf1 Hf2 HfL HfF2 Hsol Hex3 HK3 HB h Q L' b2 b3 C2 sys st j Hj.
  assert (HMr : 0 < INR M) by (apply lt_0_INR; exact HM).
  assert (Hh : 0 < h) by (apply Rdiv_lt_0_compat; assumption).
  assert (HhT : h <= T).
  { pose proof (grid_le T M 1 HT HM ltac:(lia)) as G1. cbn [INR] in G1. fold h in G1. lra. }
  assert (HK30 : 0 <= K3).
  { eapply Rle_trans; [apply Rabs_pos|apply (HK3 t0); lra]. }
  pose proof (lipschitz_of_derivative f L Hf1 HfL) as Hl.
  assert (HQ : 0 < Q) by (apply Rmult_lt_0_compat; assumption).
  set (q := h * L).
  assert (Hq0 : 0 <= q) by (apply Rmult_le_pos; lra).
  assert (HqQ : q <= Q) by (apply Rmult_le_compat_r; lra).
  assert (Hq2 : q ^ 2 <= Q ^ 2) by (apply pow_incr; lra).
  assert (Hq3 : q ^ 3 <= Q ^ 3) by (apply pow_incr; lra).
  assert (HQ2 : 0 <= Q ^ 2) by (apply pow_le; lra).
  assert (HQ3 : 0 <= Q ^ 3) by (apply pow_le; lra).
  assert (Hq2p : 0 <= q ^ 2) by (apply pow_le; lra).
  assert (Hq3p : 0 <= q ^ 3) by (apply pow_le; lra).
  set (PQ := 1 + Q / 2 + Q ^ 2 / 6 + Q ^ 3 / 24) in *.
  assert (HPQ : 1 <= PQ) by (unfold PQ; lra).
  assert (HL' : 0 < L') by (apply Rmult_lt_0_compat; lra).
  (* the constants dominate their h-dependent versions *)
  set (c2 := 1 + q / 2). set (c3 := 1 + q / 2 * c2).
  assert (Hc2 : 1 <= c2 <= b2) by (unfold c2, b2; lra).
  assert (Hc3 : 1 <= c3 <= b3).
  { unfold c3, b3. assert (0 <= q / 2 * c2) by (apply Rmult_le_pos; lra).
    assert (q / 2 * c2 <= Q / 2 * b2) by (apply Rmult_le_compat; lra). lra. }
  assert (Hc22 : c2 ^ 2 <= b2 ^ 2) by (apply pow_incr; lra).
  assert (Hc32 : c3 ^ 2 <= b3 ^ 2) by (apply pow_incr; lra).
  assert (Hc22p : 0 <= c2 ^ 2) by apply pow2_ge_0.
  assert (Hc32p : 0 <= c3 ^ 2) by apply pow2_ge_0.
  assert (HFB : 0 <= F2 * B ^ 2) by (apply Rmult_le_pos; [lra|apply pow2_ge_0]).
  assert (HLB : 0 <= L ^ 2 * B) by (apply Rmult_le_pos; [apply pow2_ge_0|lra]).
  assert (Hcst : (F2 * B ^ 2 * (1 / 4 + c2 ^ 2 / 4 + c3 ^ 2 / 2) + L ^ 2 * B * (1 / 2 + c2 / 2)) / 6 <= C2).
  { unfold C2.
    assert (F2 * B ^ 2 * (1 / 4 + c2 ^ 2 / 4 + c3 ^ 2 / 2) <= F2 * B ^ 2 * (1 / 4 + b2 ^ 2 / 4 + b3 ^ 2 / 2))
      by (apply Rmult_le_compat_l; lra).
    assert (L ^ 2 * B * (1 / 2 + c2 / 2) <= L ^ 2 * B * (1 / 2 + b2 / 2))
      by (apply Rmult_le_compat_l; lra).
    lra. }
  assert (HC2 : 0 <= C2).
  { eapply Rle_trans; [|exact Hcst].
    assert (0 <= F2 * B ^ 2 * (1 / 4 + c2 ^ 2 / 4 + c3 ^ 2 / 2)) by (apply Rmult_le_pos; lra).
    assert (0 <= L ^ 2 * B * (1 / 2 + c2 / 2)) by (apply Rmult_le_pos; lra). lra. }
  (* reduce the model to the scalar iteration *)
  subst st. rewrite (discrete_system_Xi R_field_laws) by exact Hj.
  change (@odiv R ROps T (@of_nat R ROps M)) with (T / @of_nat R ROps M).
  rewrite of_nat_R. fold h. rewrite rk4_model_iter_vec.
  change (s_ode sys) with (fun X (_ : R) => [f (nth 0 X 0)]). rewrite srk4_model. cbn [nth].
  set (e := fun k : nat => if (k <=? M)%nat
                           then Rabs (srk4 f h k (x t0) - x (t0 + INR k * h)) else 0).
  assert (He0 : forall k, 0 <= e k).
  { intro k. unfold e. destruct (k <=? M)%nat; [apply Rabs_pos|lra]. }
  assert (Hej : e j = Rabs (srk4 f h j (x t0) - x (t0 + INR j * h))).
  { unfold e. apply Nat.leb_le in Hj. rewrite Hj. reflexivity. }
  rewrite <- Hej.
  apply (global_error_order e h L' (C2 + K3 / 6) T 2 j Hh HL').
  - lra.
  - unfold e. cbn [Nat.leb INR srk4]. rewrite Rmult_0_l, Rplus_0_r.
    replace (x t0 - x t0) with 0 by ring. apply Rabs_R0.
  - apply (grid_le T M j HT HM Hj).
  - intro k.
    assert (HhL' : 0 <= h * L') by (apply Rmult_le_pos; lra).
    assert (Hpos : 0 <= (1 + h * L') * e k + (C2 + K3 / 6) * h ^ 3).
    { specialize (He0 k).
      assert (0 <= (1 + h * L') * e k) by (apply Rmult_le_pos; lra).
      assert (0 <= (C2 + K3 / 6) * h ^ 3) by (apply Rmult_le_pos; [lra|apply pow_le; lra]). lra. }
    unfold e at 1. destruct (S k <=? M)%nat eqn:Hk; [|exact Hpos].
    apply Nat.leb_le in Hk.
    assert (Hk' : (k <=? M)%nat = true) by (apply Nat.leb_le; lia).
    unfold e. rewrite Hk'. cbn [srk4].
    set (y := srk4 f h k (x t0)).
    set (tk := t0 + INR k * h).
    pose proof (grid_le T M k HT HM ltac:(lia)) as Gk. fold h in Gk.
    pose proof (grid_le T M (S k) HT HM Hk) as Gk1. fold h in Gk1.
    rewrite S_INR in Gk1.
    replace (t0 + INR (S k) * h) with (tk + h) by (rewrite S_INR; unfold tk; ring).
    assert (Itk : t0 <= tk <= t0 + T) by (unfold tk; lra).
    assert (Isub : forall t, tk <= t <= tk + h -> t0 <= t <= t0 + T).
    { intros t Ht. unfold tk in *. lra. }
    set (dd := Rabs (y - x tk)).
    assert (Hdd : 0 <= dd) by apply Rabs_pos.
    (* 1: stability *)
    assert (S1 : Rabs (s_next f y h - s_next f (x tk) h) <= (1 + h * L') * dd).
    { eapply Rle_trans; [apply (s_next_lipschitz f L y (x tk) h); [lra|lra|exact Hl]|].
      cbv zeta. fold dd q.
      replace ((1 + h * L') * dd) with (dd * (1 + q * PQ)) by (unfold L', q; ring).
      apply Rmult_le_compat_l; [exact Hdd|].
      replace (1 + q + q ^ 2 / 2 + q ^ 3 / 6 + q ^ 4 / 24)
        with (1 + q * (1 + q / 2 + q ^ 2 / 6 + q ^ 3 / 24)) by field.
      assert (q * (1 + q / 2 + q ^ 2 / 6 + q ^ 3 / 24) <= q * PQ)
        by (apply Rmult_le_compat_l; [exact Hq0|unfold PQ; lra]).
      lra. }
    (* 2: consistency at the exact solution *)
    assert (S2 : Rabs (s_next f (x tk) h - (x tk + h * f (x tk) + h ^ 2 / 2 * (Derive f (x tk) * f (x tk))))
                 <= C2 * h ^ 3).
    { eapply Rle_trans;
        [apply (s_next_consistency f L F2 B (x tk) h); auto; try lra; apply HB; exact Itk|].
      cbv zeta. fold q c2 c3. rewrite (Rmult_comm C2).
      apply Rmult_le_compat_l; [apply pow_le; lra|exact Hcst]. }
    (* 3: Taylor to third order *)
    assert (S3 : Rabs (x (tk + h) - x tk - h * Derive x tk - h ^ 2 / 2 * Derive_n x 2 tk) <= K3 / 6 * h ^ 3).
    { apply taylor3; [exact Hh| |intros t Ht; apply HK3; apply Isub; exact Ht].
      intros t k0 _ Hk0. destruct k0 as [|[|[|[|k0]]]]; [exact I| | | |lia].
      - exists (f (x t)). apply Hsol.
      - apply (solution_D2 f x Hsol Hf1 t).
      - apply Hex3. }
    rewrite (is_derive_unique _ _ _ (Hsol tk)) in S3.
    rewrite (proj2 (solution_D2 f x Hsol Hf1 tk)) in S3.
    set (a := s_next f y h) in *. set (b := s_next f (x tk) h) in *.
    set (p := x tk + h * f (x tk) + h ^ 2 / 2 * (Derive f (x tk) * f (x tk))) in *.
    replace (a - x (tk + h))
      with ((a - b) + (b - p) + - (x (tk + h) - x tk - h * f (x tk) - h ^ 2 / 2 * (Derive f (x tk) * f (x tk))))
      by (unfold p; ring).
    eapply Rle_trans; [apply Rabs_triang|]. rewrite Rabs_Ropp.
    eapply Rle_trans; [apply Rplus_le_compat_r; apply Rabs_triang|].
    fold dd. lra.
Qed.

(* satisfiable: x' = x, x = exp; L = 1, F2 = 0, B = K3 = exp (t0 + T) *)
Example rk4_converges_order2_exp (t0 T : R) (M : nat) :
  0 < T -> (0 < M)%nat ->
  let h := T / INR M in
  let sys := mkSys (fun X (_ : R) => [nth 0 X 0]) (fun _ _ => []) in
  let st := @discrete_system R ROps (intg_rk sys) M 0 [exp t0] T t0 in
  let Q := T * 1 in
  let L' := 1 * (1 + Q / 2 + Q ^ 2 / 6 + Q ^ 3 / 24) in
  let b2 := 1 + Q / 2 in let b3 := 1 + Q / 2 * b2 in
  let B := exp (t0 + T) in
  let C2 := (0 * B ^ 2 * (1 / 4 + b2 ^ 2 / 4 + b3 ^ 2 / 2) + 1 ^ 2 * B * (1 / 2 + b2 / 2)) / 6 in
  forall j, (j <= M)%nat ->
    Rabs (nth 0 (nth j (ds_X st) [exp t0]) 0 - exp (t0 + INR j * h))
    <= ((C2 + B / 6) * ((exp (T * L') - 1) / L')) * h ^ 2.
Proof.
  intros HT HM.
  assert (Hexp : forall t, t0 <= t <= t0 + T -> Rabs (exp t) <= exp (t0 + T)).
  { intros t Ht. rewrite Rabs_pos_eq by (left; apply exp_pos).
    destruct Ht as [_ [Ht|Ht]]; [left; apply exp_increasing; exact Ht|rewrite Ht; apply Rle_refl]. }
  assert (Did : forall s, Derive (fun a : R => a) s = 1) by (intro s; apply (Derive_id s)).
  apply (rk4_converges_order2 (fun a => a) exp t0 T 1 0 (exp (t0 + T)) (exp (t0 + T)) M HT Rlt_0_1 (Rle_refl 0)
           (Rlt_le _ _ (exp_pos _)) HM).
  - intro s. apply ex_derive_id.
  - intro s. change (ex_derive (Derive (fun a : R => a)) s).
    apply (ex_derive_ext (fun _ : R => 1)); [intro u; symmetry; apply Did|apply ex_derive_const].
  - intro s. rewrite Did, Rabs_R1. apply Rle_refl.
  - intro s. change (Rabs (Derive (Derive (fun a : R => a)) s) <= 0).
    rewrite (Derive_ext _ (fun _ : R => 1)) by exact Did. rewrite Derive_const, Rabs_R0. apply Rle_refl.
  - intro t. apply is_derive_exp.
  - intro t. apply ex_derive_n_exp.
  - intros t Ht. rewrite Derive_n_exp. apply Hexp. exact Ht.
  - exact Hexp.
Qed.


Print Assumptions rk4_converges_vec.
Print Assumptions rk4_converges.
Print Assumptions rk4_converges_order2.
