(* The quadrature weights of DirectCollocation (Mech/Colloc.v coeff_B: integrals over [0,1] of the
   Lagrange basis on the collocation points) integrate every polynomial of degree < d exactly, for
   any pairwise distinct points over any field — in particular they sum to 1. *)
From Coq Require Import ZArith List Field Lia Bool.
From RV Require Import Base.Num Base.Vec Base.Poly Proofs.NumLemmas Proofs.VecLemmas Proofs.ListLemmas Proofs.PolyLemmas.
Import ListNotations.
Local Open Scope nat_scope.

Section QuadProofs.
Context {F : Type} {OF : Ops F}.
Hypothesis Fth : field_theory o0 o1 oadd omul osub oopp odiv oinv (@eq F).
Add Field FFq : Fth.

(* ---- no zero divisors *)
Lemma mul_zero (a b : F) : a *! b = o0 -> b <> o0 -> a = o0.
Proof.
  intros E Hb. assert (X : a = a *! b /! b) by (field; exact Hb). rewrite X, E. field. exact Hb.
Qed.

(* ---- division by (x - a): quotient with constant term first *)
Fixpoint quot (r : list F) (a : F) : list F :=
  match r with
  | [] => []
  | _ :: r' => match r' with [] => [] | _ => polyval r' a :: quot r' a end
  end.

Lemma quot_length r a : length (quot r a) = length r - 1.
Proof.
  induction r as [|c r IH]; [reflexivity|]. cbn [quot]. destruct r as [|c' r]; [reflexivity|].
  cbn [length]. rewrite IH. cbn [length]. lia.
Qed.

Lemma quot_spec r a x : polyval r x = (x -! a) *! polyval (quot r a) x +! polyval r a.
Proof.
  induction r as [|c r IH]; [cbn; ring|]. cbn [quot]. destruct r as [|c' r].
  - cbn. ring.
  - cbn [polyval] in *. set (r' := c' :: r) in *.
    change (polyval (c' :: r) x) with (polyval r' x) in *.
    cbn [polyval]. rewrite IH. cbn [polyval]. ring.
Qed.

Lemma quot_coeff0 r a : nth 0 r o0 = polyval r a -! a *! nth 0 (quot r a) o0.
Proof.
  destruct r as [|c r]; [cbn; ring|]. cbn [quot]. destruct r as [|c' r]; cbn [nth polyval]; ring.
Qed.

Lemma quot_coeffS r a i : nth (S i) r o0 = nth i (quot r a) o0 -! a *! nth (S i) (quot r a) o0.
Proof.
  revert i. induction r as [|c r IH]; intro i; [destruct i; cbn; ring|].
  destruct r as [|c' r0].
  - destruct i; cbn; ring.
  - change (quot (c :: c' :: r0) a) with (polyval (c' :: r0) a :: quot (c' :: r0) a).
    change (nth (S i) (c :: c' :: r0) o0) with (nth i (c' :: r0) o0).
    destruct i as [|i].
    + rewrite (quot_coeff0 (c' :: r0) a). cbn [nth]. ring.
    + rewrite (IH i). cbn [nth]. reflexivity.
Qed.

Definition all_zero (r : list F) : Prop := forall i, nth i r o0 = o0.

Lemma all_zero_polyval r x : all_zero r -> polyval r x = o0.
Proof.
  revert x. induction r as [|c r IH]; intros x H; [reflexivity|].
  cbn [polyval]. rewrite (IH x) by (intro i; exact (H (S i))).
  pose proof (H 0) as H0. cbn [nth] in H0. rewrite H0. ring.
Qed.

(* a polynomial with fewer coefficients than distinct roots is zero *)
Theorem zero_of_roots (roots : list F) :
  forall r, length r <= length roots ->
    NoDup roots -> (forall b, In b roots -> polyval r b = o0) -> all_zero r.
Proof.
  induction roots as [|a roots IH]; intros r Hlen Hnd Hroots.
  - destruct r; [intro i; destruct i; reflexivity|cbn in Hlen; lia].
  - inversion Hnd as [|a' l' Hnotin Hnd']; subst.
    assert (Ha : polyval r a = o0) by (apply Hroots; left; reflexivity).
    assert (Hs : all_zero (quot r a)).
    { apply IH.
      - rewrite quot_length. cbn [length] in Hlen. lia.
      - exact Hnd'.
      - intros b Hb. pose proof (quot_spec r a b) as Q.
        rewrite (Hroots b (or_intror Hb)), Ha in Q.
        assert (Hne : b -! a <> o0).
        { intro E. apply Hnotin. replace a with b; [exact Hb|].
          transitivity (b -! a +! a); [ring|]. rewrite E. ring. }
        apply (mul_zero (polyval (quot r a) b) (b -! a)); [|exact Hne].
        transitivity ((b -! a) *! polyval (quot r a) b +! o0); [ring|]. symmetry. exact Q. }
    intro i. destruct i as [|i].
    + rewrite (quot_coeff0 r a), Ha, (Hs 0). ring.
    + rewrite (quot_coeffS r a i), (Hs i), (Hs (S i)). ring.
Qed.

(* ---- pint01 depends on the coefficients only and is linear *)
Lemma pint01_from_ext k (p q : list F) :
  (forall i, nth i p o0 = nth i q o0) -> pint01_from k p = pint01_from k q.
Proof.
  revert k q. induction p as [|c p IH]; intros k q H.
  - induction q as [|d q IHq] in k, H |- *; [reflexivity|]. cbn [pint01_from].
    pose proof (H 0) as H0. cbn [nth] in H0. rewrite <- H0.
    rewrite <- (IHq (S k)) by (intro i; pose proof (H (S i)) as Hi; destruct i; cbn [nth] in *; exact Hi).
    cbn [pint01_from]. unfold odiv. destruct Fth as [R _ Fdiv _]. rewrite Fdiv. ring.
  - destruct q as [|d q].
    + cbn [pint01_from]. pose proof (H 0) as H0. cbn [nth] in H0. rewrite H0.
      rewrite (IH (S k) []) by (intro i; pose proof (H (S i)) as Hi; destruct i; cbn [nth] in *; exact Hi).
      cbn [pint01_from]. unfold odiv. destruct Fth as [R _ Fdiv _]. rewrite Fdiv. ring.
    + cbn [pint01_from]. pose proof (H 0) as H0. cbn [nth] in H0. rewrite H0.
      rewrite (IH (S k) q) by (intro i; exact (H (S i))). reflexivity.
Qed.

Lemma pint01_ext (p q : list F) : (forall i, nth i p o0 = nth i q o0) -> pint01 p = pint01 q.
Proof. apply pint01_from_ext. Qed.

Lemma pint01_from_vadd k (p q : list F) :
  pint01_from k (vadd p q) = pint01_from k p +! pint01_from k q.
Proof.
  revert k q. induction p as [|a p IH]; intros k q.
  - cbn. ring.
  - destruct q as [|b q]; cbn [vadd pint01_from].
    + ring.
    + rewrite IH. unfold odiv. destruct Fth as [R _ Fdiv _]. rewrite !Fdiv. ring.
Qed.

Lemma pint01_from_vscale k c (p : list F) :
  pint01_from k (vscale c p) = c *! pint01_from k p.
Proof.
  revert k. induction p as [|a p IH]; intro k; cbn [vscale map pint01_from].
  - ring.
  - unfold vscale in IH. rewrite IH. unfold odiv. destruct Fth as [R _ Fdiv _]. rewrite !Fdiv. ring.
Qed.

(* ---- lengths *)
Lemma pmul_lin_length (p : list F) (u v : F) : p <> [] -> length (pmul p [u; v]) = S (length p).
Proof.
  induction p as [|c p IH]; intro H; [congruence|].
  cbn [pmul]. unfold padd, pscale. rewrite length_vadd, length_vscale. cbn [length].
  destruct p as [|c' p].
  - cbn. reflexivity.
  - rewrite IH by discriminate. cbn [length]. lia.
Qed.

Lemma lagrange_fold_length (nodes : list F) j rs (acc : list F) :
  acc <> [] ->
  let res := fold_left (fun a r => if Nat.eqb r j then a
                                   else pmul a [oopp (nth r nodes o0) /! (nth j nodes o0 -! nth r nodes o0);
                                                o1 /! (nth j nodes o0 -! nth r nodes o0)]) rs acc in
  res <> [] /\ length res = length acc + length (filter (fun r => negb (Nat.eqb r j)) rs).
Proof.
  revert acc. induction rs as [|r rs IH]; intros acc Hacc; cbn [fold_left filter].
  - split; [exact Hacc|cbn; lia].
  - destruct (Nat.eqb r j) eqn:E; cbn [negb].
    + apply IH. exact Hacc.
    + set (acc' := pmul acc _).
      assert (L : length acc' = S (length acc)) by (apply pmul_lin_length; exact Hacc).
      assert (N : acc' <> []) by (intro Z; rewrite Z in L; discriminate).
      destruct (IH acc' N) as (H1 & H2). split; [exact H1|]. rewrite H2, L. cbn [length]. lia.
Qed.

Lemma filter_neq_seq_length j n : j < n ->
  length (filter (fun r => negb (Nat.eqb r j)) (seq 0 n)) = n - 1.
Proof.
  intro Hj.
  assert (G : forall s m, length (filter (fun r => negb (Nat.eqb r j)) (seq s m)) =
                          m - (if (Nat.leb s j && Nat.ltb j (s + m))%bool then 1 else 0)).
  { intros s m. revert s. induction m as [|m IH]; intro s; [reflexivity|].
    cbn [seq filter]. destruct (Nat.eqb s j) eqn:E; cbn [negb length].
    - apply Nat.eqb_eq in E. subst s. rewrite IH.
      assert (A : (Nat.leb (S j) j && Nat.ltb j (S j + m))%bool = false)
        by (apply andb_false_iff; left; apply Nat.leb_gt; lia).
      assert (B : (Nat.leb j j && Nat.ltb j (j + S m))%bool = true)
        by (apply andb_true_iff; split; [apply Nat.leb_le; lia|apply Nat.ltb_lt; lia]).
      rewrite A, B. lia.
    - apply Nat.eqb_neq in E. rewrite IH.
      destruct (Nat.leb (S s) j && Nat.ltb j (S s + m))%bool eqn:A;
        destruct (Nat.leb s j && Nat.ltb j (s + S m))%bool eqn:B.
      + apply andb_true_iff in A. destruct A as (A1 & A2). apply Nat.leb_le in A1. apply Nat.ltb_lt in A2. lia.
      + apply andb_true_iff in A. destruct A as (A1 & A2). apply Nat.leb_le in A1. apply Nat.ltb_lt in A2.
        apply andb_false_iff in B. destruct B as [B|B]; [apply Nat.leb_gt in B|apply Nat.ltb_ge in B]; lia.
      + apply andb_true_iff in B. destruct B as (B1 & B2). apply Nat.leb_le in B1. apply Nat.ltb_lt in B2.
        apply andb_false_iff in A. destruct A as [A|A]; [apply Nat.leb_gt in A|apply Nat.ltb_ge in A]; lia.
      + lia. }
  rewrite G. assert (B : (Nat.leb 0 j && Nat.ltb j (0 + n))%bool = true)
    by (apply andb_true_iff; split; [reflexivity|apply Nat.ltb_lt; lia]).
  rewrite B. reflexivity.
Qed.

Lemma lagrange_length (nodes : list F) j : j < length nodes -> length (lagrange nodes j) = length nodes.
Proof.
  intro Hj. unfold lagrange.
  destruct (lagrange_fold_length nodes j (seq 0 (length nodes)) [o1] ltac:(discriminate)) as (_ & H).
  rewrite H, filter_neq_seq_length by exact Hj. cbn [length]. lia.
Qed.

(* ---- the interpolant through given values *)
Definition interp (nodes vals : list F) : list F :=
  fold_left (fun acc j => vadd acc (vscale (nth j vals o0) (lagrange nodes j))) (seq 0 (length nodes)) [].

Definition wsumF (w v : list F) (js : list nat) : F :=
  fold_left (fun acc j => acc +! nth j v o0 *! nth j w o0) js o0.

Lemma interp_fold_length nodes vals js (acc : list F) :
  (forall j, In j js -> j < length nodes) -> length acc <= length nodes ->
  length (fold_left (fun a j => vadd a (vscale (nth j vals o0) (lagrange nodes j))) js acc) <= length nodes.
Proof.
  revert acc. induction js as [|j js IH]; intros acc Hjs Hacc; [exact Hacc|].
  cbn [fold_left]. apply IH; [intros j' Hj'; apply Hjs; right; exact Hj'|].
  rewrite length_vadd, length_vscale, lagrange_length by (apply Hjs; left; reflexivity). lia.
Qed.

Lemma interp_length nodes vals : length (interp nodes vals) <= length nodes.
Proof.
  unfold interp. apply interp_fold_length; [intros j Hj; apply in_seq in Hj; lia|cbn; lia].
Qed.

Lemma interp_fold_val nodes vals js (acc : list F) x :
  polyval (fold_left (fun a j => vadd a (vscale (nth j vals o0) (lagrange nodes j))) js acc) x
  = fold_left (fun a j => a +! nth j vals o0 *! polyval (lagrange nodes j) x) js (polyval acc x).
Proof.
  revert acc. induction js as [|j js IH]; intro acc; [reflexivity|].
  cbn [fold_left]. rewrite IH, (polyval_vadd Fth), (polyval_vscale Fth). reflexivity.
Qed.

Lemma interp_fold_int nodes vals js (acc : list F) :
  pint01 (fold_left (fun a j => vadd a (vscale (nth j vals o0) (lagrange nodes j))) js acc)
  = fold_left (fun a j => a +! nth j vals o0 *! pint01 (lagrange nodes j)) js (pint01 acc).
Proof.
  revert acc. induction js as [|j js IH]; intro acc; [reflexivity|].
  cbn [fold_left]. rewrite IH. unfold pint01. rewrite pint01_from_vadd, pint01_from_vscale. reflexivity.
Qed.

Definition distinct (nodes : list F) : Prop :=
  forall a b, a < length nodes -> b < length nodes -> a <> b -> nth a nodes o0 -! nth b nodes o0 <> o0.

(* sum_j v_j * delta_sj over js (no duplicates) is v_s when s is in js, else the start value *)
Lemma delta_sum (f : nat -> F) s js (acc : F) : NoDup js ->
  fold_left (fun a j => a +! f j *! (if Nat.eqb s j then o1 else o0)) js acc
  = if existsb (Nat.eqb s) js then acc +! f s else acc.
Proof.
  revert acc. induction js as [|j js IH]; intros acc Hnd; [reflexivity|].
  inversion Hnd as [|j' l' Hnotin Hnd']; subst. cbn [fold_left existsb].
  rewrite IH by exact Hnd'. destruct (Nat.eqb s j) eqn:E.
  - apply Nat.eqb_eq in E. subst j. cbn [orb].
    assert (X : existsb (Nat.eqb s) js = false).
    { destruct (existsb (Nat.eqb s) js) eqn:Y; [|reflexivity].
      apply existsb_exists in Y. destruct Y as (y & Hy & Ey). apply Nat.eqb_eq in Ey. subst y. contradiction. }
    rewrite X. ring.
  - cbn [orb]. destruct (existsb (Nat.eqb s) js); ring.
Qed.

Lemma interp_at_node nodes vals s : distinct nodes -> s < length nodes ->
  polyval (interp nodes vals) (nth s nodes o0) = nth s vals o0.
Proof.
  intros Hd Hs. unfold interp. rewrite interp_fold_val. cbn [polyval].
  assert (E : forall js acc, (forall j, In j js -> j < length nodes) ->
     fold_left (fun a j => a +! nth j vals o0 *! polyval (lagrange nodes j) (nth s nodes o0)) js acc
     = fold_left (fun a j => a +! nth j vals o0 *! (if Nat.eqb s j then o1 else o0)) js acc).
  { induction js as [|j js IH]; intros acc Hjs; [reflexivity|]. cbn [fold_left].
    rewrite (lagrange_delta Fth nodes j s (Hjs j (or_introl eq_refl)) Hs Hd).
    apply IH. intros j' Hj'. apply Hjs. right. exact Hj'. }
  rewrite E by (intros j Hj; apply in_seq in Hj; lia).
  rewrite (delta_sum (fun j => nth j vals o0) s) by apply seq_NoDup.
  assert (X : existsb (Nat.eqb s) (seq 0 (length nodes)) = true).
  { apply existsb_exists. exists s. split; [apply in_seq; lia|apply Nat.eqb_refl]. }
  rewrite X. ring.
Qed.

Lemma distinct_NoDup nodes : distinct nodes -> NoDup nodes.
Proof.
  intro Hd. apply (NoDup_nth nodes o0). intros i j Hi Hj E.
  destruct (Nat.eq_dec i j) as [|Hne]; [assumption|].
  exfalso. apply (Hd i j Hi Hj Hne). rewrite E. ring.
Qed.

(* ---- exactness: sum_j B_j p(tau_j) = int_0^1 p for every p with at most d coefficients *)
Theorem interpolatory_quadrature_exact (nodes p : list F) :
  distinct nodes -> length p <= length nodes ->
  fold_left (fun a j => a +! polyval p (nth j nodes o0) *! pint01 (lagrange nodes j)) (seq 0 (length nodes)) o0
  = pint01 p.
Proof.
  intros Hd Hlen.
  set (vals := map (polyval p) nodes).
  assert (Hv : forall j, j < length nodes -> nth j vals o0 = polyval p (nth j nodes o0)).
  { intros j Hj. unfold vals. rewrite (nth_indep _ o0 (polyval p o0)) by (rewrite map_length; exact Hj).
    apply (map_nth (polyval p)). }
  (* the difference p - interp vanishes at all nodes, hence identically *)
  assert (Z : all_zero (vsub p (interp nodes vals))).
  { apply (zero_of_roots nodes).
    - rewrite length_vsub. pose proof (interp_length nodes vals). lia.
    - apply distinct_NoDup. exact Hd.
    - intros b Hb. apply (In_nth nodes b o0) in Hb. destruct Hb as (s & Hs & <-).
      assert (PV : forall (u v : list F) x, polyval (vsub u v) x = polyval u x -! polyval v x).
      { intros u. induction u as [|a0 u IHu]; intros v x.
        - cbn [vsub polyval]. induction v as [|c0 v IHv]; cbn [map polyval]; [ring|rewrite IHv; ring].
        - destruct v as [|c0 v]; cbn [vsub polyval]; [ring|rewrite IHu; ring]. }
      rewrite PV, interp_at_node by assumption. rewrite Hv by exact Hs. ring. }
  assert (Eq : pint01 p = pint01 (interp nodes vals)).
  { apply pint01_ext. intro i. pose proof (Z i) as Zi.
    change (nth i (vsub p (interp nodes vals)) o0) with (vnth (vsub p (interp nodes vals)) i) in Zi.
    rewrite (vnth_vsub Fth) in Zi. unfold vnth in Zi.
    transitivity (nth i p o0 -! nth i (interp nodes vals) o0 +! nth i (interp nodes vals) o0); [ring|].
    rewrite Zi. ring. }
  rewrite Eq. unfold interp. rewrite interp_fold_int.
  assert (P0 : pint01 (@nil F) = o0) by reflexivity. rewrite P0.
  assert (E : forall js acc, (forall j, In j js -> j < length nodes) ->
     fold_left (fun a j => a +! polyval p (nth j nodes o0) *! pint01 (lagrange nodes j)) js acc
     = fold_left (fun a j => a +! nth j vals o0 *! pint01 (lagrange nodes j)) js acc).
  { induction js as [|j js IH]; intros acc Hjs; [reflexivity|]. cbn [fold_left].
    rewrite Hv by (apply Hjs; left; reflexivity). apply IH. intros j' Hj'. apply Hjs. right. exact Hj'. }
  apply E. intros j Hj. apply in_seq in Hj. lia.
Qed.

End QuadProofs.

(* ---- the weights of the model of DirectCollocation *)
From RV Require Import Expr Rows Ocp Mech.Grid Mech.Sampling Mech.Shooting Mech.Colloc.

Section CollocWeights.
Context {F : Type} {OF : Ops F}.
Hypothesis Fth : field_theory o0 o1 oadd omul osub oopp odiv oinv (@eq F).
Add Field FFq2 : Fth.

Lemma coeff_B_nth (tau : list F) j : j < length tau -> nth j (coeff_B tau) o0 = pint01 (lagrange tau j).
Proof. intro H. unfold coeff_B. rewrite (nth_map_seq _ _ 0 j o0) by exact H. reflexivity. Qed.

(* sum_j B_j p(tau_j) = int_0^1 p  for every polynomial p with at most d = |tau| coefficients *)
Theorem dc_quadrature_exact (tau p : list F) :
  distinct tau -> length p <= length tau ->
  fold_left (fun a j => a +! nth j (coeff_B tau) o0 *! polyval p (nth j tau o0)) (seq 0 (length tau)) o0
  = pint01 p.
Proof.
  intros Hd Hl. rewrite <- (interpolatory_quadrature_exact Fth tau p Hd Hl).
  assert (E : forall js acc, (forall j, In j js -> j < length tau) ->
     fold_left (fun a j => a +! nth j (coeff_B tau) o0 *! polyval p (nth j tau o0)) js acc
     = fold_left (fun a j => a +! polyval p (nth j tau o0) *! pint01 (lagrange tau j)) js acc).
  { induction js as [|j js IH]; intros acc Hjs; [reflexivity|]. cbn [fold_left].
    rewrite coeff_B_nth by (apply Hjs; left; reflexivity).
    replace (acc +! pint01 (lagrange tau j) *! polyval p (nth j tau o0))
      with (acc +! polyval p (nth j tau o0) *! pint01 (lagrange tau j)) by ring.
    apply IH. intros j' Hj'. apply Hjs. right. exact Hj'. }
  apply E. intros j Hj. apply in_seq in Hj. lia.
Qed.

(* in particular the weights sum to one: constants are integrated exactly, for every scheme and degree *)
Corollary dc_weights_sum_to_one (tau : list F) :
  distinct tau -> 0 < length tau ->
  fold_left (fun a j => a +! nth j (coeff_B tau) o0) (seq 0 (length tau)) o0 = o1.
Proof.
  intros Hd Hl.
  pose proof (dc_quadrature_exact tau [o1] Hd ltac:(cbn; lia)) as H.
  assert (P1 : pint01 [o1 : F] = o1).
  { unfold pint01. cbn [pint01_from]. unfold of_nat. cbn [Z.of_nat Pos.of_succ_nat of_Z of_pos]. field.
    destruct Fth as [_ H1 _ _]. exact H1. }
  rewrite P1 in H. rewrite <- H.
  assert (E : forall js acc,
     fold_left (fun a j => a +! nth j (coeff_B tau) o0) js acc
     = fold_left (fun a j => a +! nth j (coeff_B tau) o0 *! polyval [o1] (nth j tau o0)) js acc).
  { induction js as [|j js IH]; intro acc; [reflexivity|]. cbn [fold_left polyval].
    replace (acc +! nth j (coeff_B tau) o0 *! (o1 +! nth j tau o0 *! o0)) with (acc +! nth j (coeff_B tau) o0) by ring.
    apply IH. }
  apply E.
Qed.

End CollocWeights.
