(* C01: the gap-closing rows of MultipleShooting and the state recursion of
   SingleShooting, related to M-fold composition of the scheme's step map. *)
From Coq Require Import ZArith QArith List Field Lia Bool.
From RV Require Import Base.Num Base.PyList Base.Vec Expr Ocp Rows Mech.Grid Mech.Intg
     Mech.Sampling Mech.Shooting Spec.SpecDyn
     Proofs.NumLemmas Proofs.VecLemmas Proofs.ListLemmas Proofs.DynProofs.
Import ListNotations.
Local Open Scope nat_scope.

Section ShootProofs.
Context {F : Type} {OF : Ops F}.
Hypothesis Fth : field_theory o0 o1 oadd omul osub oopp odiv oinv (@eq F).
Hypothesis Ch0 : @Char0 F OF.
Add Field FFs : Fth.

Variable oc : ocp.
Variable pt : point F.
Let N := m_N (o_method oc).
Let M := m_M (o_method oc).
Let cg := grid_of oc pt.
Let X := p_X pt.
Let dflt := @ds_init F OF [] o0 0.

(* the state transition of control interval k as rockit composes it *)
Definition Phi_k (k : nat) (x : list F) : list F := ds_xf x (FF oc pt cg k x).

(* ---- first pass of MultipleShooting: FFs[k] = F(X[k], ...) *)
Lemma shoot_ms_inv :
  let a := shoot oc pt cg false in
  length (a_FF a) = N /\
  forall k, k < N -> nth k (a_FF a) dflt = FF oc pt cg k (nth k X []).
Proof.
  unfold shoot. fold N.
  apply (fold_left_seq_inv (shoot_step oc pt cg false)
           (fun n a => length (a_FF a) = n /\
                       forall k, k < n -> nth k (a_FF a) dflt = FF oc pt cg k (nth k X []))).
  - cbn. split; [reflexivity|]. intros k Hk. lia.
  - intros k a Hk (Hl & Hn). unfold shoot_step. cbn [a_FF]. split.
    + rewrite app_length, Hl. cbn. lia.
    + intros j Hj. destruct (Nat.eq_dec j k) as [->|Hne].
      * rewrite <- Hl at 1. rewrite nth_app_last. reflexivity.
      * rewrite app_nth1 by lia. apply Hn. lia.
Qed.

Lemma dyn_rows_in a k r :
  In r (dyn_rows oc pt a k) <->
  exists i, i < o_nx oc /\
    r = mkRow KDyn i (Z.of_nat k) SEq
          ((nth i (nth (S k) X []) o0
            -! nth i (ds_xf (nth k X []) (nth k (a_FF a) dflt)) o0)
             /! of_Q (nth i (o_scale_x oc) 1%Q)).
Proof. unfold dyn_rows. apply in_map_seq. Qed.

(* ---- no other section of the MultipleShooting NLP contributes rows of kind dyn *)
Ltac in_cases :=
  repeat match goal with
  | H : False |- _ => destruct H
  | H : In _ [] |- _ => destruct H
  | H : In _ (_ :: _) |- _ => destruct H as [<-|H]
  | H : In _ (_ ++ _) |- _ => apply in_app_or in H; destruct H as [H|H]
  | H : In _ (if ?b then _ else _) |- _ => destruct b
  | H : In _ (match ?x with _ => _ end) |- _ => destruct x
  end.

Lemma minmax_kind go k e r : In r (@minmax_rows F OF go k e) -> rw_kind r = KGrid.
Proof. unfold minmax_rows. intro H. in_cases; reflexivity. Qed.

Lemma fixed_bounds_kind go n T Tl t0l k r :
  In r (@fixed_bounds_T F OF go n T Tl t0l k) -> rw_kind r = KGrid.
Proof. unfold fixed_bounds_T. intro H. in_cases; reflexivity. Qed.

Lemma bounds_T_kind go n tv T Tl t0l k r :
  In r (@bounds_T F OF go n tv T Tl t0l k) -> rw_kind r = KGrid.
Proof.
  unfold bounds_T. intro H.
  assert (Hf := fixed_bounds_kind go n T Tl t0l k).
  assert (Hm := minmax_kind go).
  destruct (go_spec go).
  - apply in_app_or in H. destruct H as [H|H]; [|apply Hf; exact H].
    in_cases; eapply Hm; eassumption.
  - apply in_app_or in H. destruct H as [H|H]; [|apply Hf; exact H].
    in_cases; eapply Hm; eassumption.
  - apply in_app_or in H. destruct H as [H|H]; [|apply Hf; exact H].
    in_cases; eapply Hm; eassumption.
  - apply in_app_or in H. destruct H as [H|H]; [eapply Hm; exact H|apply Hf; exact H].
Qed.

Lemma finalize_kind go g t0 T r : In r (@bounds_finalize F OF go g t0 T) -> rw_kind r = KGrid.
Proof. unfold bounds_finalize. intro H. in_cases; reflexivity. Qed.

Lemma row_at_control_kind L c k r : In r (@row_at_control F OF L c k) -> rw_kind r = KPath.
Proof. unfold row_at_control. intro H. in_cases; reflexivity. Qed.

Lemma path_rows_kind L k r : In r (@path_rows_k F OF oc L k) -> rw_kind r = KPath.
Proof.
  unfold path_rows_k. intro H. apply in_app_or in H. destruct H as [H|H].
  - apply in_flat_map in H. destruct H as (l & _ & H).
    unfold integrator_rows_at in H. apply in_flat_map in H. destruct H as (c & _ & H).
    in_cases; reflexivity.
  - unfold control_rows_at in H. apply in_flat_map in H. destruct H as (c & _ & H).
    destruct (_ && _); [destruct H|]. eapply row_at_control_kind. exact H.
Qed.

Lemma last_rows_kind L cs r : In r (@last_rows F OF L cs) -> rw_kind r = KPath.
Proof.
  unfold last_rows. intro H. apply in_flat_map in H. destruct H as (c & _ & H).
  destruct (c_last c); [|destruct H]. eapply row_at_control_kind. exact H.
Qed.

Lemma freeT_kind r : In r (@freeT_rows F OF oc pt) -> rw_kind r = KFreeT.
Proof. unfold freeT_rows. intro H. in_cases; reflexivity. Qed.

Lemma rows_ms_kinds r :
  In r (rows_ms oc pt) ->
  rw_kind r = KDyn \/ rw_kind r = KGrid \/ rw_kind r = KPath \/ rw_kind r = KPoint \/ rw_kind r = KFreeT.
Proof.
  unfold rows_ms. intro H.
  apply in_app_or in H. destruct H as [H|H].
  { right; left. eapply finalize_kind; exact H. }
  apply in_app_or in H. destruct H as [H|H].
  { apply in_flat_map in H. destruct H as (k & _ & H).
    apply in_app_or in H. destruct H as [H|H].
    { left. apply dyn_rows_in in H. destruct H as (i & _ & ->). reflexivity. }
    apply in_app_or in H. destruct H as [H|H].
    { right; left. eapply bounds_T_kind; exact H. }
    right; right; left. eapply path_rows_kind; exact H. }
  apply in_app_or in H. destruct H as [H|H].
  { right; right; left. eapply last_rows_kind; exact H. }
  apply in_app_or in H. destruct H as [H|H].
  { right; right; right; left. apply in_map_iff in H. destruct H as (c & <- & _). reflexivity. }
  right; right; right; right. eapply freeT_kind; exact H.
Qed.

(* ---- the rows of kind dyn of the MultipleShooting NLP, exactly *)
Theorem ms_dyn_rows_spec r :
  (In r (rows_ms oc pt) /\ rw_kind r = KDyn) <->
  exists k i, k < N /\ i < o_nx oc /\
    r = mkRow KDyn i (Z.of_nat k) SEq
          ((nth i (nth (S k) X []) o0 -! nth i (Phi_k k (nth k X [])) o0)
             /! of_Q (nth i (o_scale_x oc) 1%Q)).
Proof.
  destruct shoot_ms_inv as (_ & HFF).
  unfold rows_ms. fold N. fold cg. split.
  - intros (Hin & Hk).
    apply in_app_or in Hin. destruct Hin as [Hin|Hin].
    { apply finalize_kind in Hin. congruence. }
    apply in_app_or in Hin. destruct Hin as [Hin|Hin].
    2:{ apply in_app_or in Hin. destruct Hin as [Hin|Hin].
        { apply last_rows_kind in Hin. congruence. }
        apply in_app_or in Hin. destruct Hin as [Hin|Hin].
        { apply in_map_iff in Hin. destruct Hin as (c & <- & _). discriminate Hk. }
        apply freeT_kind in Hin. congruence. }
    apply in_flat_map_seq in Hin. destruct Hin as (k & HkN & Hin).
    apply in_app_or in Hin. destruct Hin as [Hin|Hin].
    2:{ apply in_app_or in Hin. destruct Hin as [Hin|Hin].
        { apply bounds_T_kind in Hin. congruence. }
        apply path_rows_kind in Hin. congruence. }
    apply dyn_rows_in in Hin. destruct Hin as (i & Hi & ->).
    exists k, i. repeat split; try assumption.
    rewrite (HFF k HkN). reflexivity.
  - intros (k & i & HkN & Hi & ->). split; [|reflexivity].
    apply in_or_app. right. apply in_or_app. left.
    apply in_flat_map_seq. exists k. split; [exact HkN|].
    apply in_or_app. left. apply dyn_rows_in. exists i. split; [exact Hi|].
    rewrite (HFF k HkN). reflexivity.
Qed.

(* ---- feasibility of the dynamic rows <=> the shooting recursion *)
Hypothesis HXlen : forall k, k <= N -> length (nth k X []) = o_nx oc.
Hypothesis HPhilen : forall k x, k < N -> length (Phi_k k x) = o_nx oc.
Hypothesis Hscale : forall i, i < o_nx oc -> of_Q (nth i (o_scale_x oc) 1%Q) <> (o0 : F).

Theorem ms_dynamics_iff :
  (forall r, In r (rows_ms oc pt) -> rw_kind r = KDyn -> rw_h r = o0) <->
  (forall k, k < N -> nth (S k) X [] = Phi_k k (nth k X [])).
Proof.
  split.
  - intros H k Hk. apply vec_ext.
    + rewrite HXlen by lia. rewrite HPhilen by lia. reflexivity.
    + intro i. unfold vnth.
      destruct (Nat.lt_ge_cases i (o_nx oc)) as [Hi|Hi].
      * specialize (H (mkRow KDyn i (Z.of_nat k) SEq
                    ((nth i (nth (S k) X []) o0 -! nth i (Phi_k k (nth k X [])) o0)
                       /! of_Q (nth i (o_scale_x oc) 1%Q)))).
        cbn [rw_kind rw_h] in H.
        assert (Hin : In (mkRow KDyn i (Z.of_nat k) SEq
                    ((nth i (nth (S k) X []) o0 -! nth i (Phi_k k (nth k X [])) o0)
                       /! of_Q (nth i (o_scale_x oc) 1%Q))) (rows_ms oc pt)).
        { apply (proj2 (ms_dyn_rows_spec _)). exists k, i. repeat split; assumption. }
        specialize (H Hin eq_refl).
        apply (proj1 (div_zero_iff Fth _ _ (Hscale i Hi))) in H.
        apply (proj1 (sub_zero_iff Fth _ _)) in H. exact H.
      * rewrite !nth_overflow; [reflexivity| |].
        -- rewrite HPhilen by lia. exact Hi.
        -- rewrite HXlen by lia. exact Hi.
  - intros H r Hin Hk.
    destruct (proj1 (ms_dyn_rows_spec r) (conj Hin Hk)) as (k & i & HkN & Hi & ->).
    cbn [rw_h]. rewrite (H k HkN).
    apply (div_zero_iff Fth); [apply Hscale; exact Hi|]. ring.
Qed.

(* ---- SingleShooting: the reported states are the recursion from X[0] *)
Lemma shoot_ss_inv :
  let a := shoot oc pt cg true in
  length (a_X a) = S N /\
  nth 0 (a_X a) [] = nth 0 X [] /\
  forall k, k < N -> nth (S k) (a_X a) [] = Phi_k k (nth k (a_X a) []).
Proof.
  unfold shoot. fold N.
  apply (fold_left_seq_inv (shoot_step oc pt cg true)
           (fun n a => length (a_X a) = S n /\ nth 0 (a_X a) [] = nth 0 X [] /\
              forall k, k < n -> nth (S k) (a_X a) [] = Phi_k k (nth k (a_X a) []))).
  - cbn. repeat split. intros k Hk. lia.
  - intros k a Hk (Hl & H0 & Hn). unfold shoot_step. cbn [a_X].
    assert (Hlast : last (a_X a) [] = nth k (a_X a) []) by (apply last_nth; exact Hl).
    repeat split.
    + rewrite app_length, Hl. cbn. lia.
    + rewrite app_nth1 by lia. exact H0.
    + intros j Hj. destruct (Nat.eq_dec j k) as [->|Hne].
      * rewrite <- Hl at 1. rewrite nth_app_last. rewrite Hlast.
        rewrite app_nth1 by lia. reflexivity.
      * rewrite !app_nth1 by lia. apply Hn. lia.
Qed.

Theorem ss_states_recursion :
  let Xs := L_X (lists_of oc pt true) in
  nth 0 Xs [] = nth 0 X [] /\
  forall k, k < N -> nth (S k) Xs [] = Phi_k k (nth k Xs []).
Proof.
  cbn zeta. unfold lists_of. cbn [L_X]. fold cg.
  destruct shoot_ss_inv as (_ & H0 & Hn). split; assumption.
Qed.

End ShootProofs.
