(* C17: the derivative theorem stated on the model's own list definitions: the spline with the coefficients
   bspline_derivative c xi d, evaluated with basis_values on the knots clamped xi (d-1), is the derivative
   (dcdb) of the spline with coefficients c on the knots clamped xi d. *)
From Coq Require Import ZArith List Field Lia Bool.
From RV Require Import Base.Num Base.Vec Mech.Spline Proofs.NumLemmas Proofs.ListLemmas Proofs.SplineProofs Proofs.SplineDer
     Proofs.ObjProofs.
Import ListNotations.
Local Open Scope nat_scope.

Section SplineDerList.
Context {F : Type} {OF : Ops F}.
Hypothesis Fth : field_theory o0 o1 oadd omul osub oopp odiv oinv (@eq F).
Add Field FFsl : Fth.

Lemma osum_map_seq (f : nat -> F) n : osum (map f (seq 0 n)) = sumf f n.
Proof.
  induction n as [|n IH]; [reflexivity|].
  rewrite seq_S, map_app, (osum_app Fth), IH. cbn [Nat.add map sumf]. rewrite (osum_cons Fth). unfold osum. cbn [fold_left]. ring.
Qed.

Lemma combine_map_seq {A B} (f : nat -> A) (g : nat -> B) s n :
  combine (map f (seq s n)) (map g (seq s n)) = map (fun i => (f i, g i)) (seq s n).
Proof. revert s. induction n as [|n IH]; intro s; cbn [seq map combine]; [reflexivity|]. rewrite IH. reflexivity. Qed.

Lemma vdot_map_seq (f g : nat -> F) n :
  vdot (map f (seq 0 n)) (map g (seq 0 n)) = sumf (fun i => f i *! g i) n.
Proof.
  unfold vdot. rewrite combine_map_seq, map_map. cbn [fst snd]. apply osum_map_seq.
Qed.

(* basis functions only read the knots up to index j + e + 1 *)
Lemma cdb_ext (k k' : nat -> F) j x e :
  (forall m, m <= j + e + 1 -> k m = k' m) -> forall i, cdb k j x e i = cdb k' j x e i.
Proof.
  induction e as [|e' IH]; intros H i; cbn [cdb]; [reflexivity|].
  rewrite (IH (fun m Hm => H m ltac:(lia)) i), (IH (fun m Hm => H m ltac:(lia)) (S i)).
  destruct (Nat.leb (j - e') i && Nat.leb i j) eqn:E1; destruct (Nat.leb (j - e') (S i) && Nat.leb (S i) j) eqn:E2.
  all: try (apply andb_true_iff in E1; destruct E1 as [E1a E1b]; apply Nat.leb_le in E1a; apply Nat.leb_le in E1b).
  all: try (apply andb_true_iff in E2; destruct E2 as [E2a E2b]; apply Nat.leb_le in E2a; apply Nat.leb_le in E2b).
  all: try rewrite <- (H i) by lia; try rewrite <- (H (i + S e')) by lia;
       try rewrite <- (H (S i)) by lia; try rewrite <- (H (S (i + S e'))) by lia; reflexivity.
Qed.

(* clamped xi d' is clamped xi (S d') without its first and last knot *)
Lemma clamped_shift (xi : list F) d' m :
  m < length (clamped xi d') -> knot_fun (clamped xi (S d')) (S m) = knot_fun (clamped xi d') m.
Proof.
  intro Hm. unfold knot_fun, clamped in *.
  replace (repeat (last xi o0) (S d')) with (repeat (last xi o0) d' ++ [last xi o0]) by (symmetry; apply repeat_cons).
  cbn [repeat app nth].
  rewrite !app_assoc. rewrite app_nth1; [reflexivity|].
  rewrite <- app_assoc. exact Hm.
Qed.

Lemma clamped_length (xi : list F) d : length (clamped xi d) = d + length xi + d.
Proof. unfold clamped. rewrite !app_length, !repeat_length. lia. Qed.

(* the model's derivative spline, evaluated by the model's basis_values on its own knots, is the derivative of the
   model's spline: c has n = length xi - 1 + d coefficients, d = S d', x lies in knot span j (d <= j < n) of the knots
   K = clamped xi d, across which the knots are distinct *)
Theorem spline_derivative_lists (c xi : list F) (d' j : nat) (x : F) :
  let d := S d' in
  let K := clamped xi d in
  length c = length xi - 1 + d -> 1 <= length xi ->
  d <= j -> j < length c ->
  (forall a b, a <= j -> j < b -> knot_fun K b -! knot_fun K a <> o0) ->
  sumf (fun i => nth i c o0 *! dcdb (knot_fun K) j x d i) (length c)
  = spline_value (bspline_derivative c xi d) (basis_values (clamped xi d') d' (j - 1) x).
Proof.
  intros d K Hc Hxi Hd Hj Hsep.
  rewrite (spline_derivative Fth (knot_fun K) j x Hsep (fun i => nth i c o0) d' (length c) Hd Hj).
  unfold spline_value, bspline_derivative, basis_values.
  assert (Hlen : length (clamped xi d') - d' - 1 = length c - 1).
  { rewrite clamped_length. unfold d in Hc. lia. }
  rewrite Hlen, vdot_map_seq.
  apply sumf_ext. intros i Hi.
  fold d. fold K.
  replace (S i + S d') with (S (i + d)) by (unfold d; lia).
  f_equal.
  (* the basis function of the derivative spline on its own knots *)
  rewrite (cdb_ext (knot_fun (clamped xi d')) (fun m => knot_fun K (S m)) (j - 1) x d').
  - rewrite cdb_shift. replace (S (j - 1)) with j by lia. reflexivity.
  - intros m Hm. symmetry. apply clamped_shift. rewrite clamped_length. unfold d in *. lia.
Qed.

End SplineDerList.
