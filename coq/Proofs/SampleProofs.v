(* C07: sampling is evaluation in the environment of each grid point; read-back array layout. *)
From Coq Require Import ZArith QArith List Field Lia Bool.
From RV Require Import Base.Num Base.PyList Base.Vec Expr Ocp Rows Mech.Grid Mech.Intg Mech.Sampling
     Mech.Shooting Mech.Sample Spec.SpecDyn Spec.SpecPlace
     Proofs.NumLemmas Proofs.ListLemmas Proofs.PyLemmas Proofs.GridLemmas Proofs.DynProofs
     Proofs.PlaceProofs Proofs.ShootProofs.
Import ListNotations.
Local Open Scope nat_scope.

(* ---- DM2numpy: entry [i, a, b] of the result is element (a, b) of the block of time i *)
Section DM.
Context {A : Type}.
Variable d : A.

Theorem dm2numpy_index (flat : list A) (r tdim c i a b : nat) :
  i < tdim -> a < r -> b < c ->
  nth (i * (r * c) + a * c + b) (dm2numpy d flat r tdim c) d = nth (a * (tdim * c) + i * c + b) flat d.
Proof.
  intros Hi Ha Hb. unfold dm2numpy.
  assert (Hab : a * c + b < r * c).
  { pose proof (Nat.mul_le_mono_r (S a) r c Ha) as H. cbn [Nat.mul] in H. lia. }
  assert (Hidx : i * (r * c) + a * c + b < tdim * r * c).
  { pose proof (Nat.mul_le_mono_r (S i) tdim (r * c) Hi) as H. cbn [Nat.mul] in H.
    rewrite <- Nat.mul_assoc. lia. }
  rewrite (nth_map_seq _ (tdim * r * c) 0 (i * (r * c) + a * c + b) d Hidx). cbn [plus].
  assert (E1 : (i * (r * c) + a * c + b) / (r * c) = i).
  { symmetry. apply (Nat.div_unique _ (r * c) i (a * c + b)); [exact Hab|lia]. }
  assert (E2 : (i * (r * c) + a * c + b) mod (r * c) = a * c + b).
  { symmetry. apply (Nat.mod_unique _ (r * c) i (a * c + b)); [exact Hab|lia]. }
  assert (E3 : (a * c + b) / c = a).
  { symmetry. apply (Nat.div_unique _ c a b); [exact Hb|lia]. }
  assert (E4 : (i * (r * c) + a * c + b) mod c = b).
  { symmetry. apply (Nat.mod_unique _ c (i * r + a) b); [exact Hb|].
    rewrite Nat.mul_add_distr_l, !Nat.mul_assoc.
    replace (c * i * r) with (i * (r * c)) by (rewrite (Nat.mul_comm c i), <- Nat.mul_assoc, (Nat.mul_comm c r); reflexivity).
    rewrite (Nat.mul_comm c a). lia. }
  rewrite E1, E2, E3, E4. reflexivity.
Qed.

Theorem dm2numpy_length (flat : list A) r tdim c : length (dm2numpy d flat r tdim c) = tdim * r * c.
Proof. unfold dm2numpy. rewrite map_length, seq_length. reflexivity. Qed.

End DM.

Section SampleProofs.
Context {F : Type} {OF : Ops F}.
Hypothesis Fth : field_theory o0 o1 oadd omul osub oopp odiv oinv (@eq F).
Hypothesis Ch0 : @Char0 F OF.

(* ---- control grid: node k gets the expression evaluated in the environment of node k *)
Section Control.
Variable L : mlists F.
Hypothesis W : wf_lists L.
Notation N := (L_N L).

Lemma control_ks_nodes : control_ks N true = map (fun k => if Nat.eqb k N then (-1)%Z else Z.of_nat k) (seq 0 (S N)).
Proof.
  destruct W. unfold control_ks.
  assert (ES : seq 0 (S N) = 0 :: seq 1 (N - 1) ++ [N]).
  { cbn [seq]. f_equal. replace N with ((N - 1) + 1) at 1 by lia. rewrite seq_app. cbn [seq].
    replace (1 + (N - 1)) with N by lia. reflexivity. }
  rewrite ES. cbn [map]. rewrite map_app. cbn [map].
  assert (E0 : (0 =? N) = false) by (apply Nat.eqb_neq; lia). rewrite E0, Nat.eqb_refl.
  cbn [app Z.of_nat]. f_equal. f_equal.
  apply map_ext_in. intros k Hk. apply in_seq in Hk.
  assert (E : (k =? N) = false) by (apply Nat.eqb_neq; lia). rewrite E. reflexivity.
Qed.

Theorem sample_control_spec (es : list expr) :
  (forall e, In e es -> offsets e = []) ->
  snd (sample_control L es true)
  = map (fun k => map (fun e => Some (spec_eval_node L k e)) es) (seq 0 (S N)).
Proof.
  intro Hoff. unfold sample_control. cbn [snd]. rewrite control_ks_nodes, map_map.
  apply map_ext_in. intros k Hk. apply in_seq in Hk.
  assert (Hg : flat_map offsets es = []).
  { clear -Hoff. induction es as [|e es' IH]; [reflexivity|]. cbn [flat_map].
    rewrite (Hoff e) by (left; reflexivity). apply IH. intros e' He'. apply Hoff. right. exact He'. }
  unfold eval_all_at_control. rewrite Hg. cbn [placeable_offs forallb].
  apply map_ext_in. intros e He. f_equal.
  destruct (Nat.eqb k N) eqn:E.
  - apply Nat.eqb_eq in E. subst k.
    apply (eval_control_final Fth Ch0 L W e []); [rewrite (Hoff e He); apply incl_refl|reflexivity].
  - apply Nat.eqb_neq in E.
    apply (eval_control_node Fth Ch0 L W k e []); [lia|rewrite (Hoff e He); apply incl_refl|reflexivity].
Qed.

(* one time point per sampled value on 'control' and on 'control-' *)
Theorem sample_control_lengths (es : list expr) (b : bool) :
  length (fst (sample_control L es b)) = length (snd (sample_control L es b)).
Proof.
  destruct W. unfold sample_control, control_ks. cbn [fst snd].
  rewrite map_length, app_length. cbn [length]. rewrite map_length, seq_length.
  destruct b; cbn [length].
  - rewrite wf_cg. lia.
  - rewrite length_removelast, wf_cg. lia.
Qed.

End Control.

(* ---- integrator grid (MultipleShooting): the state sampled at integrator point (k, l) is the
   l-th iterate of the scheme on interval k started from node state k *)
Section Integrator.
Variable oc : ocp.
Variable pt : point F.
Notation N := (m_N (o_method oc)).
Notation M := (m_M (o_method oc)).
Let cg := grid_of oc pt.
Let dflt := @ds_init F OF [] o0 0.

Lemma FF_X_length k x : length (ds_X (FF oc pt cg k x)) = S M.
Proof.
  unfold FF. unfold discrete_system.
  exact (proj1 (proj2 (proj2 (proj2 (loop_inv Fth (step_of oc pt k) x
          (nth (S k) cg o0 -! nth k cg o0) (nth k cg o0) M (length (o_quad oc)) M))))).
Qed.

Lemma shoot_xk_inv :
  let a := shoot oc pt cg false in
  length (a_xk a) = N * M /\
  forall k l, k < N -> l < M ->
    nth (k * M + l) (a_xk a) [] = nth l (ds_X (FF oc pt cg k (nth k (p_X pt) []))) [].
Proof.
  unfold shoot.
  set (P := fun n (a : shoot_acc F) => length (a_xk a) = n * M /\
     forall k l, k < n -> l < M ->
       nth (k * M + l) (a_xk a) [] = nth l (ds_X (FF oc pt cg k (nth k (p_X pt) []))) []).
  cbv zeta.
  match goal with |- context [fold_left ?f ?l ?i] => set (res := fold_left f l i); assert (H : P N res) end.
  { unfold res. apply (fold_left_seq_inv (shoot_step oc pt cg false) P).
    - unfold P. cbn. split; [reflexivity|]. intros k l Hk. lia.
    - intros k a Hk (Hl & Hn). unfold P, shoot_step. cbn [a_xk]. split.
      + rewrite app_length, firstn_length, FF_X_length, Hl. lia.
      + intros j l Hj Hlm. destruct (Nat.eq_dec j k) as [->|Hne].
        * rewrite app_nth2 by (rewrite Hl; nia). rewrite Hl.
          replace (k * M + l - k * M) with l by lia.
          apply nth_firstn_lt. exact Hlm.
        * rewrite app_nth1 by (rewrite Hl; nia). apply Hn; lia. }
  exact H.
Qed.

Theorem ms_integrator_state k l : k < N -> l < M ->
  e_x (env_integrator (lists_of oc pt false) k l)
  = iter_steps (fun t x => r_xf (step_of oc pt k x t
                  ((nth (S k) cg o0 -! nth k cg o0) /! of_nat M) (nth (S k) cg o0 -! nth k cg o0)))
               (nth k cg o0) ((nth (S k) cg o0 -! nth k cg o0) /! of_nat M) l (nth k (p_X pt) []).
Proof.
  intros Hk Hl. unfold env_integrator, lists_of. cbn [e_x L_xk L_M].
  destruct shoot_xk_inv as (Hlen & Hn). fold cg.
  rewrite app_nth1 by (rewrite Hlen; nia).
  rewrite (Hn k l Hk Hl).
  rewrite (nth_indep _ [] (nth k (p_X pt) [])) by (rewrite (FF_X_length k); lia).
  unfold FF. apply (discrete_system_Xi Fth). lia.
Qed.

End Integrator.

End SampleProofs.
