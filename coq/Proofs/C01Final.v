(* C01, composed: the state transition of a control interval in the shooting
   transcriptions is M steps of the scheme's Butcher-tableau step map, step j at the
   absolute time t_k + j*h_k with h_k = (t_{k+1}-t_k)/M, evaluated with the control,
   per-interval and global parameter/variable values of interval k. *)
From Coq Require Import ZArith QArith List Field Lia Bool.
From RV Require Import Base.Num Base.PyList Base.Vec Expr Ocp Rows Mech.Grid Mech.Intg
     Mech.Sampling Mech.Shooting Spec.SpecDyn
     Proofs.NumLemmas Proofs.VecLemmas Proofs.ListLemmas Proofs.DynProofs Proofs.ShootProofs.
Import ListNotations.
Local Open Scope nat_scope.

Section C01Final.
Context {F : Type} {OF : Ops F}.
Hypothesis Fth : field_theory o0 o1 oadd omul osub oopp odiv oinv (@eq F).
Hypothesis Ch0 : @Char0 F OF.

Variable oc : ocp.
Variable pt : point F.
Let N := m_N (o_method oc).
Let M := m_M (o_method oc).
Let cg := grid_of oc pt.

Definition t_k (k : nat) : F := nth k cg o0.
Definition len_k (k : nat) : F := nth (S k) cg o0 -! nth k cg o0.   (* control-interval length *)
Definition h_k (k : nat) : F := len_k k /! of_nat M.                  (* integrator step *)

(* any scheme (incl. set_next): M-fold composition of rockit's own step map, which
   receives DT = h_k and DT_control = t_{k+1} - t_k *)
Theorem Phi_k_is_iter k x :
  Phi_k oc pt k x =
  iter_steps (fun t y => r_xf (step_of oc pt k y t (h_k k) (len_k k))) (t_k k) (h_k k) M x.
Proof.
  unfold Phi_k, FF. fold cg. fold M.
  exact (discrete_system_iter Fth (step_of oc pt k) x (len_k k) (t_k k) M (length (o_quad oc))).
Qed.

Lemma sys_ode_len k x t : length (s_ode (sys_of oc pt k) x t) = length (o_ode oc).
Proof. unfold sys_of. cbn [s_ode]. apply map_length. Qed.

(* 'rk': classical RK4 *)
Theorem Phi_k_rk4 k x :
  m_intg (o_method oc) = IRK -> length x = length (o_ode oc) ->
  Phi_k oc pt k x =
  iter_steps (erk_step rk4_tableau (s_ode (sys_of oc pt k)) (h_k k)) (t_k k) (h_k k) M x.
Proof.
  intros Hi Hx. rewrite Phi_k_is_iter.
  apply (iter_steps_ext _ _ (length (o_ode oc))); [exact Hx| |].
  - intros t y Hy. unfold step_of. rewrite Hi.
    apply (intg_rk_is_erk Fth Ch0 _ (length (o_ode oc))); [apply sys_ode_len|exact Hy].
  - intros t y Hy.
    rewrite <- (intg_rk_is_erk Fth Ch0 (sys_of oc pt k) (length (o_ode oc)) (sys_ode_len k) y t (h_k k) (len_k k) Hy).
    apply intg_rk_xf_len; [apply sys_ode_len|exact Hy].
Qed.

(* 'expl_euler' *)
Theorem Phi_k_euler k x :
  m_intg (o_method oc) = IEuler -> length x = length (o_ode oc) ->
  Phi_k oc pt k x =
  iter_steps (erk_step euler_tableau (s_ode (sys_of oc pt k)) (h_k k)) (t_k k) (h_k k) M x.
Proof.
  intros Hi Hx. rewrite Phi_k_is_iter.
  apply (iter_steps_ext _ _ (length (o_ode oc))); [exact Hx| |].
  - intros t y Hy. unfold step_of. rewrite Hi. apply (intg_euler_is_erk Fth).
  - intros t y Hy. rewrite <- (intg_euler_is_erk Fth (sys_of oc pt k) y t (h_k k) (len_k k)).
    apply intg_euler_xf_len; [apply sys_ode_len|exact Hy].
Qed.

(* set_next: the update rule itself, applied M times, seeing DT = h_k and
   DT_control = t_{k+1}-t_k of the interval being propagated *)
Theorem Phi_k_next k x :
  m_intg (o_method oc) = INext ->
  Phi_k oc pt k x =
  iter_steps (fun t y => map (eval0 (sys_env pt k y t (h_k k) (len_k k))) (o_ode oc))
             (t_k k) (h_k k) M x.
Proof.
  intros Hi. rewrite Phi_k_is_iter. unfold step_of. rewrite Hi. reflexivity.
Qed.

End C01Final.
