(* C12: a multi-stage NLP is the tagged disjoint union of its stages' NLPs plus the master's rows;
   blocks are stage-local; clones are the template's content with the horizon overridden. *)
From Coq Require Import ZArith QArith List Field Lia Bool.
From RV Require Import Base.Num Base.PyList Base.Vec Expr Rows Ocp Mech.Grid Mech.Sampling Mech.Shooting
     Mech.Colloc Mech.Stages.
Import ListNotations.
Local Open Scope nat_scope.

Section StageProofs.
Context {F : Type} {OF : Ops F}.

Definition block (i : nat) (rows : list (nat * row F)) : list (row F) :=
  map snd (filter (fun r => Nat.eqb (fst r) i) rows).

Lemma block_app i a b : block i (a ++ b) = block i a ++ block i b.
Proof. unfold block. rewrite filter_app, map_app. reflexivity. Qed.

Lemma block_tag_same i (rs : list (row F)) : block i (map (pair i) rs) = rs.
Proof.
  unfold block. induction rs as [|r rs IH]; [reflexivity|].
  cbn [map filter fst]. rewrite Nat.eqb_refl. cbn [map snd]. f_equal. exact IH.
Qed.

Lemma block_tag_other i j (rs : list (row F)) : i <> j -> block i (map (pair j) rs) = [].
Proof.
  intro H. unfold block. induction rs as [|r rs IH]; [reflexivity|].
  cbn [map filter fst]. destruct (Nat.eqb j i) eqn:E; [apply Nat.eqb_eq in E; congruence|exact IH].
Qed.

Lemma stages_rows_app i0 (a b : list (ocp * point F)) :
  stages_rows i0 (a ++ b) = stages_rows i0 a ++ stages_rows (i0 + length a) b.
Proof.
  revert i0. induction a as [|[oc pt] a IH]; intro i0; cbn [app stages_rows length].
  - rewrite Nat.add_0_r. reflexivity.
  - rewrite IH, app_assoc. do 2 f_equal. lia.
Qed.

Lemma block_below i i0 (l : list (ocp * point F)) : i < i0 -> block i (stages_rows i0 l) = [].
Proof.
  revert i0. induction l as [|[oc pt] l IH]; intros i0 H; cbn [stages_rows]; [reflexivity|].
  rewrite block_app, block_tag_other by lia. apply IH. lia.
Qed.

(* the rows tagged i are exactly the rows of the i-th stage at its own point *)
Theorem stage_block i0 i (l : list (ocp * point F)) :
  block (i0 + i) (stages_rows i0 l) =
  match nth_error l i with Some (oc, pt) => stage_rows oc pt | None => [] end.
Proof.
  revert i0 i. induction l as [|[oc pt] l IH]; intros i0 i; cbn [stages_rows].
  - destruct i; reflexivity.
  - rewrite block_app. destruct i as [|i].
    + rewrite Nat.add_0_r, block_tag_same, block_below by lia. cbn [nth_error]. apply app_nil_r.
    + rewrite block_tag_other by lia. cbn [app nth_error].
      replace (i0 + S i) with (S i0 + i) by lia. apply IH.
Qed.

Lemma block_master (mu : multi) (pts : list (point F)) V (i : nat) (cs : list cconstr) n Ls :
  i <> n -> block i (map (fun c => (n, coupling_row Ls V c)) cs) = [].
Proof.
  intro H. unfold block. induction cs as [|c cs IH]; [reflexivity|].
  cbn [map filter fst]. destruct (Nat.eqb n i) eqn:E; [apply Nat.eqb_eq in E; congruence|exact IH].
Qed.

(* disjoint union: the block of stage i in the multi-stage NLP is that stage's own NLP *)
Theorem multi_stage_block (mu : multi) (pts : list (point F)) V i :
  i < length (mu_stages mu) ->
  block i (multi_rows mu pts V) =
  match nth_error (combine (mu_stages mu) pts) i with
  | Some (oc, pt) => stage_rows oc pt | None => [] end.
Proof.
  intro Hi. unfold multi_rows. rewrite block_app.
  rewrite (block_master mu pts V i (mu_cons mu)) by lia.
  rewrite app_nil_r. exact (stage_block 0 i _).
Qed.

(* ... and the master's block holds one row per coupling constraint, nothing else *)
Theorem multi_master_block (mu : multi) (pts : list (point F)) V :
  block (length (mu_stages mu)) (multi_rows mu pts V) =
  map (coupling_row (multi_lists mu pts) V) (mu_cons mu).
Proof.
  unfold multi_rows. rewrite block_app.
  assert (E : block (length (mu_stages mu)) (stages_rows 0 (combine (mu_stages mu) pts)) = []).
  { pose proof (stage_block 0 (length (mu_stages mu)) (combine (mu_stages mu) pts)) as H.
    cbn [Nat.add] in H. rewrite H.
    assert (Hn : nth_error (combine (mu_stages mu) pts) (length (mu_stages mu)) = None).
    { apply nth_error_None. rewrite combine_length. lia. }
    rewrite Hn. reflexivity. }
  rewrite E. cbn [app]. unfold block.
  induction (mu_cons mu) as [|c cs IH]; [reflexivity|].
  cbn [map filter fst]. rewrite Nat.eqb_refl. cbn [map snd]. f_equal. exact IH.
Qed.

(* no row carries any other tag *)
Theorem multi_tags_bounded (mu : multi) (pts : list (point F)) V r :
  In r (multi_rows mu pts V) -> fst r <= length (mu_stages mu).
Proof.
  unfold multi_rows. intro H. apply in_app_or in H. destruct H as [H|H].
  - assert (G : forall i0 l, In r (stages_rows i0 l) -> fst r < i0 + length l).
    { intros i0 l. revert i0. induction l as [|[oc pt] l IH]; intros i0 Hr; cbn [stages_rows] in Hr.
      - destruct Hr.
      - apply in_app_or in Hr. destruct Hr as [Hr|Hr].
        + apply in_map_iff in Hr. destruct Hr as (x & <- & _). cbn [fst length]. lia.
        + apply IH in Hr. cbn [length]. lia. }
    apply G in H. rewrite combine_length in H. lia.
  - apply in_map_iff in H. destruct H as (c & <- & _). cbn [fst]. lia.
Qed.

(* siblings are independent: what the other stages are (or where their points lie) does not
   change the rows of stage i *)
Theorem sibling_independent (mu mu' : multi) (pts pts' : list (point F)) V V' i :
  i < length (mu_stages mu) -> i < length (mu_stages mu') ->
  nth_error (combine (mu_stages mu) pts) i = nth_error (combine (mu_stages mu') pts') i ->
  block i (multi_rows mu pts V) = block i (multi_rows mu' pts' V').
Proof.
  intros Hi Hi' E. rewrite !multi_stage_block by assumption. rewrite E. reflexivity.
Qed.

(* at_t0 / at_tf / integral / T / t0 of a stage are resolved with that stage's quantities only *)
Fixpoint mentions (e : cexpr) (i : nat) : bool :=
  match e with
  | CC _ | CV _ => false
  | CSt j _ => Nat.eqb j i
  | CAdd a b | CSub a b | CMul a b | CDiv a b => mentions a i || mentions b i
  | CNeg a | CPow a _ => mentions a i
  end.

Theorem ceval_stage (Ls : list (mlists F)) V i pe L :
  nth_error Ls i = Some L -> ceval Ls V (CSt i pe) = peval L pe.
Proof. intro H. cbn [ceval]. rewrite H. reflexivity. Qed.

Theorem ceval_stage_local (Ls Ls' : list (mlists F)) V e :
  (forall i, mentions e i = true -> nth_error Ls i = nth_error Ls' i) ->
  ceval Ls V e = ceval Ls' V e.
Proof.
  induction e as [q|j pe|j|a IHa b IHb|a IHa b IHb|a IHa b IHb|a IHa b IHb|a IHa|a IHa n];
    intro H; cbn [ceval]; try reflexivity;
    try (rewrite IHa, IHb; [reflexivity| |];
         intros i Hi; apply H; cbn [mentions]; rewrite Hi; [apply orb_true_r|apply orb_true_l]);
    try (rewrite IHa; [reflexivity|]; intros i Hi; apply H; exact Hi).
  rewrite (H j); [reflexivity|]. cbn [mentions]. apply Nat.eqb_refl.
Qed.

(* clones *)
Theorem clone_identity tpl : clone tpl None None = tpl.
Proof. destruct tpl. reflexivity. Qed.

Theorem clone_content tpl t0 T :
  let c := clone tpl t0 T in
  o_nx c = o_nx tpl /\ o_nu c = o_nu tpl /\ o_nz c = o_nz tpl /\ o_ode c = o_ode tpl /\
  o_quad c = o_quad tpl /\ o_alg c = o_alg tpl /\ o_c_control c = o_c_control tpl /\
  o_c_integrator c = o_c_integrator tpl /\ o_c_roots c = o_c_roots tpl /\ o_c_point c = o_c_point tpl /\
  o_objective c = o_objective tpl /\ o_method c = o_method tpl /\
  o_scale_x c = o_scale_x tpl /\ o_scale_u c = o_scale_u tpl /\ o_scale_z c = o_scale_z tpl /\
  o_scale_der c = o_scale_der tpl.
Proof. cbn. repeat split. Qed.

Theorem clone_horizon tpl t0 T :
  o_t0 (clone tpl t0 T) = match t0 with Some h => h | None => o_t0 tpl end /\
  o_T (clone tpl t0 T) = match T with Some h => h | None => o_T tpl end.
Proof. split; reflexivity. Qed.

(* a stage declared directly with the template's content and the overriding horizon is the clone:
   same rows, same objective at every point *)
Theorem clone_equiv_direct tpl t0 T direct :
  direct = mkOcp (o_nx tpl) (o_nu tpl) (o_nz tpl) (o_ode tpl) (o_quad tpl) (o_alg tpl)
        (o_scale_x tpl) (o_scale_u tpl) (o_scale_z tpl) (o_scale_der tpl)
        (o_c_control tpl) (o_c_integrator tpl) (o_c_roots tpl) (o_c_point tpl) (o_objective tpl)
        t0 T (o_method tpl) ->
  forall pt : point F,
    stage_rows (clone tpl (Some t0) (Some T)) pt = stage_rows direct pt /\
    stage_objective (clone tpl (Some t0) (Some T)) pt = stage_objective direct pt.
Proof. intros -> pt. split; reflexivity. Qed.

(* cloning a clone is cloning the template: the result does not depend on siblings or on the
   order in which clones were made *)
Theorem clone_clone tpl a b c d :
  clone (clone tpl a b) c d =
  clone tpl (match c with Some h => Some h | None => a end) (match d with Some h => Some h | None => b end).
Proof. destruct c, d; reflexivity. Qed.

End StageProofs.

(* the total objective is the sum of the stage objectives and of the master's terms *)
Section ObjSum.
Context {F : Type} {OF : Ops F}.
Hypothesis Fth : field_theory o0 o1 oadd omul osub oopp odiv oinv (@eq F).
Add Field FFst : Fth.

Lemma fold_add_shift (l : list F) a : fold_left oadd l a = a +! fold_left oadd l o0.
Proof.
  revert a. induction l as [|x l IH]; intro a; cbn [fold_left].
  - ring.
  - rewrite (IH (a +! x)), (IH (o0 +! x)). ring.
Qed.

Lemma sum_list_cons (x : F) l : sum_list (x :: l) = x +! sum_list l.
Proof. unfold sum_list. cbn [fold_left]. rewrite fold_add_shift. ring. Qed.

Lemma sum_list_app (a b : list F) : sum_list (a ++ b) = sum_list a +! sum_list b.
Proof.
  induction a as [|x a IH]; cbn [app].
  - unfold sum_list at 2. cbn [fold_left]. ring.
  - rewrite !sum_list_cons, IH. ring.
Qed.

Theorem multi_objective_sum (mu : multi) (pts : list (point F)) V :
  multi_objective mu pts V =
  sum_list (map (fun sp => stage_objective (fst sp) (snd sp)) (combine (mu_stages mu) pts))
  +! sum_list (map (ceval (multi_lists mu pts) V) (mu_obj mu)).
Proof. reflexivity. Qed.

(* adding a stage adds its objective and leaves the other terms alone *)
Theorem multi_objective_cons (oc : ocp) (pt : point F) (ss : list ocp) (ps : list (point F)) V :
  multi_objective (mkMulti (oc :: ss) [] []) (pt :: ps) V =
  stage_objective oc pt +! multi_objective (mkMulti ss [] []) ps V.
Proof.
  unfold multi_objective. cbn [mu_stages mu_obj combine map fst snd].
  rewrite sum_list_cons. unfold sum_list at 2 4. cbn [fold_left]. ring.
Qed.

(* a single stage without coupling is the single-stage problem of C01-C05 *)
Theorem multi_single (oc : ocp) (pt : point F) V :
  map snd (multi_rows (mkMulti [oc] [] []) [pt] V) = stage_rows oc pt /\
  multi_objective (mkMulti [oc] [] []) [pt] V = stage_objective oc pt.
Proof.
  split.
  - unfold multi_rows. cbn [mu_stages mu_cons combine stages_rows map app].
    rewrite !app_nil_r, map_map. cbn [snd]. apply map_id.
  - unfold multi_objective. cbn [mu_stages mu_obj combine map fst snd].
    unfold sum_list. cbn [fold_left]. ring.
Qed.

End ObjSum.
