(* C03: DirectCollocation, legendre degree 1 (the implicit midpoint rule, Proofs/CollocConv.v) converges with its
   classical order 2 = 2d, for systems of any dimension (max norm dist_max):
   ANY sequences of start states Y j and helper states Yc j that satisfy the model's collocation rows and
   continuity rows (coeff_C [1/2], coeff_D [1/2] at ROps) are within C h^2 of the exact solution, for F Lipschitz
   in the state (L), |x_i''| <= K2, |x_i'''| <= K3 on [t0, t0+T] and h L <= 1/2, with
       C = (3/4 L K2 + 7/12 K3) (e^{2TL} - 1) / (2L).
   Route: the midpoint defect x(t+h) - x(t) - h x'(t+h/2) is at most 7/24 K3 h^3 (Taylor about t of x to order 3 and
   of x' to order 2), the midpoint of the chord is within 3/8 K2 h^2 of x(t+h/2), the helper state is the average
   of Y_k and Y_{k+1}; this gives the implicit recursion  e' <= (1 + q/2) e + q/2 e' + d h^3  (q = hL), solved by
   implicit_solve, and global_error_order with p = 2. *)
From Coq Require Import Reals ZArith QArith Qcanon List Field Lia Lra.
From Coquelicot Require Import Coquelicot.
From RV Require Import Base.Num Base.Vec Base.Poly Mech.Colloc
     Proofs.DerProofs Proofs.SplineDerReal Proofs.ConvReal Proofs.EulerConv Proofs.EulerConvVec Proofs.RK4Conv
     Proofs.CollocConv.
Import ListNotations.
Local Open Scope R_scope.

(* ---- defects along a C^3 function *)

(* x(a+h) - x(a) - h x'(a+h/2) = O(h^3) *)
Lemma mid_defect3 (x : R -> R) (a h K3 : R) :
  0 < h ->
  (forall t k, a <= t <= a + h -> (k <= 3)%nat -> ex_derive_n x k t) ->
  (forall t, a <= t <= a + h -> Rabs (Derive_n x 3 t) <= K3) ->
  Rabs (x (a + h) - x a - h * Derive x (a + h / 2)) <= 7 / 24 * K3 * h ^ 3.
Proof.
  intros Hh Hex HK.
  pose proof (taylor3 x a h K3 Hh Hex HK) as T3.
  (* Taylor of x' about a with step h/2: second derivative of x' is x''' *)
  assert (T2 : Rabs (Derive x (a + h / 2) - Derive x a - h / 2 * Derive (Derive x) a) <= K3 / 2 * (h / 2) ^ 2).
  { apply (taylor2 (Derive x) a (h / 2) K3); [lra| | |].
    - intros t Ht. exact (Hex t 2%nat ltac:(lra) ltac:(lia)).
    - intros t Ht. exact (Hex t 3%nat ltac:(lra) ltac:(lia)).
    - intros t Ht. apply (HK t). lra. }
  change (Derive (Derive x) a) with (Derive_n x 2 a) in T2.
  set (D1 := Derive x a) in *. set (D2 := Derive_n x 2 a) in *. set (Dm := Derive x (a + h / 2)) in *.
  replace (x (a + h) - x a - h * Dm)
    with ((x (a + h) - x a - h * D1 - h ^ 2 / 2 * D2) - h * (Dm - D1 - h / 2 * D2)) by field.
  eapply Rle_trans; [apply Rabs_triang|]. rewrite Rabs_Ropp, Rabs_mult, (Rabs_pos_eq h) by lra.
  assert (h * Rabs (Dm - D1 - h / 2 * D2) <= h * (K3 / 2 * (h / 2) ^ 2)) by (apply Rmult_le_compat_l; lra).
  replace (7 / 24 * K3 * h ^ 3) with (K3 / 6 * h ^ 3 + h * (K3 / 2 * (h / 2) ^ 2)) by field.
  lra.
Qed.

(* the midpoint of the chord is O(h^2) away from the curve *)
Lemma chord_midpoint (x : R -> R) (a h K2 : R) :
  0 < h ->
  (forall t, a <= t <= a + h -> ex_derive x t) ->
  (forall t, a <= t <= a + h -> ex_derive_n x 2 t) ->
  (forall t, a <= t <= a + h -> Rabs (Derive_n x 2 t) <= K2) ->
  Rabs ((x a + x (a + h)) / 2 - x (a + h / 2)) <= 3 / 8 * K2 * h ^ 2.
Proof.
  intros Hh H1 H2 HK.
  pose proof (taylor2 x a h K2 Hh H1 H2 HK) as Tf.
  assert (Th : Rabs (x (a + h / 2) - x a - h / 2 * Derive x a) <= K2 / 2 * (h / 2) ^ 2).
  { apply (taylor2 x a (h / 2) K2); [lra| | |]; intros t Ht; [apply H1|apply H2|apply HK]; lra. }
  set (D1 := Derive x a) in *.
  replace ((x a + x (a + h)) / 2 - x (a + h / 2))
    with ((x (a + h) - x a - h * D1) / 2 - (x (a + h / 2) - x a - h / 2 * D1)) by field.
  eapply Rle_trans; [apply Rabs_triang|]. rewrite Rabs_Ropp.
  unfold Rdiv at 1. rewrite Rabs_mult, (Rabs_pos_eq (/ 2)) by lra.
  replace (3 / 8 * K2 * h ^ 2) with (K2 / 2 * h ^ 2 * / 2 + K2 / 2 * (h / 2) ^ 2) by field.
  lra.
Qed.

(* ---- implicit midpoint: any solution of the step equations converges with order two, max norm *)
Lemma impl_midpoint_error_order2 (F : list R -> R -> list R) (n : nat) (x : nat -> R -> R)
      (t0 T L K2 K3 : R) (M : nat) (Y Yc : nat -> list R) :
  0 < T -> 0 < L -> 0 <= K2 -> 0 <= K3 -> (0 < M)%nat ->
  let h := T / INR M in
  h * L <= 1 / 2 ->
  (forall j, (j <= M)%nat -> length (Y j) = n) ->
  (forall j, (j < M)%nat -> length (Yc j) = n) ->
  (forall i, (i < n)%nat -> nth i (Y 0%nat) 0 = x i t0) ->
  (forall j i, (j < M)%nat -> (i < n)%nat ->
     nth i (Yc j) 0 = nth i (Y j) 0 + h / 2 * nth i (F (Yc j) (t0 + INR j * h + h / 2)) 0) ->
  (forall j i, (j < M)%nat -> (i < n)%nat -> nth i (Y (S j)) 0 = 2 * nth i (Yc j) 0 - nth i (Y j) 0) ->
  (forall i t, (i < n)%nat -> t0 <= t <= t0 + T -> is_derive (x i) t (nth i (F (xvec n x t) t) 0)) ->
  (forall i t k, (i < n)%nat -> t0 <= t <= t0 + T -> (k <= 3)%nat -> ex_derive_n (x i) k t) ->
  (forall i t, (i < n)%nat -> t0 <= t <= t0 + T -> Rabs (Derive_n (x i) 2 t) <= K2) ->
  (forall i t, (i < n)%nat -> t0 <= t <= t0 + T -> Rabs (Derive_n (x i) 3 t) <= K3) ->
  (forall i t X Y', (i < n)%nat -> t0 <= t <= t0 + T -> length X = n -> length Y' = n ->
     Rabs (nth i (F X t) 0 - nth i (F Y' t) 0) <= L * dist_max n X Y') ->
  forall j, (j <= M)%nat ->
    dist_max n (Y j) (xvec n x (t0 + INR j * h))
    <= ((3 / 4 * L * K2 + 7 / 12 * K3) * ((exp (T * (2 * L)) - 1) / (2 * L))) * h ^ 2.
Proof.
  intros HT HL HK20 HK30 HM h HhL HlenY HlenYc HY0 Hc Hn Hsol Hex HK2 HK3 Hlip j Hj.
  assert (HMr : 0 < INR M) by (apply lt_0_INR; exact HM).
  assert (Hh : 0 < h) by (apply Rdiv_lt_0_compat; assumption).
  set (q := h * L) in *.
  assert (Hq0 : 0 <= q) by (apply Rmult_le_pos; lra).
  set (C := 3 / 4 * L * K2 + 7 / 12 * K3).
  assert (HC0 : 0 <= C).
  { unfold C. assert (0 <= L * K2) by (apply Rmult_le_pos; lra). lra. }
  set (e := fun k : nat => if (k <=? M)%nat then dist_max n (Y k) (xvec n x (t0 + INR k * h)) else 0).
  assert (He0 : forall k, 0 <= e k).
  { intro k. unfold e. destruct (k <=? M)%nat; [apply dist_max_nonneg|lra]. }
  assert (Hej : e j = dist_max n (Y j) (xvec n x (t0 + INR j * h))).
  { unfold e. apply Nat.leb_le in Hj. rewrite Hj. reflexivity. }
  rewrite <- Hej.
  apply (global_error_order e h (2 * L) C T 2 j Hh); [lra|exact HC0| | |].
  - unfold e. cbn [Nat.leb INR]. rewrite Rmult_0_l, Rplus_0_r.
    apply Rle_antisym; [|apply dist_max_nonneg].
    apply dist_max_le; [lra|]. intros i Hi. rewrite nth_xvec, HY0 by exact Hi.
    replace (x i t0 - x i t0) with 0 by ring. rewrite Rabs_R0. lra.
  - apply (grid_le T M j HT HM Hj).
  - intro k.
    assert (Hh3 : 0 <= h ^ 3) by (apply pow_le; lra).
    assert (Hpos : 0 <= (1 + h * (2 * L)) * e k + C * h ^ 3).
    { specialize (He0 k).
      assert (0 <= h * (2 * L)) by (apply Rmult_le_pos; lra).
      assert (0 <= (1 + h * (2 * L)) * e k) by (apply Rmult_le_pos; lra).
      assert (0 <= C * h ^ 3) by (apply Rmult_le_pos; assumption). lra. }
    unfold e at 1. destruct (S k <=? M)%nat eqn:Hk; [|exact Hpos].
    apply Nat.leb_le in Hk.
    assert (Hk' : (k <=? M)%nat = true) by (apply Nat.leb_le; lia).
    assert (Eek : e k = dist_max n (Y k) (xvec n x (t0 + INR k * h))) by (unfold e; rewrite Hk'; reflexivity).
    rewrite Eek. rewrite Eek in Hpos.
    set (tk := t0 + INR k * h).
    pose proof (grid_le T M k HT HM ltac:(lia)) as Gk. fold h in Gk.
    pose proof (grid_le T M (S k) HT HM Hk) as Gk1. fold h in Gk1.
    rewrite S_INR in Gk1.
    replace (t0 + INR (S k) * h) with (tk + h) by (rewrite S_INR; unfold tk; ring).
    assert (Itk : t0 <= tk <= t0 + T) by (unfold tk; lra).
    assert (Itm : t0 <= tk + h / 2 <= t0 + T) by (unfold tk; lra).
    assert (Isub : forall t, tk <= t <= tk + h -> t0 <= t <= t0 + T).
    { intros t Ht. unfold tk in *. lra. }
    set (tm := tk + h / 2) in *.
    set (ek := dist_max n (Y k) (xvec n x tk)) in *.
    set (e' := dist_max n (Y (S k)) (xvec n x (tk + h))).
    assert (Hek : 0 <= ek) by apply dist_max_nonneg.
    assert (He' : 0 <= e') by apply dist_max_nonneg.
    assert (Hh2 : 0 <= h ^ 2) by apply pow2_ge_0.
    set (mu := 3 / 8 * K2 * h ^ 2).
    assert (Hmu : 0 <= mu) by (unfold mu; apply Rmult_le_pos; [lra|exact Hh2]).
    (* the helper state is the average of the two node states: its error *)
    assert (Hem : dist_max n (Yc k) (xvec n x tm) <= ek / 2 + e' / 2 + mu).
    { apply dist_max_le; [lra|]. intros s Hs. rewrite nth_xvec by exact Hs.
      assert (Eavg : nth s (Yc k) 0 = (nth s (Y k) 0 + nth s (Y (S k)) 0) / 2).
      { rewrite (Hn k s ltac:(lia) Hs). field. }
      rewrite Eavg.
      pose proof (dist_max_ge n (Y k) (xvec n x tk) s Hs) as D1. rewrite nth_xvec in D1 by exact Hs. fold ek in D1.
      pose proof (dist_max_ge n (Y (S k)) (xvec n x (tk + h)) s Hs) as D2.
      rewrite nth_xvec in D2 by exact Hs. fold e' in D2.
      pose proof (chord_midpoint (x s) tk h K2 Hh
        (fun t Ht => ex_intro _ _ (Hsol s t Hs (Isub t Ht)))
        (fun t Ht => Hex s t 2%nat Hs (Isub t Ht) ltac:(lia))
        (fun t Ht => HK2 s t Hs (Isub t Ht))) as CM. fold tm mu in CM.
      replace ((nth s (Y k) 0 + nth s (Y (S k)) 0) / 2 - x s tm)
        with ((nth s (Y k) 0 - x s tk) / 2 + (nth s (Y (S k)) 0 - x s (tk + h)) / 2
              + ((x s tk + x s (tk + h)) / 2 - x s tm)) by field.
      eapply Rle_trans; [apply Rabs_triang|].
      eapply Rle_trans; [apply Rplus_le_compat_r; apply Rabs_triang|].
      unfold Rdiv at 1 2. rewrite !Rabs_mult, (Rabs_pos_eq (/ 2)) by lra. lra. }
    set (dl := q * mu + 7 / 24 * K3 * h ^ 3).
    assert (Hdl : 0 <= dl).
    { unfold dl. assert (0 <= q * mu) by (apply Rmult_le_pos; assumption).
      assert (0 <= 7 / 24 * K3 * h ^ 3) by (apply Rmult_le_pos; [lra|exact Hh3]). lra. }
    (* the implicit recursion *)
    assert (Himp : e' <= (1 + q / 2) * ek + q / 2 * e' + dl).
    { apply dist_max_le.
      { assert (0 <= (1 + q / 2) * ek) by (apply Rmult_le_pos; lra).
        assert (0 <= q / 2 * e') by (apply Rmult_le_pos; lra). lra. }
      intros i Hi.
      rewrite (Hn k i ltac:(lia) Hi), (Hc k i ltac:(lia) Hi). fold tk tm. rewrite !nth_xvec by exact Hi.
      set (Fy := nth i (F (Yc k) tm) 0).
      set (Fx := nth i (F (xvec n x tm) tm) 0).
      pose proof (mid_defect3 (x i) tk h K3 Hh
        (fun t m Ht Hm => Hex i t m Hi (Isub t Ht) Hm)
        (fun t Ht => HK3 i t Hi (Isub t Ht))) as R.
      fold tm in R. rewrite (is_derive_unique _ _ _ (Hsol i tm Hi Itm)) in R. fold Fx in R.
      pose proof (Hlip i tm (Yc k) (xvec n x tm) Hi Itm (HlenYc k Hk) (length_xvec n x tm)) as Lp.
      fold Fy Fx in Lp.
      pose proof (dist_max_ge n (Y k) (xvec n x tk) i Hi) as Dg.
      rewrite nth_xvec in Dg by exact Hi. fold ek in Dg.
      replace (2 * (nth i (Y k) 0 + h / 2 * Fy) - nth i (Y k) 0 - x i (tk + h))
        with ((nth i (Y k) 0 - x i tk) + h * (Fy - Fx) - (x i (tk + h) - x i tk - h * Fx)) by field.
      eapply Rle_trans; [apply Rabs_triang|]. rewrite Rabs_Ropp.
      eapply Rle_trans; [apply Rplus_le_compat_r; apply Rabs_triang|].
      rewrite Rabs_mult, (Rabs_pos_eq h) by lra.
      assert (A0 : L * dist_max n (Yc k) (xvec n x tm) <= L * (ek / 2 + e' / 2 + mu))
        by (apply Rmult_le_compat_l; lra).
      assert (A1 : h * Rabs (Fy - Fx) <= h * (L * (ek / 2 + e' / 2 + mu)))
        by (apply Rmult_le_compat_l; lra).
      replace (h * (L * (ek / 2 + e' / 2 + mu))) with (q / 2 * ek + q / 2 * e' + q * mu) in A1
        by (unfold q; field).
      unfold dl. lra. }
    assert (Hee : 0 <= (1 + q / 2) * ek) by (apply Rmult_le_pos; lra).
    pose proof (implicit_solve e' ((1 + q / 2) * ek) dl (q / 2) ltac:(lra) Hee Hdl Himp) as Sol.
    (* (1 + q)(1 + q/2) <= 1 + 2q for q <= 1/2, and 2 dl <= C h^3 *)
    assert (B1 : (1 + 2 * (q / 2)) * ((1 + q / 2) * ek) <= (1 + h * (2 * L)) * ek).
    { replace ((1 + 2 * (q / 2)) * ((1 + q / 2) * ek)) with ((1 + 3 / 2 * q + q * q / 2) * ek) by field.
      replace (1 + h * (2 * L)) with (1 + 2 * q) by (unfold q; ring).
      apply Rmult_le_compat_r; [exact Hek|]. nra. }
    assert (B2 : 2 * dl <= C * h ^ 3).
    { unfold dl, mu, C, q.
      replace (2 * (h * L * (3 / 8 * K2 * h ^ 2) + 7 / 24 * K3 * h ^ 3))
        with ((3 / 4 * L * K2 + 7 / 12 * K3) * h ^ 3) by field.
      apply Rle_refl. }
    lra.
Qed.

(* ---- DirectCollocation, legendre degree 1, as modelled: order 2 *)
Theorem dc_legendre1_converges_order2 (F : list R -> R -> list R) (n : nat) (x : nat -> R -> R)
        (t0 T L K2 K3 : R) (M : nat) (Y Yc : nat -> list R) :
  0 < T -> 0 < L -> 0 <= K2 -> 0 <= K3 -> (0 < M)%nat ->
  let h := T / INR M in
  h * L <= 1 / 2 ->
  (forall j, (j <= M)%nat -> length (Y j) = n) ->
  (forall j, (j < M)%nat -> length (Yc j) = n) ->
  Y 0%nat = xvec n x t0 ->
  (* collocation row of step j, root time = step start + h * tau_0, tau = [1/2] *)
  (forall j, (j < M)%nat ->
     @vdivs R ROps (@wsum R ROps (@col R ROps (@coeff_C R ROps [1 / 2]) 0) [Y j; Yc j]) h
     = F (Yc j) (t0 + INR j * h + h * (1 / 2))) ->
  (* continuity row of step j *)
  (forall j, (j < M)%nat -> @wsum R ROps (@coeff_D R ROps [1 / 2]) [Y j; Yc j] = Y (S j)) ->
  (forall i t, (i < n)%nat -> t0 <= t <= t0 + T -> is_derive (x i) t (nth i (F (xvec n x t) t) 0)) ->
  (forall i t k, (i < n)%nat -> t0 <= t <= t0 + T -> (k <= 3)%nat -> ex_derive_n (x i) k t) ->
  (forall i t, (i < n)%nat -> t0 <= t <= t0 + T -> Rabs (Derive_n (x i) 2 t) <= K2) ->
  (forall i t, (i < n)%nat -> t0 <= t <= t0 + T -> Rabs (Derive_n (x i) 3 t) <= K3) ->
  (forall i t X Y', (i < n)%nat -> t0 <= t <= t0 + T -> length X = n -> length Y' = n ->
     Rabs (nth i (F X t) 0 - nth i (F Y' t) 0) <= L * dist_max n X Y') ->
  forall j i, (j <= M)%nat -> (i < n)%nat ->
    Rabs (nth i (Y j) 0 - x i (t0 + INR j * h))
    <= ((3 / 4 * L * K2 + 7 / 12 * K3) * ((exp (T * (2 * L)) - 1) / (2 * L))) * h ^ 2.
Proof.
  intros HT HL HK20 HK30 HM h HhL HlenY HlenYc HY0 Hcol Hcont Hsol Hex HK2 HK3 Hlip j i Hj Hi.
  assert (HMr : 0 < INR M) by (apply lt_0_INR; exact HM).
  assert (Hh : 0 < h) by (apply Rdiv_lt_0_compat; assumption).
  pose proof (impl_midpoint_error_order2 F n x t0 T L K2 K3 M Y Yc HT HL HK20 HK30 HM) as E.
  cbv zeta in E. fold h in E.
  rewrite <- (nth_xvec n x (t0 + INR j * h) i Hi).
  eapply Rle_trans; [apply (dist_max_ge n _ _ i Hi)|].
  apply E; auto.
  - intros s Hs. rewrite HY0. apply nth_xvec. exact Hs.
  - intros k s Hk Hs.
    pose proof (@colloc_lhs_legendre1 R ROps R_field_laws h (Y k) (Yc k) s o2_R_nz (Rgt_not_eq h 0 Hh)) as C.
    change (@odiv R ROps (@o1 R ROps) (@o2 R ROps)) with (1 / 2) in C.
    rewrite (Hcol k Hk) in C. unfold vnth, o2 in C. cbn [o0 o1 ROps osub odiv omul oadd] in C.
    replace (t0 + INR k * h + h * (1 / 2)) with (t0 + INR k * h + h / 2) in C by field.
    rewrite C. field. lra.
  - intros k s Hk Hs. rewrite <- (Hcont k Hk).
    pose proof (@cont_lhs_legendre1 R ROps R_field_laws (Y k) (Yc k) s o2_R_nz) as C.
    change (@odiv R ROps (@o1 R ROps) (@o2 R ROps)) with (1 / 2) in C.
    unfold vnth, o2 in C. cbn [o0 o1 ROps osub odiv omul oadd] in C. rewrite C. ring.
Qed.

(* ---- non-vacuity: x' = -x with the implicit midpoint rule, y_c = y_j / (1 + h/2), y_{j+1} = y_j (1-h/2)/(1+h/2)
   (the sequences of dc_legendre1_decay, whose rows are proved there to hold): all hypotheses are satisfied with
   L = 1, K2 = K3 = e^{-t0}, and the error is O(h^2) *)
Example dc_legendre1_decay_order2 (t0 T : R) (M : nat) :
  0 < T -> (0 < M)%nat ->
  let h := T / INR M in
  h * 1 <= 1 / 2 ->
  let y := fun j : nat => exp (- t0) * ((1 - h / 2) / (1 + h / 2)) ^ j in
  forall j, (j <= M)%nat ->
    Rabs (y j - exp (- (t0 + INR j * h)))
    <= ((3 / 4 * 1 * exp (- t0) + 7 / 12 * exp (- t0)) * ((exp (T * (2 * 1)) - 1) / (2 * 1))) * h ^ 2.
Proof.
  intros HT HM h HhL y j Hj.
  destruct (dc_legendre1_decay t0 T M HT HM HhL) as [Hcol [Hcont _]].
  set (F := fun (X : list R) (_ : R) => [- nth 0 X 0]) in *.
  set (Y := fun j : nat => [y j]).
  set (Yc := fun j : nat => [y j / (1 + h / 2)]).
  assert (Hexp : forall k t, t0 <= t <= t0 + T -> Rabs (Derive_n (fun s => exp (- s)) k t) <= exp (- t0)).
  { intros k t Ht. rewrite Derive_n_exp_opp, Rabs_mult.
    assert (E1 : Rabs ((-1) ^ k) = 1).
    { rewrite <- RPow_abs.
      replace (Rabs (-1)) with 1 by (unfold Rabs; destruct (Rcase_abs (-1)); lra). apply pow1. }
    rewrite E1, Rmult_1_l, Rabs_pos_eq by (left; apply exp_pos).
    destruct Ht as [[Ht|Ht] _]; [left; apply exp_increasing; lra|rewrite Ht; apply Rle_refl]. }
  pose proof (dc_legendre1_converges_order2 F 1 (fun _ s => exp (- s)) t0 T 1 (exp (- t0)) (exp (- t0)) M Y Yc
                HT Rlt_0_1 (Rlt_le _ _ (exp_pos _)) (Rlt_le _ _ (exp_pos _)) HM) as E.
  cbv zeta in E. fold h in E.
  apply (E HhL) with (j := j) (i := 0%nat); try lia; clear E.
  - intros k _. reflexivity.
  - intros k _. reflexivity.
  - unfold Y, y, xvec. cbn [seq map pow]. f_equal. ring.
  - intros k _. apply Hcol.
  - intros k _. apply Hcont.
  - intros i t Hi _. assert (i = 0%nat) by lia. subst i. unfold F, xvec. cbn [seq map nth].
    auto_derive; [exact I|]. ring.
  - intros i t k _ _ _. apply ex_derive_n_exp_opp.
  - intros i t _ Ht. apply Hexp. exact Ht.
  - intros i t _ Ht. apply Hexp. exact Ht.
  - intros i t X Y' Hi _ _ _. assert (i = 0%nat) by lia. subst i. unfold F. cbn [nth].
    replace (- nth 0 X 0 - - nth 0 Y' 0) with (- (nth 0 X 0 - nth 0 Y' 0)) by ring.
    rewrite Rabs_Ropp, Rmult_1_l. apply (dist_max_ge 1 X Y' 0). lia.
Qed.

Print Assumptions mid_defect3.
Print Assumptions chord_midpoint.
Print Assumptions impl_midpoint_error_order2.
Print Assumptions dc_legendre1_converges_order2.
Print Assumptions dc_legendre1_decay_order2.
