(* C10: the guess map — last call wins, zero by default, constants everywhere, arrays column-wise,
   expressions of time at the times of the guessed grid. *)
From Coq Require Import ZArith QArith List Lia Bool.
From RV Require Import Base.Num Base.PyList Base.Vec Expr Ocp Rows Mech.Grid Mech.Initial Proofs.ListLemmas.
Import ListNotations.
Local Open Scope nat_scope.

Section InitProofs.
Context {F : Type} {OF : Ops F}.

Lemma last_call_app calls1 calls2 kd s acc :
  last_call (calls1 ++ calls2) kd s acc = last_call calls2 kd s (last_call calls1 kd s acc).
Proof. revert acc. induction calls1 as [|c cs IH]; intro acc; [reflexivity|]. cbn. apply IH. Qed.

(* a later call for a symbol replaces every earlier one on the slots it covers ... *)
Theorem last_call_wins calls c kd s :
  covers c kd s = true -> last_call (calls ++ [c]) kd s None = Some c.
Proof. intro H. rewrite last_call_app. cbn. rewrite H. reflexivity. Qed.

(* ... and leaves every other slot alone *)
Theorem other_slots_untouched calls c kd s :
  covers c kd s = false -> last_call (calls ++ [c]) kd s None = last_call calls kd s None.
Proof. intro H. rewrite last_call_app. cbn. rewrite H. reflexivity. Qed.

Theorem start_after_call calls c kd s k (t : F) :
  covers c kd s = true ->
  start_of (calls ++ [c]) kd s k t = guess_value c (s - gc_slot c) k t.
Proof. intro H. unfold start_of. rewrite (last_call_wins calls c kd s H). reflexivity. Qed.

Theorem start_other_symbol calls c kd s k (t : F) :
  covers c kd s = false -> start_of (calls ++ [c]) kd s k t = start_of calls kd s k t.
Proof. intro H. unfold start_of. rewrite (other_slots_untouched calls c kd s H). reflexivity. Qed.

(* nothing given: zero *)
Lemma last_call_none calls kd s :
  (forall c, In c calls -> covers c kd s = false) -> last_call calls kd s None = None.
Proof.
  induction calls as [|c cs IH] using rev_ind; intro H; [reflexivity|].
  rewrite other_slots_untouched by (apply H; apply in_or_app; right; left; reflexivity).
  apply IH. intros c' Hc'. apply H. apply in_or_app. left. exact Hc'.
Qed.

Theorem start_default_zero calls kd s k (t : F) :
  (forall c, In c calls -> covers c kd s = false) -> start_of calls kd s k t = o0.
Proof. intro H. unfold start_of. rewrite (last_call_none calls kd s H). reflexivity. Qed.

(* the three guess forms *)
Theorem guess_const c vals j k (t : F) :
  gc_form c = GFconst vals -> guess_value c j k t = of_Q (nth j vals 0%Q).
Proof. intro H. unfold guess_value. rewrite H. reflexivity. Qed.

Theorem guess_cols c cols j k (t : F) :
  gc_form c = GFcols cols -> k < length cols ->
  guess_value c j k t = of_Q (nth j (nth k cols []) 0%Q).
Proof.
  intros H Hk. unfold guess_value. rewrite H. replace (Nat.min k (length cols - 1)) with k by lia. reflexivity.
Qed.

(* an n-by-N array for a quantity with N+1 nodes: the final node takes the last column *)
Theorem guess_cols_final c cols j k (t : F) :
  gc_form c = GFcols cols -> length cols <= k -> 0 < length cols ->
  guess_value c j k t = of_Q (nth j (nth (length cols - 1) cols []) 0%Q).
Proof.
  intros H Hk Hl. unfold guess_value. rewrite H.
  replace (Nat.min k (length cols - 1)) with (length cols - 1) by lia. reflexivity.
Qed.

Theorem guess_time c es j k (t : F) :
  gc_form c = GFtime es -> guess_value c j k t = eval0 (time_env t) (nth j es (EC 0)).
Proof. intro H. unfold guess_value. rewrite H. reflexivity. Qed.

(* node states and controls of the start point: slot s of node / interval k is the guess at the
   k-th time of the grid built from the guessed t0 and T *)
Theorem start_values_nodes (oc : ocp) nv nvc nvp calls pvals k s :
  m_kind (o_method oc) <> SS -> k <= m_N (o_method oc) -> s < o_nx oc ->
  let sp := @start_values F OF oc nv nvc nvp calls pvals in
  let cg := time_grid (go_spec (m_grid (o_method oc))) (s_t0 sp) (s_T sp) (m_N (o_method oc)) in
  nth s (nth k (s_X sp) []) o0 = start_of calls GX s k (nth k cg o0).
Proof.
  intros Hk HkN Hs. cbn zeta. unfold start_values. cbn [s_X s_T s_t0].
  assert (EN : (match m_kind (o_method oc) with SS => 1 | _ => S (m_N (o_method oc)) end) = S (m_N (o_method oc))).
  { destruct (m_kind (o_method oc)); try reflexivity. congruence. }
  rewrite EN.
  rewrite (nth_map_seq _ (S (m_N (o_method oc))) 0 k []) by lia. cbn [plus].
  unfold slots. rewrite (nth_map_seq _ (o_nx oc) 0 s o0) by exact Hs. reflexivity.
Qed.

End InitProofs.
