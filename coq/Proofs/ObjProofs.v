(* C05: placeholder resolution.  at_t0 / at_tf evaluate at the first / last node, sum adds the
   node values of the N intervals (plus the final node with include_last), integral(grid='control')
   is the interval-length weighted left sum, integral reads the accumulated quadrature of the
   stage's own integration rule, and the objective is the sum of its terms. *)
From Coq Require Import ZArith QArith List Field Lia Bool.
From RV Require Import Base.Num Base.PyList Base.Vec Expr Ocp Rows Mech.Grid Mech.Intg Mech.Sampling
     Mech.Shooting Spec.SpecDyn Spec.SpecPlace
     Proofs.NumLemmas Proofs.VecLemmas Proofs.ListLemmas Proofs.PyLemmas Proofs.GridLemmas
     Proofs.DynProofs Proofs.PlaceProofs Proofs.ShootProofs.
Import ListNotations.
Local Open Scope nat_scope.

Section ObjProofs.
Context {F : Type} {OF : Ops F}.
Hypothesis Fth : field_theory o0 o1 oadd omul osub oopp odiv oinv (@eq F).
Hypothesis Ch0 : @Char0 F OF.
Add Field FFo : Fth.

Lemma fold_left_add_map {A} (g : A -> F) (l : list A) (a : F) :
  fold_left (fun r k => r +! g k) l a = fold_left oadd (map g l) a.
Proof. revert a. induction l as [|x l IH]; intro a; [reflexivity|]. cbn. apply IH. Qed.

Lemma fold_left_oadd_shift (l : list F) (a b : F) :
  fold_left oadd l (a +! b) = a +! fold_left oadd l b.
Proof.
  revert b. induction l as [|x l IH]; intro b; [reflexivity|]. cbn [fold_left].
  replace (a +! b +! x) with (a +! (b +! x)) by ring. apply IH.
Qed.

Lemma osum_app (l1 l2 : list F) : osum (l1 ++ l2) = osum l1 +! osum l2.
Proof.
  unfold osum. rewrite fold_left_app.
  replace (fold_left oadd l1 o0) with (fold_left oadd l1 o0 +! o0) at 1 by ring.
  apply fold_left_oadd_shift.
Qed.

Lemma osum_cons (x : F) (l : list F) : osum (x :: l) = x +! osum l.
Proof. change (x :: l) with ([x] ++ l). rewrite osum_app. unfold osum at 1. cbn. ring. Qed.

(* ---- the objective is the sum of its declared terms *)
Theorem objective_is_sum (L : mlists F) (terms : list pexpr) :
  objective L terms = osum (map (peval L) terms).
Proof. unfold objective, osum. apply fold_left_add_map. Qed.

Theorem objective_app (L : mlists F) (t1 t2 : list pexpr) :
  objective L (t1 ++ t2) = objective L t1 +! objective L t2.
Proof. rewrite !objective_is_sum, map_app. apply osum_app. Qed.

Section Resolved.
Variable L : mlists F.
Hypothesis W : wf_lists L.
Notation N := (L_N L).

Lemma at_control_node k e : k < N -> offsets e = [] ->
  eval_at_control L (Z.of_nat k) e = Some (spec_eval_node L k e).
Proof.
  intros Hk He. unfold eval_at_control, placeable, placeable_offs. rewrite He. cbn [forallb].
  f_equal. apply (eval_control_node Fth Ch0 L W k e []); [exact Hk| |reflexivity].
  rewrite He. apply incl_refl.
Qed.

Lemma at_control_final e : offsets e = [] ->
  eval_at_control L (-1) e = Some (spec_eval_node L N e).
Proof.
  intros He. unfold eval_at_control, placeable, placeable_offs. rewrite He. cbn [forallb].
  f_equal. apply (eval_control_final Fth Ch0 L W e []); [|reflexivity].
  rewrite He. apply incl_refl.
Qed.

Theorem peval_at_t0 e : offsets e = [] -> peval L (PAt0 e) = spec_eval_node L 0 e.
Proof.
  intro He. cbn [peval]. change 0%Z with (Z.of_nat 0).
  rewrite (at_control_node 0 e); [reflexivity| |exact He]. destruct W. lia.
Qed.

Theorem peval_at_tf e : offsets e = [] -> peval L (PAtf e) = spec_eval_node L N e.
Proof. intro He. cbn [peval]. rewrite (at_control_final e He). reflexivity. Qed.

Lemma map_ext_seq {B} (f g : nat -> B) n :
  (forall k, k < n -> f k = g k) -> map f (seq 0 n) = map g (seq 0 n).
Proof. intro H. apply map_ext_in. intros k Hk. apply in_seq in Hk. apply H. lia. Qed.

Theorem peval_sum e : offsets e = [] ->
  peval L (PSum e) = osum (map (fun k => spec_eval_node L k e) (seq 0 N)).
Proof.
  intro He. cbn [peval]. rewrite fold_left_add_map. unfold osum. f_equal.
  apply map_ext_seq. intros k Hk. rewrite (at_control_node k e Hk He). reflexivity.
Qed.

Theorem peval_sum_plus e : offsets e = [] ->
  peval L (PSumP e) = osum (map (fun k => spec_eval_node L k e) (seq 0 (S N))).
Proof.
  intro He. cbn [peval]. rewrite fold_left_add_map. unfold osum. f_equal.
  rewrite seq_S, !map_app, map_map. cbn [map plus]. f_equal.
  - apply map_ext_seq. intros k Hk. rewrite (at_control_node k e Hk He). reflexivity.
  - rewrite (at_control_final e He). reflexivity.
Qed.

Theorem peval_integral_control e : offsets e = [] ->
  peval L (PIntC e) =
  osum (map (fun k => (nth (S k) (L_cg L) o0 -! nth k (L_cg L) o0) *! spec_eval_node L k e) (seq 0 N)).
Proof.
  intro He. cbn [peval]. rewrite fold_left_add_map. unfold osum. f_equal.
  apply map_ext_seq. intros k Hk. rewrite (at_control_node k e Hk He). reflexivity.
Qed.

(* ocp.integral(e): slot i of the quadrature accumulated up to the final node *)
Theorem peval_integral i : peval L (PInt i) = nth i (nth N (L_Q L) []) o0.
Proof.
  cbn [peval]. destruct W. rewrite (colget_last (L_Q L)) by lia.
  rewrite wf_Q. replace (S N - 1) with N by lia. reflexivity.
Qed.

End Resolved.

(* ---- the quadrature accumulated by the shooting methods: Q[0] = 0 and
   Q[k+1] = Q[k] + (quadrature output of the M-step scheme on interval k) *)
Section Quad.
Variable oc : ocp.
Variable pt : point F.
Variable single : bool.
Notation N := (m_N (o_method oc)).
Let cg := grid_of oc pt.
Let dflt := @ds_init F OF [] o0 0.

Lemma shoot_Q_inv :
  let a := shoot oc pt cg single in
  length (a_Q a) = S N /\ length (a_FF a) = N /\
  nth 0 (a_Q a) [] = vzero (length (o_quad oc)) /\
  forall k, k < N -> nth (S k) (a_Q a) [] = vadd (nth k (a_Q a) []) (ds_quad (nth k (a_FF a) dflt)).
Proof.
  unfold shoot.
  set (P := fun n (a : shoot_acc F) => length (a_Q a) = S n /\ length (a_FF a) = n /\
                nth 0 (a_Q a) [] = vzero (length (o_quad oc)) /\
                a_q a = nth n (a_Q a) [] /\
                forall k, k < n -> nth (S k) (a_Q a) [] = vadd (nth k (a_Q a) []) (ds_quad (nth k (a_FF a) dflt))).
  cbv zeta.
  match goal with |- context [fold_left ?f ?l ?i] => set (res := fold_left f l i); assert (H : P N res) end.
  { unfold res. apply (fold_left_seq_inv (shoot_step oc pt cg single) P).
    - unfold P. cbn. repeat split. intros k Hk. lia.
    - intros k a Hk (Hl & Hf & H0 & Hq & Hn). unfold P, shoot_step. cbn [a_Q a_FF a_q].
      repeat split.
      + rewrite app_length, Hl. cbn. lia.
      + rewrite app_length, Hf. cbn. lia.
      + rewrite app_nth1 by lia. exact H0.
      + match goal with |- context [nth (S k) (a_Q a ++ [?qq]) []] =>
          pose proof (nth_app_last (a_Q a) qq []) as E2; rewrite Hl in E2; rewrite E2 end.
        reflexivity.
      + intros j Hj. destruct (Nat.eq_dec j k) as [->|Hne].
        * match goal with |- context [nth k (a_FF a ++ [?ff]) dflt] =>
            pose proof (nth_app_last (a_FF a) ff dflt) as E; rewrite Hf in E; rewrite E end.
          match goal with |- context [nth (S k) (a_Q a ++ [?qq]) []] =>
            pose proof (nth_app_last (a_Q a) qq []) as E2; rewrite Hl in E2; rewrite E2 end.
          rewrite app_nth1 by lia. rewrite Hq. reflexivity.
        * rewrite !app_nth1 by lia. apply Hn. lia. }
  destruct H as (Hl & Hf & H0 & _ & Hn). repeat split; assumption.
Qed.

End Quad.

(* MultipleShooting: the node quadratures are the accumulated quadrature outputs of the M-step
   scheme, interval by interval, started from each node state *)
Theorem ms_quadrature (oc : ocp) (pt : point F) :
  let L := lists_of oc pt false in
  let N := m_N (o_method oc) in
  let M := m_M (o_method oc) in
  let cg := grid_of oc pt in
  let nq := length (o_quad oc) in
  nth 0 (L_Q L) [] = vzero nq /\
  forall k, k < N ->
    let len := nth (S k) cg o0 -! nth k cg o0 in
    let h := len /! of_nat M in
    let Phi := fun t x => r_xf (step_of oc pt k x t h len) in
    let Psi := fun t x => r_qf (step_of oc pt k x t h len) in
    nth (S k) (L_Q L) [] =
    vadd (nth k (L_Q L) []) (iter_quad Phi Psi (nth k cg o0) h M (nth k (p_X pt) []) (vzero nq)).
Proof.
  cbv zeta. unfold lists_of. cbn [L_Q].
  destruct (shoot_Q_inv oc pt false) as (_ & _ & H0 & Hn).
  destruct (shoot_ms_inv oc pt) as (_ & HFF).
  split; [exact H0|].
  intros k Hk. rewrite (Hn k Hk). f_equal.
  rewrite (HFF k Hk). unfold FF.
  apply (discrete_system_quad Fth).
Qed.

End ObjProofs.
