(* C03 (continued): convergence of explicit Euler AS MODELLED for systems of arbitrary dimension n, in the
   max norm over the first n components (dist_max), and of the accumulated quadrature (ocp.integral).
   - euler_converges_vec: any sysfun whose s_ode maps length-n states to length-n lists, Lipschitz in the
     state w.r.t. dist_max with constant L, exact solution x : nat -> R -> R (component i) with
     |x_i''| <= K on [t0, t0+T]: every component i < n of every entry j <= M of the Xi output of
     discrete_system (intg_expl_euler sys) at ROps is within (K/2)(e^{TL}-1)/L * h of x_i(t0 + j h).
   - euler_integral_converges: with s_quad sys X t = [g X t], g Lipschitz (constant Lg, max norm) and
     t |-> g(x(t),t) differentiable with derivative bounded by D on [t0,t0+T]: ds_quad of the same
     discrete_system is within T (Lg (K/2)(e^{TL}-1)/L + D/2) h of RInt (fun t => g (x t) t) t0 (t0+T). *)
From Coq Require Import Reals ZArith QArith List Lia Lra.
From Coquelicot Require Import Coquelicot.
From RV Require Import Base.Num Base.Vec Mech.Intg Spec.SpecDyn Proofs.NumLemmas Proofs.VecLemmas Proofs.DynProofs Proofs.DerProofs Proofs.SplineDerReal Proofs.ConvProofs Proofs.ConvReal Proofs.EulerConv.
Import ListNotations.
Local Open Scope R_scope.

(* ---- max norm distance of the first n components *)
Definition dist_max (n : nat) (X Y : list R) : R :=
  fold_right Rmax 0 (map (fun k => Rabs (nth k X 0 - nth k Y 0)) (seq 0 n)).

Definition xvec (n : nat) (x : nat -> R -> R) (t : R) : list R := map (fun i => x i t) (seq 0 n).

Lemma fold_max_nonneg (g : nat -> R) l : 0 <= fold_right Rmax 0 (map g l).
Proof.
  induction l as [|a l IH]; cbn [map fold_right]; [lra|].
  eapply Rle_trans; [exact IH|apply Rmax_r].
Qed.

Lemma fold_max_le (g : nat -> R) l d :
  0 <= d -> (forall k, In k l -> g k <= d) -> fold_right Rmax 0 (map g l) <= d.
Proof.
  intros Hd H. induction l as [|a l IH]; cbn [map fold_right]; [exact Hd|].
  apply Rmax_lub; [apply H; left; reflexivity|apply IH; intros k Hk; apply H; right; exact Hk].
Qed.

Lemma fold_max_ge (g : nat -> R) l k : In k l -> g k <= fold_right Rmax 0 (map g l).
Proof.
  induction l as [|a l IH]; intro Hk; [destruct Hk|]. cbn [map fold_right].
  destruct Hk as [->|Hk]; [apply Rmax_l|].
  eapply Rle_trans; [apply IH; exact Hk|apply Rmax_r].
Qed.

Lemma dist_max_nonneg n X Y : 0 <= dist_max n X Y.
Proof. apply fold_max_nonneg. Qed.

Lemma dist_max_le n X Y d :
  0 <= d -> (forall k, (k < n)%nat -> Rabs (nth k X 0 - nth k Y 0) <= d) -> dist_max n X Y <= d.
Proof.
  intros Hd H. apply fold_max_le; [exact Hd|]. intros k Hk. apply in_seq in Hk. apply H. lia.
Qed.

Lemma dist_max_ge n X Y k : (k < n)%nat -> Rabs (nth k X 0 - nth k Y 0) <= dist_max n X Y.
Proof.
  intro Hk. apply (fold_max_ge (fun k => Rabs (nth k X 0 - nth k Y 0))). apply in_seq. lia.
Qed.

Lemma dist_max_refl n X : dist_max n X X = 0.
Proof.
  apply Rle_antisym; [|apply dist_max_nonneg].
  apply dist_max_le; [lra|]. intros k _. replace (nth k X 0 - nth k X 0) with 0 by ring.
  rewrite Rabs_R0. lra.
Qed.

Lemma nth_xvec n x t i : (i < n)%nat -> nth i (xvec n x t) 0 = x i t.
Proof.
  intro Hi. unfold xvec.
  rewrite (nth_indep _ 0 ((fun i => x i t) 0%nat)) by (rewrite map_length, seq_length; exact Hi).
  rewrite (map_nth (fun i => x i t)), seq_nth by exact Hi. reflexivity.
Qed.

Lemma length_xvec n x t : length (xvec n x t) = n.
Proof. unfold xvec. rewrite map_length, seq_length. reflexivity. Qed.

(* ---- the Euler iteration on vectors *)
Fixpoint veuler (F : list R -> R -> list R) (t0 h : R) (j : nat) (X0 : list R) : list R :=
  match j with
  | O => X0
  | S j' => @vadd R ROps (veuler F t0 h j' X0)
              (@vscale R ROps h (F (veuler F t0 h j' X0) (t0 + INR j' * h)))
  end.

Lemma euler_model_iter_vec (sys : sysfun R) t0 h DTc j X0 :
  iter_steps (fun t X => r_xf (@intg_expl_euler R ROps sys X t h DTc)) t0 h j X0
  = veuler (s_ode sys) t0 h j X0.
Proof.
  induction j as [|j IH]; cbn [iter_steps veuler]; [reflexivity|].
  rewrite IH. unfold intg_expl_euler. cbn [r_xf]. rewrite of_nat_R. reflexivity.
Qed.

Lemma veuler_length F n t0 h j X0 :
  length X0 = n -> (forall X t, length X = n -> length (F X t) = n) ->
  length (veuler F t0 h j X0) = n.
Proof.
  intros H0 HF. induction j as [|j IH]; cbn [veuler]; [exact H0|].
  rewrite length_vadd, length_vscale, HF, IH by exact IH. lia.
Qed.

Lemma nth_euler_step (Y Z : list R) h i :
  nth i (@vadd R ROps Y (@vscale R ROps h Z)) 0 = nth i Y 0 + h * nth i Z 0.
Proof.
  pose proof (@vnth_vadd R ROps R_field_laws Y (@vscale R ROps h Z) i) as E.
  rewrite (@vnth_vscale R ROps R_field_laws) in E. exact E.
Qed.

(* ---- error of the iteration in the max norm *)
Lemma veuler_error (F : list R -> R -> list R) (n : nat) (x : nat -> R -> R) (t0 T L K : R) (M : nat) :
  0 < T -> 0 < L -> 0 <= K -> (0 < M)%nat ->
  (forall X t, length X = n -> length (F X t) = n) ->
  (forall i t, (i < n)%nat -> t0 <= t <= t0 + T ->
     is_derive (x i) t (nth i (F (xvec n x t) t) 0)) ->
  (forall i t, (i < n)%nat -> t0 <= t <= t0 + T -> ex_derive_n (x i) 2 t) ->
  (forall i t, (i < n)%nat -> t0 <= t <= t0 + T -> Rabs (Derive_n (x i) 2 t) <= K) ->
  (forall i t X Y, (i < n)%nat -> t0 <= t <= t0 + T -> length X = n -> length Y = n ->
     Rabs (nth i (F X t) 0 - nth i (F Y t) 0) <= L * dist_max n X Y) ->
  let h := T / INR M in
  forall j, (j <= M)%nat ->
    dist_max n (veuler F t0 h j (xvec n x t0)) (xvec n x (t0 + INR j * h))
    <= (K / 2 * ((exp (T * L) - 1) / L)) * h.
Proof.
  intros HT HL HK0 HM HlenF Hsol Hex2 HK Hlip h j Hj.
  assert (HMr : 0 < INR M) by (apply lt_0_INR; exact HM).
  assert (Hh : 0 < h) by (apply Rdiv_lt_0_compat; assumption).
  set (Yk := fun k => veuler F t0 h k (xvec n x t0)).
  assert (HlenY : forall k, length (Yk k) = n).
  { intro k. apply veuler_length; [apply length_xvec|exact HlenF]. }
  set (e := fun k : nat => if (k <=? M)%nat
                           then dist_max n (Yk k) (xvec n x (t0 + INR k * h)) else 0).
  assert (He0 : forall k, 0 <= e k).
  { intro k. unfold e. destruct (k <=? M)%nat; [apply dist_max_nonneg|lra]. }
  assert (Hej : e j = dist_max n (Yk j) (xvec n x (t0 + INR j * h))).
  { unfold e. apply Nat.leb_le in Hj. rewrite Hj. reflexivity. }
  fold (Yk j). rewrite <- Hej.
  replace (K / 2 * ((exp (T * L) - 1) / L) * h) with (K / 2 * ((exp (T * L) - 1) / L) * h ^ 1)
    by (rewrite pow_1; reflexivity).
  apply (global_error_order e h L (K / 2) T 1 j Hh HL).
  - lra.
  - unfold e, Yk. cbn [Nat.leb INR veuler]. rewrite Rmult_0_l, Rplus_0_r. apply dist_max_refl.
  - apply (grid_le T M j HT HM Hj).
  - intro k.
    assert (Hpos : 0 <= (1 + h * L) * e k + K / 2 * h ^ 2).
    { specialize (He0 k). assert (0 <= h * L) by (apply Rmult_le_pos; lra).
      assert (0 <= (1 + h * L) * e k) by (apply Rmult_le_pos; lra).
      assert (0 <= K / 2 * h ^ 2) by (apply Rmult_le_pos; [lra|apply pow2_ge_0]). lra. }
    unfold e at 1. destruct (S k <=? M)%nat eqn:Hk; [|exact Hpos].
    apply Nat.leb_le in Hk.
    assert (Hk' : (k <=? M)%nat = true) by (apply Nat.leb_le; lia).
    assert (Eek : e k = dist_max n (Yk k) (xvec n x (t0 + INR k * h))) by (unfold e; rewrite Hk'; reflexivity).
    apply dist_max_le; [exact Hpos|]. intros i Hi.
    rewrite Eek.
    set (tk := t0 + INR k * h).
    pose proof (grid_le T M k HT HM ltac:(lia)) as Gk. fold h in Gk.
    pose proof (grid_le T M (S k) HT HM Hk) as Gk1. fold h in Gk1.
    rewrite S_INR in Gk1.
    replace (t0 + INR (S k) * h) with (tk + h) by (rewrite S_INR; unfold tk; ring).
    assert (Itk : t0 <= tk <= t0 + T) by (unfold tk; lra).
    assert (Isub : forall t, tk <= t <= tk + h -> t0 <= t <= t0 + T).
    { intros t Ht. unfold tk in *. lra. }
    unfold Yk at 1. cbn [veuler]. fold (Yk k). fold tk.
    rewrite nth_euler_step, !nth_xvec by exact Hi.
    set (y := nth i (Yk k) 0).
    set (Fy := nth i (F (Yk k) tk) 0).
    set (Fx := nth i (F (xvec n x tk) tk) 0).
    assert (R := taylor2 (x i) tk h K Hh
      (fun t Ht => ex_intro _ _ (Hsol i t Hi (Isub t Ht)))
      (fun t Ht => Hex2 i t Hi (Isub t Ht)) (fun t Ht => HK i t Hi (Isub t Ht))).
    rewrite (is_derive_unique _ _ _ (Hsol i tk Hi Itk)) in R. fold Fx in R.
    pose proof (Hlip i tk (Yk k) (xvec n x tk) Hi Itk (HlenY k) (length_xvec n x tk)) as Lp.
    fold Fy Fx in Lp.
    pose proof (dist_max_ge n (Yk k) (xvec n x tk) i Hi) as Dg.
    rewrite nth_xvec in Dg by exact Hi. fold y in Dg.
    set (dd := dist_max n (Yk k) (xvec n x tk)) in *.
    set (D := y - x i tk) in *. set (G := Fy - Fx) in *.
    set (r := x i (tk + h) - x i tk - h * Fx) in *.
    replace (y + h * Fy - x i (tk + h)) with (D + h * G + - r) by (unfold D, G, r; ring).
    eapply Rle_trans; [apply Rabs_triang|]. rewrite Rabs_Ropp.
    eapply Rle_trans; [apply Rplus_le_compat_r; apply Rabs_triang|].
    rewrite Rabs_mult, (Rabs_pos_eq h) by lra.
    assert (h * Rabs G <= h * (L * dd)) by (apply Rmult_le_compat_l; lra).
    lra.
Qed.

(* ---- the model: every entry of the Xi output, every component *)
Theorem euler_converges_vec (sys : sysfun R) (n nq : nat) (x : nat -> R -> R) (t0 T L K : R) (M : nat) :
  0 < T -> 0 < L -> 0 <= K -> (0 < M)%nat ->
  (forall X t, length X = n -> length (s_ode sys X t) = n) ->
  (forall i t, (i < n)%nat -> t0 <= t <= t0 + T ->
     is_derive (x i) t (nth i (s_ode sys (xvec n x t) t) 0)) ->
  (forall i t, (i < n)%nat -> t0 <= t <= t0 + T -> ex_derive_n (x i) 2 t) ->
  (forall i t, (i < n)%nat -> t0 <= t <= t0 + T -> Rabs (Derive_n (x i) 2 t) <= K) ->
  (forall i t X Y, (i < n)%nat -> t0 <= t <= t0 + T -> length X = n -> length Y = n ->
     Rabs (nth i (s_ode sys X t) 0 - nth i (s_ode sys Y t) 0) <= L * dist_max n X Y) ->
  let h := T / INR M in
  let X0 := xvec n x t0 in
  let st := @discrete_system R ROps (intg_expl_euler sys) M nq X0 T t0 in
  forall j i, (j <= M)%nat -> (i < n)%nat ->
    Rabs (nth i (nth j (ds_X st) X0) 0 - x i (t0 + INR j * h))
    <= (K / 2 * ((exp (T * L) - 1) / L)) * h.
Proof.
  intros HT HL HK0 HM HlenF Hsol Hex2 HK Hlip h X0 st j i Hj Hi.
  subst st. rewrite (discrete_system_Xi R_field_laws) by exact Hj.
  change (@odiv R ROps T (@of_nat R ROps M)) with (T / @of_nat R ROps M).
  rewrite of_nat_R. fold h. rewrite euler_model_iter_vec.
  pose proof (veuler_error (s_ode sys) n x t0 T L K M HT HL HK0 HM HlenF Hsol Hex2 HK Hlip j Hj) as E.
  cbv zeta in E. fold h in E.
  eapply Rle_trans; [|exact E].
  rewrite <- (nth_xvec n x (t0 + INR j * h) i Hi).
  apply dist_max_ge. exact Hi.
Qed.

(* the hypotheses are satisfiable: the rotation x' = y, y' = -x, solution (sin, cos), L = 1, K = 1 *)
Definition rot_sys : sysfun R := mkSys (fun X (_ : R) => [nth 1 X 0; - nth 0 X 0]) (fun _ _ => []).
Definition rot_sol (i : nat) : R -> R :=
  match i with O => sin | S O => cos | _ => fun _ => 0 end.

Lemma Derive_sin t : Derive sin t = cos t.
Proof. apply is_derive_unique. apply is_derive_sin. Qed.
Lemma Derive_cos t : Derive cos t = - sin t.
Proof. apply is_derive_unique. apply is_derive_cos. Qed.

Lemma rot_sol_D2 i t : (i < 2)%nat ->
  ex_derive_n (rot_sol i) 2 t /\ Rabs (Derive_n (rot_sol i) 2 t) <= 1.
Proof.
  intro Hi. destruct i as [|[|i]]; [| |lia]; cbn [rot_sol].
  - split.
    + change (ex_derive (Derive sin) t). apply (ex_derive_ext cos); [intro s; symmetry; apply Derive_sin|].
      exists (- sin t). apply is_derive_cos.
    + change (Rabs (Derive (Derive sin) t) <= 1).
      rewrite (Derive_ext (Derive sin) cos) by apply Derive_sin.
      rewrite Derive_cos, Rabs_Ropp. apply Rabs_le. pose proof (SIN_bound t). lra.
  - split.
    + change (ex_derive (Derive cos) t).
      apply (ex_derive_ext (fun s => - sin s)); [intro s; symmetry; apply Derive_cos|].
      auto_derive. exact I.
    + change (Rabs (Derive (Derive cos) t) <= 1).
      rewrite (Derive_ext (Derive cos) (fun s => - sin s)) by apply Derive_cos.
      rewrite Derive_opp, Derive_sin, Rabs_Ropp. apply Rabs_le. pose proof (COS_bound t). lra.
Qed.

Example euler_converges_rotation (t0 T : R) (M : nat) :
  0 < T -> (0 < M)%nat ->
  let h := T / INR M in
  let st := @discrete_system R ROps (intg_expl_euler rot_sys) M 0 [sin t0; cos t0] T t0 in
  forall j, (j <= M)%nat ->
    Rabs (nth 0 (nth j (ds_X st) [sin t0; cos t0]) 0 - sin (t0 + INR j * h))
      <= (1 / 2 * ((exp (T * 1) - 1) / 1)) * h /\
    Rabs (nth 1 (nth j (ds_X st) [sin t0; cos t0]) 0 - cos (t0 + INR j * h))
      <= (1 / 2 * ((exp (T * 1) - 1) / 1)) * h.
Proof.
  intros HT HM h st j Hj.
  assert (H : forall i, (i < 2)%nat ->
            Rabs (nth i (nth j (ds_X st) [sin t0; cos t0]) 0 - rot_sol i (t0 + INR j * h))
            <= (1 / 2 * ((exp (T * 1) - 1) / 1)) * h).
  { intros i Hi.
    apply (euler_converges_vec rot_sys 2 0 rot_sol t0 T 1 1 M HT Rlt_0_1 Rle_0_1 HM); try assumption.
    - intros X t _. reflexivity.
    - intros k t Hk _. destruct k as [|[|k]]; [| |lia]; cbn [rot_sys s_ode xvec seq map nth rot_sol].
      + apply is_derive_sin.
      + apply is_derive_cos.
    - intros k t Hk _. apply (rot_sol_D2 k t Hk).
    - intros k t Hk _. apply (rot_sol_D2 k t Hk).
    - intros k t X Y Hk _ _ _. rewrite Rmult_1_l.
      destruct k as [|[|k]]; [| |lia]; cbn [rot_sys s_ode nth].
      + apply (dist_max_ge 2 X Y 1). lia.
      + replace (- nth 0 X 0 - - nth 0 Y 0) with (- (nth 0 X 0 - nth 0 Y 0)) by ring.
        rewrite Rabs_Ropp. apply (dist_max_ge 2 X Y 0). lia. }
  split; [apply (H 0%nat); lia|apply (H 1%nat); lia].
Qed.

(* ------------------------------------------------------------------ ocp.integral under Euler *)
Fixpoint equad (F : list R -> R -> list R) (g : list R -> R -> R) (t0 h : R) (j : nat) (X0 : list R) : R :=
  match j with
  | O => 0
  | S j' => equad F g t0 h j' X0 + h * g (veuler F t0 h j' X0) (t0 + INR j' * h)
  end.

Lemma euler_model_quad (sys : sysfun R) (g : list R -> R -> R) t0 h DTc j X0 :
  (forall X t, s_quad sys X t = [g X t]) ->
  iter_quad (fun t X => r_xf (@intg_expl_euler R ROps sys X t h DTc))
            (fun t X => r_qf (@intg_expl_euler R ROps sys X t h DTc)) t0 h j X0 [0]
  = [equad (s_ode sys) g t0 h j X0].
Proof.
  intro Hq. induction j as [|j IH]; cbn [iter_quad equad]; [reflexivity|].
  rewrite IH, euler_model_iter_vec. unfold intg_expl_euler. cbn [r_qf]. rewrite Hq.
  cbn [vscale map vadd]. rewrite of_nat_R. reflexivity.
Qed.

(* rectangle rule, one step, against an antiderivative *)
Lemma rect_local (A G : R -> R) (a h D : R) :
  0 < h ->
  (forall t, is_derive A t (G t)) ->
  (forall t, ex_derive G t) ->
  (forall t, a <= t <= a + h -> Rabs (Derive G t) <= D) ->
  Rabs (A (a + h) - A a - h * G a) <= D / 2 * h ^ 2.
Proof.
  intros Hh HA HG HD.
  assert (EA : forall s, Derive A s = G s) by (intro s; apply is_derive_unique; apply HA).
  rewrite <- (EA a).
  apply taylor2; [exact Hh| | |].
  - intros t _. exists (G t). apply HA.
  - intros t _. change (ex_derive (Derive A) t).
    apply (ex_derive_ext G); [intro s; symmetry; apply EA|apply HG].
  - intros t Ht. change (Rabs (Derive (Derive A) t) <= D).
    rewrite (Derive_ext (Derive A) G) by exact EA. apply HD. exact Ht.
Qed.

Theorem euler_integral_converges (sys : sysfun R) (g : list R -> R -> R) (n : nat) (x : nat -> R -> R)
        (t0 T L Lg K D : R) (M : nat) :
  0 < T -> 0 < L -> 0 <= K -> 0 <= Lg -> (0 < M)%nat ->
  (forall X t, length X = n -> length (s_ode sys X t) = n) ->
  (forall X t, s_quad sys X t = [g X t]) ->
  (forall i t, (i < n)%nat -> t0 <= t <= t0 + T ->
     is_derive (x i) t (nth i (s_ode sys (xvec n x t) t) 0)) ->
  (forall i t, (i < n)%nat -> t0 <= t <= t0 + T -> ex_derive_n (x i) 2 t) ->
  (forall i t, (i < n)%nat -> t0 <= t <= t0 + T -> Rabs (Derive_n (x i) 2 t) <= K) ->
  (forall i t X Y, (i < n)%nat -> t0 <= t <= t0 + T -> length X = n -> length Y = n ->
     Rabs (nth i (s_ode sys X t) 0 - nth i (s_ode sys Y t) 0) <= L * dist_max n X Y) ->
  (forall t X Y, t0 <= t <= t0 + T -> length X = n -> length Y = n ->
     Rabs (g X t - g Y t) <= Lg * dist_max n X Y) ->
  (forall t, ex_derive (fun s => g (xvec n x s) s) t) ->
  (forall t, t0 <= t <= t0 + T -> Rabs (Derive (fun s => g (xvec n x s) s) t) <= D) ->
  let h := T / INR M in
  let st := @discrete_system R ROps (intg_expl_euler sys) M 1 (xvec n x t0) T t0 in
  Rabs (nth 0 (ds_quad st) 0 - RInt (fun s => g (xvec n x s) s) t0 (t0 + T))
  <= (T * (Lg * (K / 2 * ((exp (T * L) - 1) / L)) + D / 2)) * h.
Proof.
  intros HT HL HK0 HLg HM HlenF Hq Hsol Hex2 HK Hlip Hglip HG HD h st.
  assert (HMr : 0 < INR M) by (apply lt_0_INR; exact HM).
  assert (Hh : 0 < h) by (apply Rdiv_lt_0_compat; assumption).
  set (G := fun s => g (xvec n x s) s) in *.
  set (A := fun t => RInt G t0 t).
  assert (HA : forall t, is_derive A t (G t)).
  { intro t. apply (is_derive_RInt G A t0 t).
    - apply filter_forall. intro b. apply (@RInt_correct R_CompleteNormedModule).
      apply (@ex_RInt_continuous R_CompleteNormedModule). intros z _.
      apply (ex_derive_continuous G z). apply HG.
    - apply (ex_derive_continuous G t). apply HG. }
  subst st. rewrite (discrete_system_quad R_field_laws).
  change (@odiv R ROps T (@of_nat R ROps M)) with (T / @of_nat R ROps M).
  rewrite of_nat_R. fold h.
  change (@vzero R ROps 1) with [0].
  rewrite (euler_model_quad sys g t0 h T M (xvec n x t0) Hq). cbn [nth].
  set (E := K / 2 * ((exp (T * L) - 1) / L)).
  set (Q := fun k => equad (s_ode sys) g t0 h k (xvec n x t0)).
  assert (Hind : forall k, (k <= M)%nat ->
            Rabs (Q k - A (t0 + INR k * h)) <= INR k * ((Lg * E + D / 2) * h ^ 2)).
  { induction k as [|k IH]; intro Hk.
    - unfold Q, A. cbn [equad INR]. rewrite !Rmult_0_l, Rplus_0_r.
      rewrite RInt_point. unfold zero. cbn. rewrite Rminus_0_r, Rabs_R0. lra.
    - specialize (IH ltac:(lia)).
      set (tk := t0 + INR k * h) in *.
      pose proof (grid_le T M k HT HM ltac:(lia)) as Gk. fold h in Gk.
      pose proof (grid_le T M (S k) HT HM Hk) as Gk1. fold h in Gk1.
      rewrite S_INR in Gk1.
      replace (t0 + INR (S k) * h) with (tk + h) by (rewrite S_INR; unfold tk; ring).
      assert (Itk : t0 <= tk <= t0 + T) by (unfold tk; lra).
      unfold Q at 1. cbn [equad]. fold (Q k). fold tk.
      set (Y := veuler (s_ode sys) t0 h k (xvec n x t0)).
      assert (HlenY : length Y = n) by (apply veuler_length; [apply length_xvec|exact HlenF]).
      pose proof (veuler_error (s_ode sys) n x t0 T L K M HT HL HK0 HM HlenF Hsol Hex2 HK Hlip k ltac:(lia)) as Ek.
      cbv zeta in Ek. fold h E Y tk in Ek.
      pose proof (Hglip tk Y (xvec n x tk) Itk HlenY (length_xvec n x tk)) as Lp.
      change (g (xvec n x tk) tk) with (G tk) in Lp.
      assert (Rl : Rabs (A (tk + h) - A tk - h * G tk) <= D / 2 * h ^ 2).
      { apply rect_local; [exact Hh|exact HA|exact HG|].
        intros t Ht. apply HD. unfold tk in *. lra. }
      set (d := dist_max n Y (xvec n x tk)) in *.
      assert (Lp2 : Lg * d <= Lg * (E * h)) by (apply Rmult_le_compat_l; assumption).
      set (u := Q k - A tk) in *. set (v := g Y tk - G tk) in *.
      set (r := A (tk + h) - A tk - h * G tk) in *.
      replace (Q k + h * g Y tk - A (tk + h)) with (u + h * v + - r) by (unfold u, v, r; ring).
      eapply Rle_trans; [apply Rabs_triang|]. rewrite Rabs_Ropp.
      eapply Rle_trans; [apply Rplus_le_compat_r; apply Rabs_triang|].
      rewrite Rabs_mult, (Rabs_pos_eq h) by lra.
      assert (h * Rabs v <= h * (Lg * (E * h))) by (apply Rmult_le_compat_l; lra).
      rewrite S_INR. cbn [pow] in *. lra. }
  specialize (Hind M (le_n M)).
  assert (EM : INR M * h = T) by (unfold h; field; lra).
  rewrite EM in Hind. fold (A (t0 + T)). fold (Q M).
  eapply Rle_trans; [exact Hind|].
  replace (INR M * ((Lg * E + D / 2) * h ^ 2)) with (INR M * h * (Lg * E + D / 2) * h) by ring.
  rewrite EM. apply Rle_refl.
Qed.

(* satisfiable: the rotation with the integrand g = first state; the integral of sin over [t0, t0+T] *)
Definition rot_sys_q : sysfun R :=
  mkSys (fun X (_ : R) => [nth 1 X 0; - nth 0 X 0]) (fun X (_ : R) => [nth 0 X 0]).

Example euler_integral_rotation (t0 T : R) (M : nat) :
  0 < T -> (0 < M)%nat ->
  let h := T / INR M in
  let st := @discrete_system R ROps (intg_expl_euler rot_sys_q) M 1 [sin t0; cos t0] T t0 in
  Rabs (nth 0 (ds_quad st) 0 - RInt sin t0 (t0 + T))
  <= (T * (1 * (1 / 2 * ((exp (T * 1) - 1) / 1)) + 1 / 2)) * h.
Proof.
  intros HT HM.
  apply (euler_integral_converges rot_sys_q (fun X _ => nth 0 X 0) 2 rot_sol t0 T 1 1 1 1 M
           HT Rlt_0_1 Rle_0_1 Rle_0_1 HM).
  - intros X t _. reflexivity.
  - intros X t. reflexivity.
  - intros k t Hk _. destruct k as [|[|k]]; [| |lia]; cbn [rot_sys_q s_ode xvec seq map nth rot_sol].
    + apply is_derive_sin.
    + apply is_derive_cos.
  - intros k t Hk _. apply (rot_sol_D2 k t Hk).
  - intros k t Hk _. apply (rot_sol_D2 k t Hk).
  - intros k t X Y Hk _ _ _. rewrite Rmult_1_l.
    destruct k as [|[|k]]; [| |lia]; cbn [rot_sys_q s_ode nth].
    + apply (dist_max_ge 2 X Y 1). lia.
    + replace (- nth 0 X 0 - - nth 0 Y 0) with (- (nth 0 X 0 - nth 0 Y 0)) by ring.
      rewrite Rabs_Ropp. apply (dist_max_ge 2 X Y 0). lia.
  - intros t X Y _ _ _. rewrite Rmult_1_l. apply (dist_max_ge 2 X Y 0). lia.
  - intro t. exists (cos t). apply is_derive_sin.
  - intros t _. change (Rabs (Derive sin t) <= 1). rewrite Derive_sin.
    apply Rabs_le. pose proof (COS_bound t). lra.
Qed.

Print Assumptions euler_converges_vec.
Print Assumptions euler_integral_converges.
