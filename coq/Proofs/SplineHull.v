(* C17 (bounds): the convex-hull property of B-splines.  On a nondecreasing knot sequence every Cox-de Boor
   basis function of Mech/Spline.v is nonnegative on a non-degenerate knot span; together with the partition of
   unity (Proofs/SplineProofs.v) the value of a spline lies between the smallest and the largest of its
   coefficients (of the d+1 coefficients that are active on the span, even).  This is what justifies rockit's
   SplineMethod imposing grid='inf' bounds on the spline COEFFICIENTS: lo <= c_i <= hi for all i implies
   lo <= s(x) <= hi for every x.  (The converse does not hold: the coefficient bound is sufficient, not necessary.)

   The order is abstract: a relation [le] on the carrier with the laws of an ordered field (a total order that is
   compatible with + and with products of nonnegatives, [OrderLaws]); strictness k_j < k_{j+1} is expressed as
   le (k j) (k (S j)) (from monotonicity) and k j <> k (S j).  R and Qc are instances (end of the file). *)
From Coq Require Import ZArith QArith Qcanon List Field Lia Bool Sorted.
From Coq Require Import Reals Lra.
From RV Require Import Base.Num Base.Vec Mech.Spline Inst Proofs.QcInst Proofs.NumLemmas Proofs.ListLemmas
     Proofs.SplineProofs Proofs.SplineDerList Proofs.DerProofs Proofs.SplineDerReal.
Import ListNotations.
Local Open Scope nat_scope.

(* the laws of an ordered field, for a carrier that already satisfies FieldLaws *)
Record OrderLaws {F : Type} (O : Ops F) (le : F -> F -> Prop) : Prop := mkOrderLaws {
  ol_antisym : forall a b, le a b -> le b a -> a = b;
  ol_trans : forall a b c, le a b -> le b c -> le a c;
  ol_total : forall a b, le a b \/ le b a;
  ol_add_r : forall a b c, le a b -> le (a +! c) (b +! c);
  ol_mul_nonneg : forall a b, le o0 a -> le o0 b -> le o0 (a *! b) }.

Section SplineHull.
Context {F : Type} {OF : Ops F}.
Hypothesis Fth : field_theory o0 o1 oadd omul osub oopp odiv oinv (@eq F).
Add Field FFhull : Fth.

Variable le : F -> F -> Prop.
Hypothesis le_antisym : forall a b, le a b -> le b a -> a = b.
Hypothesis le_trans : forall a b c, le a b -> le b c -> le a c.
Hypothesis le_total : forall a b, le a b \/ le b a.
Hypothesis le_add_r : forall a b c, le a b -> le (a +! c) (b +! c).
Hypothesis mul_nonneg : forall a b, le o0 a -> le o0 b -> le o0 (a *! b).

(* ---- consequences of the order laws *)
Lemma le_refl a : le a a.
Proof. destruct (le_total a a); assumption. Qed.

Lemma le_add a b c d : le a b -> le c d -> le (a +! c) (b +! d).
Proof.
  intros H1 H2. apply le_trans with (b +! c); [apply le_add_r; exact H1|].
  replace (b +! c) with (c +! b) by ring. replace (b +! d) with (d +! b) by ring.
  apply le_add_r. exact H2.
Qed.

Lemma add_nonneg a b : le o0 a -> le o0 b -> le o0 (a +! b).
Proof.
  intros Ha Hb. pose proof (le_add _ _ _ _ Ha Hb) as H.
  replace (o0 +! o0) with (o0 : F) in H by ring. exact H.
Qed.

Lemma sub_nonneg a b : le a b -> le o0 (b -! a).
Proof.
  intro H. pose proof (le_add_r _ _ (oopp a) H) as H'.
  replace (a +! oopp a) with (o0 : F) in H' by ring.
  replace (b +! oopp a) with (b -! a) in H' by ring. exact H'.
Qed.

Lemma sub_nonneg_inv a b : le o0 (b -! a) -> le a b.
Proof.
  intro H. pose proof (le_add_r _ _ a H) as H'.
  replace (o0 +! a) with a in H' by ring.
  replace (b -! a +! a) with b in H' by ring. exact H'.
Qed.

Lemma sq_nonneg a : le o0 (a *! a).
Proof.
  destruct (le_total o0 a) as [H|H].
  - apply mul_nonneg; exact H.
  - replace (a *! a) with ((o0 -! a) *! (o0 -! a)) by ring.
    apply mul_nonneg; apply sub_nonneg; exact H.
Qed.

Lemma le_0_1 : le o0 (o1 : F).
Proof. replace (o1 : F) with (o1 *! o1 : F) by ring. apply sq_nonneg. Qed.

(* the inverse of a positive number is nonnegative: 1/b = b (1/b)^2 *)
Lemma inv_nonneg b : le o0 b -> b <> o0 -> le o0 (oinv b).
Proof.
  intros Hb Hnz. replace (oinv b) with (b *! (oinv b *! oinv b)) by (field; exact Hnz).
  apply mul_nonneg; [exact Hb|apply sq_nonneg].
Qed.

Lemma div_nonneg a b : le o0 a -> le o0 b -> b <> o0 -> le o0 (a /! b).
Proof.
  intros Ha Hb Hnz. rewrite (Fdiv_def Fth). apply mul_nonneg; [exact Ha|apply inv_nonneg; assumption].
Qed.

(* ---- finite sums *)
Lemma sumf_nonneg f n : (forall i, i < n -> le o0 (f i)) -> le o0 (sumf f n).
Proof.
  induction n as [|n IH]; intro H; cbn [sumf]; [apply le_refl|].
  apply add_nonneg; [apply IH; intros i Hi; apply H; lia|apply H; lia].
Qed.

Lemma sumf_scal a f n : sumf (fun i => a *! f i) n = a *! sumf f n.
Proof. induction n as [|n IH]; cbn [sumf]; [ring|rewrite IH; ring]. Qed.

(* ---- 1. nonnegativity and 2. convex hull, on a globally nondecreasing knot function *)
Section Basis.
Variable k : nat -> F.       (* the knot sequence *)
Variable j : nat.            (* index of the knot span containing x *)
Variable x : F.
Hypothesis Hmono : forall a b, a <= b -> le (k a) (k b).
Hypothesis Hspan : k j <> k (S j).          (* with Hmono: k_j < k_{j+1} *)
Hypothesis Hlo : le (k j) x.
Hypothesis Hhi : le x (k (S j)).

(* the separation hypothesis of cdb_support / partition_of_unity *)
Lemma knots_sep a b : a <= j -> j < b -> k b -! k a <> o0.
Proof.
  intros Ha Hb E. apply Hspan. apply le_antisym; [apply Hmono; lia|].
  assert (E' : k b = k a) by (apply (sub_zero_iff Fth); exact E).
  apply le_trans with (k b); [apply Hmono; lia|]. rewrite E'. apply Hmono. exact Ha.
Qed.

Theorem cdb_nonneg e i : le o0 (cdb k j x e i).
Proof.
  revert i. induction e as [|e' IH]; intro i.
  - cbn [cdb]. destruct (Nat.eqb i j); [apply le_0_1|apply le_refl].
  - cbn [cdb]. apply add_nonneg.
    + destruct (Nat.leb (j - e') i && Nat.leb i j) eqn:E; [|apply le_refl].
      apply andb_true_iff in E. destruct E as [E1 E2]. apply Nat.leb_le in E1. apply Nat.leb_le in E2.
      apply mul_nonneg; [|apply IH]. apply div_nonneg.
      * apply sub_nonneg. apply le_trans with (k j); [apply Hmono; exact E2|exact Hlo].
      * apply sub_nonneg. apply Hmono. lia.
      * apply knots_sep; lia.
    + destruct (Nat.leb (j - e') (S i) && Nat.leb (S i) j) eqn:E; [|apply le_refl].
      apply andb_true_iff in E. destruct E as [E1 E2]. apply Nat.leb_le in E1. apply Nat.leb_le in E2.
      apply mul_nonneg; [|apply IH]. apply div_nonneg.
      * apply sub_nonneg. apply le_trans with (k (S j)); [exact Hhi|apply Hmono; lia].
      * apply sub_nonneg. apply Hmono. lia.
      * apply knots_sep; lia.
Qed.

(* a combination of the basis functions with weights that are nonnegative on the support is nonnegative *)
Lemma weighted_nonneg (w : nat -> F) d n :
  (forall i, j - d <= i <= j -> le o0 (w i)) -> le o0 (sumf (fun i => w i *! cdb k j x d i) n).
Proof.
  intro Hw. apply sumf_nonneg. intros i _.
  destruct (le_dec (j - d) i) as [H1|H1]; [destruct (le_dec i j) as [H2|H2]|].
  - apply mul_nonneg; [apply Hw; lia|apply cdb_nonneg].
  - rewrite (cdb_support Fth k j x d i) by lia. replace (w i *! o0) with (o0 : F) by ring. apply le_refl.
  - rewrite (cdb_support Fth k j x d i) by lia. replace (w i *! o0) with (o0 : F) by ring. apply le_refl.
Qed.

(* the spline value is at least the smallest active coefficient ... *)
Theorem hull_lower (c : nat -> F) (lo : F) d n : d <= j -> j < n ->
  (forall i, j - d <= i <= j -> le lo (c i)) -> le lo (sumf (fun i => c i *! cdb k j x d i) n).
Proof.
  intros Hd Hn Hc.
  assert (E : sumf (fun i => c i *! cdb k j x d i) n = sumf (fun i => (c i -! lo) *! cdb k j x d i) n +! lo).
  { transitivity (sumf (fun i => (c i -! lo) *! cdb k j x d i +! lo *! cdb k j x d i) n).
    - apply sumf_ext. intros i _. ring.
    - rewrite (sumf_add Fth), sumf_scal, (partition_of_unity Fth k j x knots_sep d n Hd Hn). ring. }
  rewrite E.
  assert (H : le o0 (sumf (fun i => (c i -! lo) *! cdb k j x d i) n)).
  { apply (weighted_nonneg (fun i => c i -! lo)). intros i Hi. apply sub_nonneg. apply Hc. exact Hi. }
  pose proof (le_add_r _ _ lo H) as H'. replace (o0 +! lo) with lo in H' by ring. exact H'.
Qed.

(* ... and at most the largest *)
Theorem hull_upper (c : nat -> F) (hi : F) d n : d <= j -> j < n ->
  (forall i, j - d <= i <= j -> le (c i) hi) -> le (sumf (fun i => c i *! cdb k j x d i) n) hi.
Proof.
  intros Hd Hn Hc. apply sub_nonneg_inv.
  assert (E : hi -! sumf (fun i => c i *! cdb k j x d i) n = sumf (fun i => (hi -! c i) *! cdb k j x d i) n).
  { transitivity (hi *! sumf (cdb k j x d) n -! sumf (fun i => c i *! cdb k j x d i) n).
    - rewrite (partition_of_unity Fth k j x knots_sep d n Hd Hn). ring.
    - rewrite <- sumf_scal.
      transitivity (sumf (fun i => (hi -! c i) *! cdb k j x d i +! c i *! cdb k j x d i) n
                    -! sumf (fun i => c i *! cdb k j x d i) n).
      + f_equal. apply sumf_ext. intros i _. ring.
      + rewrite (sumf_add Fth). ring. }
  rewrite E. apply (weighted_nonneg (fun i => hi -! c i)). intros i Hi. apply sub_nonneg. apply Hc. exact Hi.
Qed.

(* the version with a bound on all n coefficients *)
Corollary hull_lower_all (c : nat -> F) (lo : F) d n : d <= j -> j < n ->
  (forall i, i < n -> le lo (c i)) -> le lo (sumf (fun i => c i *! cdb k j x d i) n).
Proof. intros Hd Hn Hc. apply hull_lower; try assumption. intros i Hi. apply Hc. lia. Qed.

Corollary hull_upper_all (c : nat -> F) (hi : F) d n : d <= j -> j < n ->
  (forall i, i < n -> le (c i) hi) -> le (sumf (fun i => c i *! cdb k j x d i) n) hi.
Proof. intros Hd Hn Hc. apply hull_upper; try assumption. intros i Hi. apply Hc. lia. Qed.

End Basis.

(* ---- the same when the knots are only known to be nondecreasing up to index j + d + 1, the last knot that a
   basis function of degree d on span j reads (a list of knots is not nondecreasing beyond its end) *)
Section Bounded.
Variable k : nat -> F.
Variables j d : nat.
Variable x : F.
Hypothesis Hmono : forall a b, a <= b -> b <= j + d + 1 -> le (k a) (k b).
Hypothesis Hspan : k j <> k (S j).
Hypothesis Hlo : le (k j) x.
Hypothesis Hhi : le x (k (S j)).

Let k' : nat -> F := fun m => k (Nat.min m (j + d + 1)).

Lemma k'_mono a b : a <= b -> le (k' a) (k' b).
Proof. intro H. unfold k'. apply Hmono; lia. Qed.

Lemma k'_cdb e i : e <= d -> cdb k j x e i = cdb k' j x e i.
Proof.
  intro He. apply cdb_ext. intros m Hm. unfold k'. replace (Nat.min m (j + d + 1)) with m by lia. reflexivity.
Qed.

Lemma k'_j : k' j = k j.
Proof. unfold k'. replace (Nat.min j (j + d + 1)) with j by lia. reflexivity. Qed.
Lemma k'_Sj : k' (S j) = k (S j).
Proof. unfold k'. replace (Nat.min (S j) (j + d + 1)) with (S j) by lia. reflexivity. Qed.

Theorem cdb_nonneg_bounded e i : e <= d -> le o0 (cdb k j x e i).
Proof.
  intro He. rewrite (k'_cdb e i He). apply (cdb_nonneg k' j x k'_mono).
  - rewrite k'_j, k'_Sj. exact Hspan.
  - rewrite k'_j. exact Hlo.
  - rewrite k'_Sj. exact Hhi.
Qed.

Theorem hull_lower_bounded (c : nat -> F) (lo : F) n : d <= j -> j < n ->
  (forall i, j - d <= i <= j -> le lo (c i)) -> le lo (sumf (fun i => c i *! cdb k j x d i) n).
Proof.
  intros Hd Hn Hc.
  rewrite (sumf_ext _ (fun i => c i *! cdb k' j x d i)) by (intros i _; rewrite (k'_cdb d i (le_n d)); reflexivity).
  apply (hull_lower k' j x k'_mono); try assumption.
  - rewrite k'_j, k'_Sj. exact Hspan.
  - rewrite k'_j. exact Hlo.
  - rewrite k'_Sj. exact Hhi.
Qed.

Theorem hull_upper_bounded (c : nat -> F) (hi : F) n : d <= j -> j < n ->
  (forall i, j - d <= i <= j -> le (c i) hi) -> le (sumf (fun i => c i *! cdb k j x d i) n) hi.
Proof.
  intros Hd Hn Hc.
  rewrite (sumf_ext _ (fun i => c i *! cdb k' j x d i)) by (intros i _; rewrite (k'_cdb d i (le_n d)); reflexivity).
  apply (hull_upper k' j x k'_mono); try assumption.
  - rewrite k'_j, k'_Sj. exact Hspan.
  - rewrite k'_j. exact Hlo.
  - rewrite k'_Sj. exact Hhi.
Qed.

End Bounded.

(* ---- 3. the model's own list functions *)

(* xi is nondecreasing, indexwise *)
Definition sorted_idx (xi : list F) : Prop :=
  forall a b, a <= b -> b < length xi -> le (nth a xi o0) (nth b xi o0).

Lemma StronglySorted_sorted_idx (xi : list F) : StronglySorted le xi -> sorted_idx xi.
Proof.
  intro H. induction H as [|y l Hl IH Hy]; intros a b Hab Hb; cbn [length] in Hb; [lia|].
  destruct a as [|a]; destruct b as [|b]; cbn [nth]; try lia.
  - apply le_refl.
  - rewrite Forall_forall in Hy. apply Hy. apply nth_In. lia.
  - apply IH; lia.
Qed.

Lemma nth_repeat_lt (a dflt : F) m n : n < m -> nth n (repeat a m) dflt = a.
Proof.
  revert n. induction m as [|m IH]; intros n H; [lia|].
  destruct n as [|n]; cbn [repeat nth]; [reflexivity|apply IH; lia].
Qed.

(* a clamped knot is the xi entry at the index clipped to the range of xi *)
Lemma clamped_nth (xi : list F) d m : 1 <= length xi -> m < d + length xi + d ->
  knot_fun (clamped xi d) m = nth (Nat.min (m - d) (length xi - 1)) xi o0.
Proof.
  intros Hxi Hm. unfold knot_fun, clamped.
  destruct (lt_dec m d) as [H1|H1].
  - rewrite app_nth1 by (rewrite repeat_length; exact H1).
    rewrite nth_repeat_lt by exact H1. replace (Nat.min (m - d) (length xi - 1)) with 0 by lia. reflexivity.
  - rewrite app_nth2 by (rewrite repeat_length; lia). rewrite repeat_length.
    destruct (lt_dec (m - d) (length xi)) as [H2|H2].
    + rewrite app_nth1 by exact H2. replace (Nat.min (m - d) (length xi - 1)) with (m - d) by lia. reflexivity.
    + rewrite app_nth2 by lia. rewrite nth_repeat_lt by lia.
      replace (Nat.min (m - d) (length xi - 1)) with (length xi - 1) by lia.
      apply last_nth. lia.
Qed.

Lemma clamped_mono (xi : list F) d : 1 <= length xi -> sorted_idx xi ->
  forall a b, a <= b -> b < d + length xi + d -> le (knot_fun (clamped xi d) a) (knot_fun (clamped xi d) b).
Proof.
  intros Hxi Hs a b Hab Hb. rewrite !clamped_nth by lia. apply Hs; lia.
Qed.

Lemma list_as_map_seq (c : list F) : c = map (fun i => nth i c o0) (seq 0 (length c)).
Proof.
  induction c as [|y c IH]; [reflexivity|].
  cbn [length seq map nth]. f_equal. rewrite <- seq_shift, map_map. exact IH.
Qed.

Lemma spline_value_sumf (c knots : list F) d j x : length c = length knots - d - 1 ->
  spline_value c (basis_values knots d j x)
  = sumf (fun i => nth i c o0 *! cdb (knot_fun knots) j x d i) (length c).
Proof.
  intro Hc. unfold spline_value, basis_values. rewrite <- Hc.
  transitivity (vdot (map (fun i => nth i c o0) (seq 0 (length c)))
                     (map (fun i => cdb (knot_fun knots) j x d i) (seq 0 (length c)))).
  - f_equal. apply list_as_map_seq.
  - apply (vdot_map_seq Fth).
Qed.

Section Lists.
Variables c xi : list F.
Variables d j : nat.
Variable x : F.
Let K := clamped xi d.
Hypothesis Hsorted : sorted_idx xi.                       (* xi nondecreasing *)
Hypothesis Hc : length c = length K - d - 1.              (* one coefficient per basis function *)
Hypothesis Hd : d <= j.
Hypothesis Hj : j < length K - d - 1.                     (* span j is one of the spans of xi *)
Hypothesis Hspan : knot_fun K j <> knot_fun K (S j).      (* non-degenerate *)
Hypothesis Hlo : le (knot_fun K j) x.
Hypothesis Hhi : le x (knot_fun K (S j)).

Lemma K_mono : forall a b, a <= b -> b <= j + d + 1 -> le (knot_fun K a) (knot_fun K b).
Proof.
  clear Hc Hspan Hlo Hhi. pose proof Hj as Hj'. unfold K in Hj' |- *. rewrite clamped_length in Hj'.
  intros a b Hab Hb. apply clamped_mono; [lia|exact Hsorted|exact Hab|lia].
Qed.

(* every basis value the model computes on the span is nonnegative *)
Theorem basis_values_nonneg : Forall (le o0) (basis_values K d j x).
Proof.
  unfold basis_values. apply Forall_forall. intros v Hv. apply in_map_iff in Hv. destruct Hv as [i [<- _]].
  apply (cdb_nonneg_bounded (knot_fun K) j d x K_mono Hspan Hlo Hhi d i (le_n d)).
Qed.

Theorem spline_value_lower (lo : F) : Forall (le lo) c -> le lo (spline_value c (basis_values K d j x)).
Proof.
  intro Hall. rewrite (spline_value_sumf c K d j x Hc).
  apply (hull_lower_bounded (knot_fun K) j d x K_mono Hspan Hlo Hhi); [exact Hd|rewrite Hc; exact Hj|].
  intros i Hi. rewrite Forall_forall in Hall. apply Hall. apply nth_In. lia.
Qed.

Theorem spline_value_upper (hi : F) : Forall (fun v => le v hi) c -> le (spline_value c (basis_values K d j x)) hi.
Proof.
  intro Hall. rewrite (spline_value_sumf c K d j x Hc).
  apply (hull_upper_bounded (knot_fun K) j d x K_mono Hspan Hlo Hhi); [exact Hd|rewrite Hc; exact Hj|].
  intros i Hi. rewrite Forall_forall in Hall. apply Hall. apply nth_In. lia.
Qed.

End Lists.
End SplineHull.

(* ================= the statements, for every ordered field ================= *)

(* 1. nonnegativity of the Cox-de Boor basis on a non-degenerate span of nondecreasing knots *)
Theorem SplineHull_basis_nonneg :
  forall (F : Type) (OF : Ops F), FieldLaws OF -> forall le : F -> F -> Prop, OrderLaws OF le ->
  forall (k : nat -> F) (j : nat) (x : F),
    (forall a b, a <= b -> le (k a) (k b)) -> k j <> k (S j) -> le (k j) x -> le x (k (S j)) ->
    forall e i, le o0 (cdb k j x e i).
Proof.
  intros F OF Fl le [A T O P M] k j x H1 H2 H3 H4 e i.
  exact (cdb_nonneg Fl le A T O P M k j x H1 H2 H3 H4 e i).
Qed.

(* 2. convex hull: the spline value lies between bounds on the d+1 coefficients that are active on the span *)
Theorem SplineHull_convex_hull :
  forall (F : Type) (OF : Ops F), FieldLaws OF -> forall le : F -> F -> Prop, OrderLaws OF le ->
  forall (k : nat -> F) (j : nat) (x : F),
    (forall a b, a <= b -> le (k a) (k b)) -> k j <> k (S j) -> le (k j) x -> le x (k (S j)) ->
    forall (c : nat -> F) (d n : nat), d <= j -> j < n ->
      (forall lo, (forall i, j - d <= i <= j -> le lo (c i)) -> le lo (sumf (fun i => c i *! cdb k j x d i) n)) /\
      (forall hi, (forall i, j - d <= i <= j -> le (c i) hi) -> le (sumf (fun i => c i *! cdb k j x d i) n) hi).
Proof.
  intros F OF Fl le [A T O P M] k j x H1 H2 H3 H4 c d n Hd Hn. split.
  - intros lo Hc. exact (hull_lower Fl le A T O P M k j x H1 H2 H3 H4 c lo d n Hd Hn Hc).
  - intros hi Hc. exact (hull_upper Fl le A T O P M k j x H1 H2 H3 H4 c hi d n Hd Hn Hc).
Qed.

(* 2'. the same with bounds on all n coefficients *)
Theorem SplineHull_convex_hull_all :
  forall (F : Type) (OF : Ops F), FieldLaws OF -> forall le : F -> F -> Prop, OrderLaws OF le ->
  forall (k : nat -> F) (j : nat) (x : F),
    (forall a b, a <= b -> le (k a) (k b)) -> k j <> k (S j) -> le (k j) x -> le x (k (S j)) ->
    forall (c : nat -> F) (d n : nat), d <= j -> j < n ->
      (forall lo, (forall i, i < n -> le lo (c i)) -> le lo (sumf (fun i => c i *! cdb k j x d i) n)) /\
      (forall hi, (forall i, i < n -> le (c i) hi) -> le (sumf (fun i => c i *! cdb k j x d i) n) hi).
Proof.
  intros F OF Fl le [A T O P M] k j x H1 H2 H3 H4 c d n Hd Hn. split.
  - intros lo Hc. exact (hull_lower_all Fl le A T O P M k j x H1 H2 H3 H4 c lo d n Hd Hn Hc).
  - intros hi Hc. exact (hull_upper_all Fl le A T O P M k j x H1 H2 H3 H4 c hi d n Hd Hn Hc).
Qed.

(* 3. on the model's own functions: bounds on the coefficient list bound spline_value on every non-degenerate
   span of the clamped knots of a nondecreasing xi; the basis values are nonnegative *)
Theorem SplineHull_model_spline_bounds :
  forall (F : Type) (OF : Ops F), FieldLaws OF -> forall le : F -> F -> Prop, OrderLaws OF le ->
  forall (c xi : list F) (d j : nat) (x : F),
    let K := clamped xi d in
    (forall a b, a <= b -> b < length xi -> le (nth a xi o0) (nth b xi o0)) ->
    length c = length K - d - 1 -> d <= j -> j < length K - d - 1 ->
    knot_fun K j <> knot_fun K (S j) -> le (knot_fun K j) x -> le x (knot_fun K (S j)) ->
    Forall (le o0) (basis_values K d j x) /\
    (forall lo, Forall (le lo) c -> le lo (spline_value c (basis_values K d j x))) /\
    (forall hi, Forall (fun v => le v hi) c -> le (spline_value c (basis_values K d j x)) hi).
Proof.
  intros F OF Fl le [A T O P M] c xi d j x K Hs Hc Hd Hj H1 H2 H3. split; [|split].
  - exact (basis_values_nonneg Fl le A T O P M xi d j x Hs Hd Hj H1 H2 H3).
  - intros lo Hall. exact (spline_value_lower Fl le A T O P M c xi d j x Hs Hc Hd Hj H1 H2 H3 lo Hall).
  - intros hi Hall. exact (spline_value_upper Fl le A T O P M c xi d j x Hs Hc Hd Hj H1 H2 H3 hi Hall).
Qed.

(* StronglySorted is enough for the sortedness hypothesis *)
Theorem SplineHull_sorted_idx_of_StronglySorted :
  forall (F : Type) (OF : Ops F) (le : F -> F -> Prop), OrderLaws OF le ->
  forall xi : list F, StronglySorted le xi ->
    forall a b, a <= b -> b < length xi -> le (nth a xi o0) (nth b xi o0).
Proof.
  intros F OF le [A T O P M] xi H. exact (StronglySorted_sorted_idx le O xi H).
Qed.

(* ================= instances ================= *)

Lemma R_order_laws : OrderLaws ROps Rle.
Proof.
  constructor; cbn [o0 oadd omul ROps].
  - intros a b H1 H2. apply Rle_antisym; assumption.
  - intros a b c. apply Rle_trans.
  - intros a b. destruct (Rle_or_lt a b) as [H|H]; [left; exact H|right; apply Rlt_le; exact H].
  - intros a b c H. apply Rplus_le_compat_r. exact H.
  - intros a b. apply Rmult_le_pos.
Qed.

Lemma Qc_order_laws : OrderLaws QcOps Qcle.
Proof.
  constructor; cbn [o0 oadd omul QcOps].
  - apply Qcle_antisym.
  - apply Qcle_trans.
  - intros a b. destruct (Qclt_le_dec a b) as [H|H]; [left; apply Qclt_le_weak; exact H|right; exact H].
  - intros a b c H. apply Qcplus_le_compat; [exact H|apply Qcle_refl].
  - intros a b Ha Hb. pose proof (Qcmult_le_compat_r _ _ _ Ha Hb) as H. rewrite Qcmult_0_l in H. exact H.
Qed.

(* over the reals, in the notation of R: nonnegativity and convex hull for a knot function *)
Theorem SplineHull_R_basis :
  forall (k : nat -> R) (j : nat) (x : R),
    (forall a b, a <= b -> (k a <= k b)%R) -> (k j < k (S j))%R -> (k j <= x <= k (S j))%R ->
    (forall e i, (0 <= @cdb R ROps k j x e i)%R) /\
    (forall (c : nat -> R) (d n : nat), d <= j -> j < n ->
       (forall lo, (forall i, j - d <= i <= j -> (lo <= c i)%R) ->
                   (lo <= @sumf R ROps (fun i => (c i * @cdb R ROps k j x d i)%R) n)%R) /\
       (forall hi, (forall i, j - d <= i <= j -> (c i <= hi)%R) ->
                   (@sumf R ROps (fun i => (c i * @cdb R ROps k j x d i)%R) n <= hi)%R)).
Proof.
  intros k j x Hm Hlt [H2 H3].
  assert (Hne : k j <> k (S j)) by (intro E; rewrite E in Hlt; exact (Rlt_irrefl _ Hlt)).
  split.
  - exact (SplineHull_basis_nonneg R ROps R_field_laws Rle R_order_laws k j x Hm Hne H2 H3).
  - intros c d n Hd Hn.
    exact (SplineHull_convex_hull R ROps R_field_laws Rle R_order_laws k j x Hm Hne H2 H3 c d n Hd Hn).
Qed.

(* over the reals, on the model's list functions *)
Theorem SplineHull_R :
  forall (c xi : list R) (d j : nat) (x : R),
    let K := @clamped R ROps xi d in
    (forall a b, a <= b -> b < length xi -> (nth a xi 0 <= nth b xi 0)%R) ->
    length c = length K - d - 1 -> d <= j -> j < length K - d - 1 ->
    (nth j K 0 < nth (S j) K 0)%R -> (nth j K 0 <= x <= nth (S j) K 0)%R ->
    Forall (fun b => (0 <= b)%R) (@basis_values R ROps K d j x) /\
    (forall lo, Forall (fun v => (lo <= v)%R) c -> (lo <= @spline_value R ROps c (@basis_values R ROps K d j x))%R) /\
    (forall hi, Forall (fun v => (v <= hi)%R) c -> (@spline_value R ROps c (@basis_values R ROps K d j x) <= hi)%R).
Proof.
  intros c xi d j x K Hs Hc Hd Hj Hlt [H2 H3].
  apply (SplineHull_model_spline_bounds R ROps R_field_laws Rle R_order_laws c xi d j x Hs Hc Hd Hj).
  - unfold knot_fun. fold K. intro E. change (@o0 R ROps) with 0%R in E. rewrite E in Hlt. exact (Rlt_irrefl _ Hlt).
  - exact H2.
  - exact H3.
Qed.

Theorem SplineHull_Qc :
  forall (c xi : list Qc) (d j : nat) (x : Qc),
    let K := @clamped Qc QcOps xi d in
    (forall a b, a <= b -> b < length xi -> (nth a xi (Q2Qc 0) <= nth b xi (Q2Qc 0))%Qc) ->
    length c = length K - d - 1 -> d <= j -> j < length K - d - 1 ->
    (nth j K (Q2Qc 0) < nth (S j) K (Q2Qc 0))%Qc -> (nth j K (Q2Qc 0) <= x)%Qc -> (x <= nth (S j) K (Q2Qc 0))%Qc ->
    Forall (fun b => (Q2Qc 0 <= b)%Qc) (@basis_values Qc QcOps K d j x) /\
    (forall lo, Forall (fun v => (lo <= v)%Qc) c -> (lo <= @spline_value Qc QcOps c (@basis_values Qc QcOps K d j x))%Qc) /\
    (forall hi, Forall (fun v => (v <= hi)%Qc) c -> (@spline_value Qc QcOps c (@basis_values Qc QcOps K d j x) <= hi)%Qc).
Proof.
  intros c xi d j x K Hs Hc Hd Hj Hlt H2 H3.
  apply (SplineHull_model_spline_bounds Qc QcOps QcLaws Qcle Qc_order_laws c xi d j x Hs Hc Hd Hj).
  - unfold knot_fun. fold K. intro E. change (@o0 Qc QcOps) with (Q2Qc 0) in E. rewrite E in Hlt.
    exact (Qclt_not_le _ _ Hlt (Qcle_refl _)).
  - exact H2.
  - exact H3.
Qed.

(* ================= 4. non-vacuity ================= *)
(* quadratic spline on xi = 0, 1/2, 1 (clamped knots 0,0,0,1/2,1,1,1), span j = 2 = [0, 1/2], x = 1/4,
   coefficients 1, 3, 2, 5: all hypotheses of SplineHull_Qc hold, the basis values are 1/4, 5/8, 1/8, 0 and the
   value 19/8 lies between the bounds 1 and 5 (between 1 and 3, the active coefficients, even) *)
Example SplineHull_nonvacuous :
  let xi := [Q2Qc 0; Q2Qc (1#2); Q2Qc 1] in
  let c := [Q2Qc 1; Q2Qc 3; Q2Qc 2; Q2Qc 5] in
  let d := 2 in let j := 2 in let x := Q2Qc (1#4) in
  let K := @clamped Qc QcOps xi d in
  (forall a b, a <= b -> b < length xi -> (nth a xi (Q2Qc 0) <= nth b xi (Q2Qc 0))%Qc) /\
  length c = length K - d - 1 /\ d <= j /\ j < length K - d - 1 /\
  (nth j K (Q2Qc 0) < nth (S j) K (Q2Qc 0))%Qc /\ (nth j K (Q2Qc 0) <= x)%Qc /\ (x <= nth (S j) K (Q2Qc 0))%Qc /\
  Forall (fun v => (Q2Qc 1 <= v)%Qc) c /\ Forall (fun v => (v <= Q2Qc 5)%Qc) c /\
  map (fun q => this q) (@basis_values Qc QcOps K d j x) = [(1#4)%Q; (5#8)%Q; (1#8)%Q; 0%Q] /\
  this (@spline_value Qc QcOps c (@basis_values Qc QcOps K d j x)) = (19#8)%Q /\
  (Q2Qc 1 <= @spline_value Qc QcOps c (@basis_values Qc QcOps K d j x) <= Q2Qc 5)%Qc.
Proof.
  intros xi c d j x K.
  assert (Hs : forall a b, a <= b -> b < length xi -> (nth a xi (Q2Qc 0) <= nth b xi (Q2Qc 0))%Qc).
  { intros a b Hab Hb. cbn [length xi] in Hb.
    destruct b as [|[|[|b]]]; [| | |lia]; destruct a as [|[|[|a]]]; try lia; vm_compute; intro E; discriminate E. }
  assert (Hlt : (nth j K (Q2Qc 0) < nth (S j) K (Q2Qc 0))%Qc) by (vm_compute; reflexivity).
  assert (H2 : (nth j K (Q2Qc 0) <= x)%Qc) by (vm_compute; intro E; discriminate E).
  assert (H3 : (x <= nth (S j) K (Q2Qc 0))%Qc) by (vm_compute; intro E; discriminate E).
  assert (Hc : length c = length K - d - 1) by reflexivity.
  assert (Hd : d <= j) by (unfold d, j; lia).
  assert (Hj : j < length K - d - 1) by (vm_compute; lia).
  assert (Hlo : Forall (fun v => (Q2Qc 1 <= v)%Qc) c)
    by (repeat constructor; vm_compute; intro E; discriminate E).
  assert (Hhi : Forall (fun v => (v <= Q2Qc 5)%Qc) c)
    by (repeat constructor; vm_compute; intro E; discriminate E).
  destruct (SplineHull_Qc c xi d j x Hs Hc Hd Hj Hlt H2 H3) as [_ [L U]].
  assert (E1 : map (fun q => this q) (@basis_values Qc QcOps K d j x) = [(1#4)%Q; (5#8)%Q; (1#8)%Q; 0%Q])
    by (vm_compute; reflexivity).
  assert (E2 : this (@spline_value Qc QcOps c (@basis_values Qc QcOps K d j x)) = (19#8)%Q)
    by (vm_compute; reflexivity).
  (* the bounds on the value are obtained from the theorem, not by computation *)
  exact (conj Hs (conj Hc (conj Hd (conj Hj (conj Hlt (conj H2 (conj H3 (conj Hlo (conj Hhi (conj E1 (conj E2
         (conj (L (Q2Qc 1) Hlo) (U (Q2Qc 5) Hhi))))))))))))).
Qed.

Print Assumptions SplineHull_basis_nonneg.
Print Assumptions SplineHull_convex_hull.
Print Assumptions SplineHull_convex_hull_all.
Print Assumptions SplineHull_model_spline_bounds.
Print Assumptions SplineHull_sorted_idx_of_StronglySorted.
Print Assumptions R_order_laws.
Print Assumptions Qc_order_laws.
Print Assumptions SplineHull_R_basis.
Print Assumptions SplineHull_R.
Print Assumptions SplineHull_Qc.
Print Assumptions SplineHull_nonvacuous.
