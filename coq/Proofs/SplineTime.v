(* C17 (physical time): rockit keeps B-spline signals on a normalized grid and evaluates them at
   tau = (t - t0)/T; der() has to be the derivative with respect to the physical time t.

   1. time_scaling_is_derive_n: if q_k is the k-th derivative of p for all k <= r, then the k-th derivative of
      t |-> p ((t - t0)/T) is (1/T)^k q_k ((t - t0)/T).  The hypothesis is needed at every level k <= r (Coquelicot's
      Derive_n is only meaningful where the lower derivatives exist); time_scaling_is_derive_n_single is the form
      with one derivative q of order r and existence of the lower ones.
   2. spline_physical_time_derivative_R: for the model's spline on a strictly increasing normalized xi, the r-th
      physical-time derivative is (1/T)^r times the spline of the r-th chain member (Proofs/SplineChain.v).
   3. bspline_derivative_affine_knots_R: if instead the knots are physical times t0 + T*s, the derivative
      coefficients carry exactly one factor 1/T per derivative (chain_coeffs_affine_knots_R: (1/T)^r after r). *)
From Coq Require Import Reals ZArith QArith Qcanon List Lia Lra Bool.
From Coquelicot Require Import Coquelicot.
From RV Require Import Base.Num Base.Vec Mech.Spline Inst Proofs.QcInst Proofs.DerProofs Proofs.ListLemmas
     Proofs.SplineProofs Proofs.SplineDerList Proofs.SplineDerReal Proofs.SplineChain.
Import ListNotations.
Local Open Scope nat_scope.

(* ---- 1. derivatives of t |-> p ((t - t0)/T) *)
Lemma time_scaling_is_derive_n (p : R -> R) (q : nat -> R -> R) (t0 T : R) (r : nat) :
  T <> 0%R ->
  (forall k, k <= r -> forall y : R, is_derive_n p k y (q k y)) ->
  forall k, k <= r -> forall t : R,
    is_derive_n (fun s => p ((s - t0) / T)%R) k t ((/ T) ^ k * q k ((t - t0) / T))%R.
Proof.
  intros HT H k. induction k as [|k IH]; intros Hk t.
  - cbn [is_derive_n pow]. rewrite (H 0 ltac:(lia) ((t - t0) / T)%R). ring.
  - cbn [is_derive_n].
    (* q k is differentiable with derivative q (S k) *)
    assert (Hq : forall y : R, is_derive (q k) y (q (S k) y)).
    { intro y. apply (is_derive_ext (Derive_n p k)).
      - intro u. apply is_derive_n_unique. apply H. lia.
      - exact (H (S k) Hk y). }
    apply (is_derive_ext (fun s => ((/ T) ^ k * q k ((s - t0) / T))%R)).
    + intro s. symmetry. apply is_derive_n_unique. apply IH. lia.
    + replace ((/ T) ^ S k * q (S k) ((t - t0) / T))%R
        with ((/ T) ^ k * (scal (1 / T)%R (q (S k) ((t - t0) / T)%R)))%R.
      * apply is_derive_scal.
        apply (is_derive_comp (q k) (fun s => ((s - t0) / T)%R)).
        -- apply Hq.
        -- apply affine_over_const_derive.
      * unfold scal. cbn. unfold mult. cbn. field. exact HT.
Qed.

(* with a single derivative of order r, and existence of the derivatives of lower order *)
Corollary time_scaling_is_derive_n_single (p q : R -> R) (t0 T : R) (r : nat) :
  T <> 0%R ->
  (forall k, k < r -> forall y : R, ex_derive_n p (S k) y) ->
  (forall y : R, is_derive_n p r y (q y)) ->
  forall t : R, is_derive_n (fun s => p ((s - t0) / T)%R) r t ((/ T) ^ r * q ((t - t0) / T))%R.
Proof.
  intros HT Hex H t.
  pose (qq := fun k => if Nat.eqb k r then q else Derive_n p k).
  assert (E : qq r = q) by (unfold qq; rewrite Nat.eqb_refl; reflexivity).
  rewrite <- E.
  apply (time_scaling_is_derive_n p qq t0 T r HT); [|lia].
  intros k Hk y. unfold qq. destruct (Nat.eqb_spec k r) as [->|Hne]; [apply H|].
  destruct k as [|k]; [reflexivity|].
  cbn [is_derive_n]. apply Derive_correct. apply (Hex k). lia.
Qed.

(* ---- 2. the model's spline, evaluated at the normalized time (t - t0)/T *)
Theorem spline_physical_time_derivative_R (c xi : list R) (d j r : nat) (t0 T : R) :
  T <> 0%R ->
  length c = length xi - 1 + d -> strictly_increasing xi -> d <= j -> j < length c -> r <= d ->
  forall t : R,
    is_derive_n (fun s => @spline_value R ROps c
                            (@basis_values R ROps (@clamped R ROps xi d) d j ((s - t0) / T)%R)) r t
                ((/ T) ^ r * @spline_value R ROps (chain_coeffs c xi d r)
                               (@basis_values R ROps (@clamped R ROps xi (d - r)) (d - r) (j - r)
                                              ((t - t0) / T)%R))%R.
Proof.
  intros HT Hc Hs Hd Hj Hr t.
  apply (time_scaling_is_derive_n
           (fun y => @spline_value R ROps c (@basis_values R ROps (@clamped R ROps xi d) d j y))
           (fun k y => @spline_value R ROps (chain_coeffs c xi d k)
                         (@basis_values R ROps (@clamped R ROps xi (d - k)) (d - k) (j - k) y))
           t0 T d HT); [|exact Hr].
  intros k Hk y. apply spline_chain_derivative_n_strict_R; assumption.
Qed.

(* in particular der(): one derivative, one factor 1/T *)
Corollary spline_physical_time_der_R (c xi : list R) (d' j : nat) (t0 T : R) :
  let d := S d' in
  T <> 0%R ->
  length c = length xi - 1 + d -> strictly_increasing xi -> d <= j -> j < length c ->
  forall t : R,
    is_derive (fun s => @spline_value R ROps c
                          (@basis_values R ROps (@clamped R ROps xi d) d j ((s - t0) / T)%R)) t
              (/ T * @spline_value R ROps (@bspline_derivative R ROps c xi d)
                       (@basis_values R ROps (@clamped R ROps xi d') d' (j - 1) ((t - t0) / T)%R))%R.
Proof.
  intros d HT Hc Hs Hd Hj t.
  pose proof (spline_physical_time_derivative_R c xi d j 1 t0 T HT Hc Hs Hd Hj ltac:(unfold d; lia) t) as H.
  cbn [is_derive_n Derive_n chain_coeffs pow] in H.
  replace (d - 0) with d in H by lia. replace (d - 1) with d' in H by (unfold d; lia).
  rewrite Rmult_1_r in H. exact H.
Qed.

(* ---- 3. knots in physical time: xi_phys = t0 + T * xi *)
Lemma last_map_nonempty {A B} (f : A -> B) (l : list A) (a : A) (b : B) :
  l <> [] -> last (map f l) b = f (last l a).
Proof.
  induction l as [|y l IH]; intro H; [congruence|].
  destruct l as [|z l]; [reflexivity|].
  change (last (map f (z :: l)) b = f (last (z :: l) a)). apply IH. discriminate.
Qed.

Lemma map_repeat' {A B} (f : A -> B) (a : A) n : map f (repeat a n) = repeat (f a) n.
Proof. induction n as [|n IH]; cbn [repeat map]; [reflexivity|rewrite IH; reflexivity]. Qed.

Lemma clamped_map_R (f : R -> R) (xi : list R) d :
  1 <= length xi -> @clamped R ROps (map f xi) d = map f (@clamped R ROps xi d).
Proof.
  intro H. unfold clamped. rewrite !map_app, !map_repeat'.
  assert (Hne : xi <> []) by (destruct xi; [cbn in H; lia|discriminate]).
  rewrite (last_map_nonempty f xi (@o0 R ROps) (@o0 R ROps) Hne).
  destruct xi as [|y xi]; [congruence|]. reflexivity.
Qed.

Lemma nth_map_in_range (f : R -> R) (l : list R) m : m < length l -> nth m (map f l) 0%R = f (nth m l 0%R).
Proof.
  intro H. rewrite (nth_indep (map f l) 0%R (f 0%R)) by (rewrite map_length; exact H). apply map_nth.
Qed.

Theorem bspline_derivative_affine_knots_R (c xi : list R) (d : nat) (t0 T : R) :
  T <> 0%R -> 1 <= length xi -> length c <= length xi + d ->
  @bspline_derivative R ROps c (map (fun s => (t0 + T * s)%R) xi) d
  = map (fun v => (v / T)%R) (@bspline_derivative R ROps c xi d).
Proof.
  intros HT Hxi Hc. unfold bspline_derivative.
  rewrite (clamped_map_R _ xi d Hxi), map_map.
  apply map_ext_in. intros i Hi. apply in_seq in Hi.
  cbn [o0 oadd omul osub odiv ROps].
  rewrite !nth_map_in_range by (rewrite clamped_length; lia).
  set (a := nth (S (i + d)) (@clamped R ROps xi d) 0%R).
  set (b := nth (S i) (@clamped R ROps xi d) 0%R).
  replace (t0 + T * a - (t0 + T * b))%R with (T * (a - b))%R by ring.
  unfold Rdiv. rewrite Rinv_mult. ring.
Qed.

(* bspline_derivative is linear in the coefficients *)
Lemma nth_map_scale (s : R) (l : list R) m : nth m (map (fun v => (v * s)%R) l) 0%R = (nth m l 0 * s)%R.
Proof.
  destruct (lt_dec m (length l)) as [H|H].
  - apply (nth_map_in_range (fun v => (v * s)%R)). exact H.
  - rewrite !nth_overflow by (try rewrite map_length; lia). ring.
Qed.

Lemma bspline_derivative_scale_R (c xi : list R) (d : nat) (s : R) :
  @bspline_derivative R ROps (map (fun v => (v * s)%R) c) xi d
  = map (fun v => (v * s)%R) (@bspline_derivative R ROps c xi d).
Proof.
  unfold bspline_derivative. rewrite map_length, map_map.
  apply map_ext. intro i. cbn [o0 oadd omul osub odiv ROps].
  rewrite !nth_map_scale. unfold Rdiv. ring.
Qed.

(* the whole chain on the physical grid: one factor 1/T per derivative *)
Theorem chain_coeffs_affine_knots_R (c xi : list R) (d r : nat) (t0 T : R) :
  T <> 0%R -> 1 <= length xi -> length c <= length xi + d ->
  chain_coeffs c (map (fun s => (t0 + T * s)%R) xi) d r
  = map (fun v => (v * (/ T) ^ r)%R) (chain_coeffs c xi d r).
Proof.
  intros HT Hxi Hc. induction r as [|r IH]; cbn [chain_coeffs pow].
  - rewrite <- (map_id c) at 1. apply map_ext. intro v. ring.
  - rewrite IH, bspline_derivative_scale_R.
    rewrite bspline_derivative_affine_knots_R; [|exact HT|exact Hxi|rewrite chain_coeffs_length; lia].
    rewrite map_map. apply map_ext. intro v. unfold Rdiv. ring.
Qed.

(* ================= non-vacuity ================= *)
(* cubic spline on the normalized grid 0, 1/2, 1 with coefficients 1,3,2,5,4, span j = 3, physical time
   t = 2 + 4 tau: hypotheses hold, hence the identities for r = 0..3 at every t; and the coefficient identity on
   the physical grid 2, 4, 6 *)
Example spline_physical_time_nonvacuous_R :
  let xi := [0; 1/2; 1]%R in
  let c := [1; 3; 2; 5; 4]%R in
  let d := 3 in let j := 3 in let t0 := 2%R in let T := 4%R in
  T <> 0%R /\ strictly_increasing xi /\
  length c = length xi - 1 + d /\ d <= j /\ j < length c /\ 1 <= length xi /\ length c <= length xi + d /\
  (forall r, r <= d -> forall t : R,
     is_derive_n (fun s => @spline_value R ROps c
                             (@basis_values R ROps (@clamped R ROps xi d) d j ((s - t0) / T)%R)) r t
                 ((/ T) ^ r * @spline_value R ROps (chain_coeffs c xi d r)
                                (@basis_values R ROps (@clamped R ROps xi (d - r)) (d - r) (j - r)
                                               ((t - t0) / T)%R))%R) /\
  @bspline_derivative R ROps c (map (fun s => (t0 + T * s)%R) xi) d
  = map (fun v => (v / T)%R) (@bspline_derivative R ROps c xi d).
Proof.
  intros xi c d j t0 T.
  assert (HT : T <> 0%R) by (unfold T; lra).
  assert (Hs : strictly_increasing xi).
  { intros a b Hab Hb. cbn [length xi] in Hb.
    destruct b as [|[|[|b]]]; [lia| | |lia]; destruct a as [|[|a]]; try lia; cbn [nth xi]; lra. }
  assert (Hc : length c = length xi - 1 + d) by reflexivity.
  assert (Hd : d <= j) by (unfold d, j; lia).
  assert (Hj : j < length c) by (cbn; lia).
  assert (Hxi : 1 <= length xi) by (cbn; lia).
  assert (Hc' : length c <= length xi + d) by (cbn; lia).
  split; [exact HT|]. split; [exact Hs|]. split; [exact Hc|]. split; [exact Hd|]. split; [exact Hj|].
  split; [exact Hxi|]. split; [exact Hc'|]. split.
  - intros r Hr t. apply spline_physical_time_derivative_R; assumption.
  - apply bspline_derivative_affine_knots_R; assumption.
Qed.

(* the same coefficient identity computed in exact rationals: on the grid 2, 4, 6 the derivative coefficients are
   those of the normalized grid (12, -3, 9, -6) divided by T = 4 *)
Example bspline_derivative_affine_knots_Qc :
  let c := [Q2Qc 1; Q2Qc 3; Q2Qc 2; Q2Qc 5; Q2Qc 4] in
  map (fun q => this q) (@bspline_derivative Qc QcOps c [Q2Qc 0; Q2Qc (1#2); Q2Qc 1] 3)
    = [12%Q; (-3)%Q; 9%Q; (-6)%Q] /\
  map (fun q => this q) (@bspline_derivative Qc QcOps c [Q2Qc 2; Q2Qc 4; Q2Qc 6] 3)
    = [3%Q; (-3#4)%Q; (9#4)%Q; (-3#2)%Q].
Proof. split; vm_compute; reflexivity. Qed.

Print Assumptions time_scaling_is_derive_n.
Print Assumptions time_scaling_is_derive_n_single.
Print Assumptions spline_physical_time_derivative_R.
Print Assumptions spline_physical_time_der_R.
Print Assumptions bspline_derivative_affine_knots_R.
Print Assumptions chain_coeffs_affine_knots_R.
Print Assumptions spline_physical_time_nonvacuous_R.
Print Assumptions bspline_derivative_affine_knots_Qc.
