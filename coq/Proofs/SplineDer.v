(* C17: the derivative of a B-spline is the B-spline of one degree less with the coefficients of
   bspline_derivative.  Algebraic part (any field): the basis derivative recurrence
     B'_{i,e} = e ( B_{i,e-1} / (k_{i+e} - k_i)  -  B_{i+1,e-1} / (k_{i+e+1} - k_{i+1}) )
   for dcdb, the product-rule derivative of the Cox-de Boor recursion on a knot span. *)
From Coq Require Import ZArith List Field Lia Bool.
From RV Require Import Base.Num Base.Vec Mech.Spline Proofs.NumLemmas Proofs.SplineProofs.
Import ListNotations.
Local Open Scope nat_scope.

Section SplineDer.
Context {F : Type} {OF : Ops F}.
Hypothesis Fth : field_theory o0 o1 oadd omul osub oopp odiv oinv (@eq F).
Add Field FFsd : Fth.

Definition gd (b : bool) (v : F) : F := if b then v else o0.

(* the whole induction step as one identity in abstract knots p_m = k_{i+m}, q_m = k_{i+e'+m},
   values b_m = B_{i+m,e''}, guards g_m (support of b_m) and h_m (support of B_{i+m,e'}) *)
Lemma key_identity (g0 g1 g2 h0 h1 : bool) (p0 p1 p2 q0 q1 q2 b0 b1 b2 x n' : F) :
  (g0 = true -> h0 = true) -> (g1 = true -> h0 = true /\ h1 = true) -> (g2 = true -> h1 = true) ->
  (g0 = true -> q0 -! p0 <> o0) -> (g1 = true -> q1 -! p1 <> o0) -> (g2 = true -> q2 -! p2 <> o0) ->
  (h0 = true -> q1 -! p0 <> o0) -> (h1 = true -> q2 -! p1 <> o0) ->
  let Be0 := gd g0 ((x -! p0) /! (q0 -! p0) *! b0) +! gd g1 ((q1 -! x) /! (q1 -! p1) *! b1) in
  let Be1 := gd g1 ((x -! p1) /! (q1 -! p1) *! b1) +! gd g2 ((q2 -! x) /! (q2 -! p2) *! b2) in
  let U0 := gd g0 (b0 /! (q0 -! p0)) in
  let U1 := gd g1 (b1 /! (q1 -! p1)) in
  let U2 := gd g2 (b2 /! (q2 -! p2)) in
  gd h0 (o1 /! (q1 -! p0) *! Be0 +! (x -! p0) /! (q1 -! p0) *! (n' *! (U0 -! U1)))
  +! gd h1 (oopp o1 /! (q2 -! p1) *! Be1 +! (q2 -! x) /! (q2 -! p1) *! (n' *! (U1 -! U2)))
  = (n' +! o1) *! (gd h0 (Be0 /! (q1 -! p0)) -! gd h1 (Be1 /! (q2 -! p1))).
Proof.
  intros I0 I1 I2 N0 N1 N2 M0 M1.
  destruct g0, g1, g2, h0, h1; cbn [gd];
    try (destruct (I0 eq_refl); fail); try (discriminate (I0 eq_refl));
    try (destruct (I1 eq_refl) as [A B]; try discriminate A; try discriminate B; fail);
    try (discriminate (I2 eq_refl));
    try (field; repeat split; auto; fail);
    try ring.
Qed.

Section Basis.
Variable k : nat -> F.
Variable j : nat.
Variable x : F.
Hypothesis Hsep : forall a b, a <= j -> j < b -> k b -! k a <> o0.

Definition G (e' m : nat) : bool := Nat.leb (j - e') m && Nat.leb m j.

Lemma G_true e' m : G e' m = true <-> j - e' <= m <= j.
Proof.
  unfold G. rewrite andb_true_iff, !Nat.leb_le. tauto.
Qed.

(* U e' m = [m in support of B_{.,e'}] B_{m,e'} / (k_{m+e'+1} - k_m) *)
Definition U (e' m : nat) : F := gd (G e' m) (cdb k j x e' m /! (k (m + S e') -! k m)).

Lemma cdb_unfold e' i :
  cdb k j x (S e') i
  = gd (G e' i) ((x -! k i) /! (k (i + S e') -! k i) *! cdb k j x e' i)
    +! gd (G e' (S i)) ((k (S (i + S e')) -! x) /! (k (S (i + S e')) -! k (S i)) *! cdb k j x e' (S i)).
Proof. reflexivity. Qed.

Lemma dcdb_unfold e' i :
  dcdb k j x (S e') i
  = gd (G e' i) (o1 /! (k (i + S e') -! k i) *! cdb k j x e' i
                 +! (x -! k i) /! (k (i + S e') -! k i) *! dcdb k j x e' i)
    +! gd (G e' (S i)) (oopp o1 /! (k (S (i + S e')) -! k (S i)) *! cdb k j x e' (S i)
                        +! (k (S (i + S e')) -! x) /! (k (S (i + S e')) -! k (S i)) *! dcdb k j x e' (S i)).
Proof. reflexivity. Qed.

Theorem basis_derivative e' i :
  dcdb k j x (S e') i = of_nat (S e') *! (U e' i -! U e' (S i)).
Proof.
  revert i. induction e' as [|e'' IH]; intro i.
  - rewrite dcdb_unfold. cbn [dcdb]. unfold U. rewrite of_nat_1.
    destruct (G 0 i) eqn:E0, (G 0 (S i)) eqn:E1; cbn [gd].
    all: try (apply G_true in E0); try (apply G_true in E1).
    all: try (assert (D0 : k (i + 1) -! k i <> o0) by (apply Hsep; lia)).
    all: try (assert (D1 : k (S i + 1) -! k (S i) <> o0) by (apply Hsep; lia)).
    all: replace (S (i + 1)) with (S i + 1) by lia.
    all: try (field; auto; fail).
    all: try ring.
  - rewrite dcdb_unfold. rewrite (IH i), (IH (S i)).
    rewrite (cdb_unfold e'' i), (cdb_unfold e'' (S i)).
    unfold U.
    replace (i + S (S e'')) with (S (i + S e'')) by lia.
    replace (S i + S (S e'')) with (S (S (i + S e''))) by lia.
    replace (S i + S e'') with (S (i + S e'')) by lia.
    replace (S (S i) + S e'') with (S (S (i + S e''))) by lia.
    rewrite (of_nat_S Fth (S e'')).
    apply key_identity.
    + intro H. apply G_true in H. apply G_true. lia.
    + intro H. apply G_true in H. split; apply G_true; lia.
    + intro H. apply G_true in H. apply G_true. lia.
    + intro H. apply G_true in H. apply Hsep; lia.
    + intro H. apply G_true in H. apply Hsep; lia.
    + intro H. apply G_true in H. apply Hsep; lia.
    + intro H. apply G_true in H. apply Hsep; lia.
    + intro H. apply G_true in H. apply Hsep; lia.
Qed.

(* summation by parts *)
Lemma sum_by_parts (c u : nat -> F) m :
  sumf (fun i => c i *! (u i -! u (S i))) (S m)
  = sumf (fun i => (c (S i) -! c i) *! u (S i)) m +! c 0 *! u 0 -! c m *! u (S m).
Proof.
  induction m as [|m IH].
  - cbn [sumf]. ring.
  - change (sumf (fun i => c i *! (u i -! u (S i))) (S (S m)))
      with (sumf (fun i => c i *! (u i -! u (S i))) (S m) +! c (S m) *! (u (S m) -! u (S (S m)))).
    rewrite IH. cbn [sumf]. ring.
Qed.

Lemma U_unguarded e' m : U e' m = cdb k j x e' m /! (k (m + S e') -! k m).
Proof.
  unfold U. destruct (G e' m) eqn:E; cbn [gd]; [reflexivity|].
  rewrite (cdb_support Fth k j x e' m).
  - rewrite (Fdiv_def Fth). ring.
  - intro H. apply G_true in H. congruence.
Qed.

(* the derivative of the spline sum_i c_i B_{i,d} (d = S e', n coefficients, x in span j, d <= j < n:
   always so on clamped knots) is the spline of degree d-1 with coefficients
   d (c_{i+1} - c_i) / (k_{i+d+1} - k_{i+1}) on the basis functions B_{i+1,d-1} *)
Theorem spline_derivative (c : nat -> F) e' n :
  S e' <= j -> j < n ->
  sumf (fun i => c i *! dcdb k j x (S e') i) n
  = sumf (fun i => of_nat (S e') *! (c (S i) -! c i) /! (k (S i + S e') -! k (S i)) *! cdb k j x e' (S i)) (n - 1).
Proof.
  intros Hd Hn. destruct n as [|m]; [lia|]. replace (S m - 1) with m by lia.
  rewrite (sumf_ext _ (fun i => of_nat (S e') *! (c i *! (U e' i -! U e' (S i))))).
  2:{ intros i _. rewrite basis_derivative. ring. }
  assert (Hs : forall f n0 a, sumf (fun i => a *! f i) n0 = a *! sumf f n0).
  { intros f n0 a. induction n0 as [|n0 IHn]; cbn [sumf]; [ring|rewrite IHn; ring]. }
  rewrite Hs, sum_by_parts.
  assert (U0 : U e' 0 = o0).
  { unfold U. assert (E : G e' 0 = false).
    { destruct (G e' 0) eqn:E; [|reflexivity]. apply G_true in E. lia. }
    rewrite E. reflexivity. }
  assert (Un : U e' (S m) = o0).
  { unfold U. assert (E : G e' (S m) = false).
    { destruct (G e' (S m)) eqn:E; [|reflexivity]. apply G_true in E. lia. }
    rewrite E. reflexivity. }
  rewrite U0, Un.
  replace (of_nat (S e') *! (sumf (fun i => (c (S i) -! c i) *! U e' (S i)) m +! c 0 *! o0 -! c m *! o0))
    with (of_nat (S e') *! sumf (fun i => (c (S i) -! c i) *! U e' (S i)) m) by ring.
  rewrite <- Hs. apply (sumf_ext). intros i _. rewrite U_unguarded.
  rewrite !(Fdiv_def Fth). ring.
Qed.

End Basis.
(* the derivative spline lives on the knots without the first one (clamped xi (d-1) is clamped xi d
   without its first and last knot): shifting the knot sequence shifts span and basis index *)
Lemma cdb_shift (k : nat -> F) (j' : nat) (x : F) e i :
  cdb (fun m => k (S m)) j' x e i = cdb k (S j') x e (S i).
Proof.
  revert i. induction e as [|e' IH]; intro i; cbn [cdb].
  - reflexivity.
  - rewrite !IH.
    assert (E1 : (Nat.leb (j' - e') i && Nat.leb i j') = (Nat.leb (S j' - e') (S i) && Nat.leb (S i) (S j'))).
    { apply eq_true_iff_eq. rewrite !andb_true_iff, !Nat.leb_le. lia. }
    assert (E2 : (Nat.leb (j' - e') (S i) && Nat.leb (S i) j') = (Nat.leb (S j' - e') (S (S i)) && Nat.leb (S (S i)) (S j'))).
    { apply eq_true_iff_eq. rewrite !andb_true_iff, !Nat.leb_le. lia. }
    rewrite E1, E2. reflexivity.
Qed.

End SplineDer.
