(* C08 (collocation): the dense-output coefficients of DirectCollocation (Mech/Colloc.v L_poly:
   power-basis coefficients of the Lagrange basis over [0]+tau, rescaled by dt^p and combined with
   the helper states) define, per integrator step, the polynomial through the step's start state
   and helper states: evaluated at local time dt*tau_m it returns helper state m (and the start
   state at local time 0).  Refined sampling therefore interpolates the collocation states. *)
From Coq Require Import ZArith List Field Lia Bool.
From RV Require Import Base.Num Base.Vec Base.Poly Mech.Refine Proofs.NumLemmas Proofs.VecLemmas Proofs.ListLemmas
     Proofs.PolyLemmas Proofs.ColProofs Proofs.QuadProofs.
Import ListNotations.
Local Open Scope nat_scope.

Section DenseDC.
Context {F : Type} {OF : Ops F}.
Hypothesis Fth : field_theory o0 o1 oadd omul osub oopp odiv oinv (@eq F).
Add Field FFdd : Fth.

(* the columns rockit stores: column p = sum_j (coefficient p of l_j / dt^p) * X_j *)
Definition dense_cols (nodes : list F) (dt : F) (Xs : list (list F)) : list (list F) :=
  map (fun p => vlincomb (map (fun j => nth p (lagrange nodes j) o0 /! opow dt p) (seq 0 (length nodes))) Xs)
      (seq 0 (length nodes)).

(* canonical finite sums *)
Fixpoint sumf (f : nat -> F) (js : list nat) : F :=
  match js with [] => o0 | j :: js' => f j +! sumf f js' end.

Lemma sumf_ext (f g : nat -> F) js : (forall j, In j js -> f j = g j) -> sumf f js = sumf g js.
Proof.
  induction js as [|j js IH]; intro H; [reflexivity|]. cbn [sumf].
  rewrite (H j) by (left; reflexivity). rewrite IH; [reflexivity|]. intros j' Hj'. apply H. right. exact Hj'.
Qed.

Lemma sumf_scale (c : F) (f : nat -> F) js : sumf (fun j => c *! f j) js = c *! sumf f js.
Proof. induction js as [|j js IH]; cbn [sumf]; [ring|rewrite IH; ring]. Qed.

Lemma sumf_swap (f : nat -> nat -> F) ps js :
  sumf (fun p => sumf (fun j => f p j) js) ps = sumf (fun j => sumf (fun p => f p j) ps) js.
Proof.
  induction ps as [|p ps IH]; cbn [sumf].
  - induction js as [|j js IHj]; cbn [sumf]; [reflexivity|rewrite <- IHj; ring].
  - rewrite IH. clear IH. induction js as [|j js IHj]; cbn [sumf]; [ring|]. rewrite <- IHj. ring.
Qed.

(* lin_at over mapped coefficients and a list of vectors indexed by seq *)
Lemma lin_at_sumf (w : nat -> F) (Xs : list (list F)) i a :
  lin_at (map w (seq a (length Xs))) Xs i = sumf (fun j => w j *! vnth (nth (j - a) Xs []) i) (seq a (length Xs)).
Proof.
  revert a. induction Xs as [|X Xs IH]; intro a; [reflexivity|].
  cbn [length seq map lin_at sumf]. rewrite Nat.sub_diag. cbn [nth]. f_equal.
  rewrite IH. apply sumf_ext. intros j Hj. apply in_seq in Hj.
  replace (j - a) with (S (j - S a)) by lia. reflexivity.
Qed.

(* dense_eval: component i is the power sum of the columns' components *)
Lemma powers_from_nth (s acc : F) n p : p < n -> nth p (powers_from s acc n) o0 = acc *! opow s p.
Proof.
  revert acc p. induction n as [|n IH]; intros acc p Hp; [lia|].
  cbn [powers_from]. destruct p as [|p]; cbn [nth opow]; [ring|].
  rewrite IH by lia. ring.
Qed.

Lemma lin_at_powers (s : F) (cols : list (list F)) i :
  lin_at (tpower s (length cols)) cols i = sumf (fun p => opow s p *! vnth (nth p cols []) i) (seq 0 (length cols)).
Proof.
  unfold tpower.
  assert (G : forall acc a (cs : list (list F)),
    lin_at (powers_from s acc (length cs)) cs i
    = sumf (fun p => acc *! opow s (p - a) *! vnth (nth (p - a) cs []) i) (seq a (length cs))).
  { intros acc a cs. revert acc a. induction cs as [|c cs IH]; intros acc a; [reflexivity|].
    cbn [length powers_from lin_at seq sumf]. rewrite Nat.sub_diag. cbn [opow nth]. f_equal; [ring|].
    rewrite (IH (acc *! s) (S a)). apply sumf_ext. intros p Hp. apply in_seq in Hp.
    replace (p - a) with (S (p - S a)) by lia. cbn [opow nth]. ring. }
  rewrite (G o1 0 cols). apply sumf_ext. intros p _. rewrite Nat.sub_0_r. ring.
Qed.

(* coefficient p of the interpolant through values y over the nodes *)
Lemma interp_fold_coeff nodes (y : list F) js (acc : list F) p :
  nth p (fold_left (fun a j => vadd a (vscale (nth j y o0) (lagrange nodes j))) js acc) o0
  = nth p acc o0 +! sumf (fun j => nth j y o0 *! nth p (lagrange nodes j) o0) js.
Proof.
  revert acc. induction js as [|j js IH]; intro acc; cbn [fold_left sumf]; [ring|].
  rewrite IH.
  change (nth p (vadd acc (vscale (nth j y o0) (lagrange nodes j))) o0)
    with (vnth (vadd acc (vscale (nth j y o0) (lagrange nodes j))) p).
  rewrite (vnth_vadd Fth), (vnth_vscale Fth). unfold vnth. ring.
Qed.

Lemma interp_coeff nodes (y : list F) p :
  nth p (interp nodes y) o0 = sumf (fun j => nth j y o0 *! nth p (lagrange nodes j) o0) (seq 0 (length nodes)).
Proof. unfold interp. rewrite interp_fold_coeff. destruct p; cbn [nth]; ring. Qed.

(* polyval as a power sum of the coefficients *)
Lemma polyval_sumf (c : list F) (x : F) :
  polyval c x = sumf (fun p => nth p c o0 *! opow x p) (seq 0 (length c)).
Proof.
  assert (G : forall a, polyval c x *! opow x a = sumf (fun p => nth (p - a) c o0 *! opow x p) (seq a (length c))).
  { induction c as [|c0 c IH]; intro a; cbn [polyval length seq sumf]; [ring|].
    rewrite Nat.sub_diag. cbn [nth].
    replace ((c0 +! x *! polyval c x) *! opow x a) with (c0 *! opow x a +! polyval c x *! opow x (S a))
      by (cbn [opow]; ring).
    rewrite (IH (S a)). f_equal. apply sumf_ext. intros p Hp. apply in_seq in Hp.
    replace (p - a) with (S (p - S a)) by lia. reflexivity. }
  pose proof (G 0) as H. cbn [opow] in H.
  transitivity (polyval c x *! o1); [ring|]. rewrite H. apply sumf_ext. intros p _. rewrite Nat.sub_0_r. reflexivity.
Qed.

Lemma opow_mul (a b : F) n : opow (a *! b) n = opow a n *! opow b n.
Proof. induction n as [|n IH]; cbn [opow]; [ring|rewrite IH; ring]. Qed.

(* component i of the dense output at local time dt*s is the interpolant of the i-th components at s *)
Theorem dense_cols_value (nodes : list F) (dt s : F) (Xs : list (list F)) i :
  dt <> o0 -> length Xs = length nodes ->
  vnth (dense_eval (dense_cols nodes dt Xs) (dt *! s)) i
  = polyval (interp nodes (map (fun X => vnth X i) Xs)) s.
Proof.
  intros Hdt Hlen. unfold dense_eval.
  rewrite (vnth_vlincomb Fth), lin_at_powers.
  assert (Lc : length (dense_cols nodes dt Xs) = length nodes) by (unfold dense_cols; rewrite map_length, seq_length; reflexivity).
  rewrite Lc.
  set (y := map (fun X => vnth X i) Xs).
  assert (Hy : forall j, j < length nodes -> nth j y o0 = vnth (nth j Xs []) i).
  { intros j Hj. unfold y. rewrite (nth_indep _ o0 ((fun X => vnth X i) [])) by (rewrite map_length; lia).
    apply (map_nth (fun X => vnth X i)). }
  (* left-hand side as a double sum *)
  transitivity (sumf (fun p => sumf (fun j => opow s p *! (nth j y o0 *! nth p (lagrange nodes j) o0)) (seq 0 (length nodes)))
                     (seq 0 (length nodes))).
  - apply sumf_ext. intros p Hp. apply in_seq in Hp.
    unfold dense_cols. rewrite (nth_map_seq _ _ 0 p []) by lia. cbn [Nat.add].
    rewrite (vnth_vlincomb Fth). rewrite <- Hlen at 1.
    rewrite (lin_at_sumf (fun j => nth p (lagrange nodes j) o0 /! opow dt p) Xs i 0).
    rewrite Hlen. rewrite <- sumf_scale. apply sumf_ext. intros j Hj. apply in_seq in Hj.
    rewrite Nat.sub_0_r, <- Hy by lia. rewrite opow_mul.
    assert (Hp' : opow dt p <> o0) by (apply (opow_nz Fth); exact Hdt).
    field. exact Hp'.
  - (* right-hand side *)
    rewrite polyval_sumf.
    assert (Li : forall p, length nodes <= p -> nth p (interp nodes y) o0 = o0).
    { intros p Hp. apply nth_overflow. pose proof (interp_length nodes y). lia. }
    transitivity (sumf (fun p => nth p (interp nodes y) o0 *! opow s p) (seq 0 (length nodes))).
    + apply sumf_ext. intros p _. rewrite interp_coeff.
      rewrite (sumf_scale (opow s p) (fun j => nth j y o0 *! nth p (lagrange nodes j) o0)). ring.
    + (* sums over seq 0 (length nodes) and seq 0 (length interp) agree: the tail coefficients vanish *)
      pose proof (interp_length nodes y) as Hl.
      assert (G : forall n m, m <= n -> (forall p, m <= p -> nth p (interp nodes y) o0 = o0) ->
                 sumf (fun p => nth p (interp nodes y) o0 *! opow s p) (seq 0 n)
                 = sumf (fun p => nth p (interp nodes y) o0 *! opow s p) (seq 0 m)).
      { intros n m Hmn Hz. replace n with (m + (n - m)) by lia. rewrite seq_app.
        assert (A : forall (f : nat -> F) a b, sumf f (a ++ b) = sumf f a +! sumf f b).
        { intros f a b. induction a as [|x a IHa]; cbn [app sumf]; [ring|rewrite IHa; ring]. }
        rewrite A.
        assert (Z : sumf (fun p => nth p (interp nodes y) o0 *! opow s p) (seq (0 + m) (n - m)) = o0).
        { induction (seq (0 + m) (n - m)) as [|q qs IHq] eqn:E in |- *; [reflexivity|]. clear IHq.
          assert (Hq : forall q', In q' (q :: qs) -> m <= q') by (intros q' Hq'; rewrite <- E in Hq'; apply in_seq in Hq'; lia).
          clear E. induction (q :: qs) as [|r rs IHr]; [reflexivity|]. cbn [sumf].
          rewrite (Hz r) by (apply Hq; left; reflexivity). rewrite IHr by (intros q' Hq'; apply Hq; right; exact Hq'). ring. }
        rewrite Z. ring. }
      apply (G (length nodes) (length (interp nodes y)) Hl).
      intros p Hp. apply nth_overflow. exact Hp.
Qed.

(* hence the dense output passes through the states of the step *)
Theorem dense_cols_interpolates (nodes : list F) (dt : F) (Xs : list (list F)) m i :
  distinct nodes -> dt <> o0 -> length Xs = length nodes -> m < length nodes ->
  vnth (dense_eval (dense_cols nodes dt Xs) (dt *! nth m nodes o0)) i = vnth (nth m Xs []) i.
Proof.
  intros Hd Hdt Hlen Hm.
  rewrite dense_cols_value by assumption.
  rewrite (interp_at_node Fth) by assumption.
  rewrite (nth_indep _ o0 ((fun X => vnth X i) [])) by (rewrite map_length; lia).
  apply (map_nth (fun X => vnth X i)).
Qed.

End DenseDC.

(* ---- the model's L_poly is exactly these columns *)
From RV Require Import Expr Rows Ocp Mech.Grid Mech.Sampling Mech.Shooting Mech.Colloc.

Section DenseDCModel.
Context {F : Type} {OF : Ops F}.

Lemma dc_poly_is_dense_cols (oc : ocp) (pt : point F) :
  L_poly (dc_lists oc pt) =
  map (fun ki => dense_cols (tau_root (map of_Q (m_tau (o_method oc)))) (dt_k oc pt (fst ki))
                            (Xc_full pt (fst ki) (snd ki)))
      (steps oc).
Proof. reflexivity. Qed.

End DenseDCModel.
