(* C04: the Python-indexed environments of eval_at_control/_eval_at_control are the
   node environments of the specification, offsets are placed iff they stay inside
   the horizon, and the placement loops produce exactly one instance per node. *)
From Coq Require Import ZArith QArith List Field Lia Bool Permutation.
From RV Require Import Base.Num Base.PyList Base.Vec Expr Ocp Rows Mech.Grid Mech.Sampling
     Spec.SpecPlace Proofs.NumLemmas Proofs.ListLemmas Proofs.PyLemmas Proofs.GridLemmas.
Import ListNotations.
Local Open Scope nat_scope.

Section PlaceProofs.
Context {F : Type} {OF : Ops F}.
Hypothesis Fth : field_theory o0 o1 oadd omul osub oopp odiv oinv (@eq F).
Hypothesis Ch0 : @Char0 F OF.

Variable L : mlists F.
Hypothesis W : wf_lists L.
Notation N := (L_N L).
Notation M := (L_M L).

Lemma colget_nat (cols : list (list F)) k : k < length cols ->
  colget cols (Z.of_nat k) = nth k cols [].
Proof. intro H. unfold colget. apply pygetd_nat. exact H. Qed.

Lemma colget_last (cols : list (list F)) : 1 <= length cols ->
  colget cols (-1) = nth (length cols - 1) cols [].
Proof. intro H. unfold colget. apply pygetd_m1. exact H. Qed.

Lemma node_iv_lt k : k < N -> node_iv N k = k.
Proof. intro H. unfold node_iv. lia. Qed.

Lemma node_iv_N : node_iv N N = N - 1.
Proof. unfold node_iv. lia. Qed.

Lemma DTc_nat k : k < N ->
  get_DT_control_at (L_cg L) N (Z.of_nat k) = nth (S k) (L_cg L) o0 -! nth k (L_cg L) o0.
Proof.
  intro H. destruct W. unfold get_DT_control_at.
  destruct ((Z.of_nat k =? -1)%Z || (Z.of_nat k =? Z.of_nat N)%Z) eqn:E.
  - apply orb_true_iff in E. destruct E as [E|E]; [apply Z.eqb_eq in E|apply Z.eqb_eq in E]; lia.
  - replace (Z.of_nat k + 1)%Z with (Z.of_nat (S k)) by lia.
    rewrite !pygetd_nat by (rewrite wf_cg; lia). reflexivity.
Qed.

Lemma DTc_final (kz : Z) : (kz = -1 \/ kz = Z.of_nat N)%Z ->
  get_DT_control_at (L_cg L) N kz = nth N (L_cg L) o0 -! nth (N - 1) (L_cg L) o0.
Proof.
  intro H. destruct W. unfold get_DT_control_at.
  assert (E : ((kz =? -1)%Z || (kz =? Z.of_nat N)%Z) = true).
  { apply orb_true_iff. destruct H as [->| ->]; [left|right]; apply Z.eqb_refl. }
  rewrite E, pygetd_m1, pygetd_m2 by (rewrite wf_cg; lia).
  rewrite wf_cg. f_equal; f_equal; lia.
Qed.

(* eval_at_control(expr, k), k < N: the environment of node k *)
Theorem env_control_node k : k < N -> env_control L (Z.of_nat k) = spec_env_node L k.
Proof.
  intro Hk. pose proof W as W'. destruct W'.
  unfold env_control, spec_env_node. rewrite (node_iv_lt k Hk).
  rewrite !colget_nat by lia.
  rewrite pygetd_nat by lia.
  rewrite (DTc_nat k Hk).
  assert (Ek : (Z.of_nat k =? -1)%Z = false) by (apply Z.eqb_neq; lia).
  rewrite Ek, wf_ig.
  rewrite (get_DT_at_spec Fth Ch0 (L_cg L) N M wf_M k 0 Hk wf_M).
  reflexivity.
Qed.

(* eval_at_control(expr, -1): the environment of the final node N *)
Theorem env_control_final : env_control L (-1) = spec_env_node L N.
Proof.
  pose proof W as W'. destruct W'.
  unfold env_control, spec_env_node. rewrite node_iv_N.
  rewrite !colget_last by lia.
  rewrite pygetd_m1 by lia.
  rewrite (DTc_final (-1)) by (left; reflexivity).
  rewrite wf_X, wf_U, wf_Z, wf_Q, wf_PC, wf_PP, wf_VC, wf_VP, wf_cg.
  replace (S N - 1) with N by lia.
  replace (S (N - 1)) with N by lia.
  change ((-1 =? -1)%Z) with true. cbv iota. rewrite wf_ig.
  rewrite (get_DT_at_final Fth Ch0 (L_cg L) N M wf_M wf_N).
  reflexivity.
Qed.

(* _eval_at_control(expr, j) for a node j in 0..N *)
Theorem env_inner_node j : j <= N -> env_inner L (Z.of_nat j) = spec_env_node L j.
Proof.
  intro Hj. pose proof W as W'. destruct W'.
  unfold env_inner, spec_env_node. rewrite wf_U.
  assert (Hig : length (L_ig L) = N) by (rewrite wf_ig; apply ig_length).
  rewrite Hig.
  destruct (Nat.eq_dec j N) as [->|Hne].
  - rewrite Z.eqb_refl, node_iv_N.
    rewrite !colget_last by lia.
    replace (Z.of_nat N - 1)%Z with (Z.of_nat (N - 1)) by lia.
    rewrite !colget_nat by lia.
    rewrite pygetd_nat by lia.
    rewrite (DTc_final (Z.of_nat N)) by (right; reflexivity).
    rewrite wf_U.
    replace (S (N - 1)) with N by lia.
    rewrite orb_true_r.
    replace (Z.of_nat N - 1)%Z with (Z.of_nat (N - 1)) by lia.
    rewrite wf_ig.
    rewrite (get_DT_at_spec Fth Ch0 (L_cg L) N M wf_M (N - 1) (M - 1)) by lia.
    unfold tk. replace (S (N - 1)) with N by lia. reflexivity.
  - assert (Hlt : j < N) by lia.
    assert (E : (Z.of_nat j =? Z.of_nat N)%Z = false) by (apply Z.eqb_neq; lia).
    assert (E1 : (Z.of_nat j =? -1)%Z = false) by (apply Z.eqb_neq; lia).
    rewrite E, E1. cbn [orb]. rewrite (node_iv_lt j Hlt).
    rewrite !colget_nat by lia.
    rewrite pygetd_nat by lia.
    rewrite (DTc_nat j Hlt).
    rewrite wf_ig.
    rewrite (get_DT_at_spec Fth Ch0 (L_cg L) N M wf_M j 0 Hlt wf_M).
    reflexivity.
Qed.

(* IndexError conditions = staying inside the horizon *)
Lemma offset_ok_node k n : k < N -> offset_ok L (Z.of_nat k) n = shift_ok N k n.
Proof.
  intro Hk. destruct W. unfold offset_ok, shift_ok, knode.
  assert (E1 : (Z.of_nat k =? -1)%Z = false) by (apply Z.eqb_neq; lia).
  rewrite E1. cbn [andb negb]. rewrite wf_X.
  destruct (0 <=? Z.of_nat k + n)%Z; cbn [andb]; [|reflexivity].
  destruct (Z.of_nat k + n <? Z.of_nat (S N))%Z eqn:A, (Z.of_nat k + n <=? Z.of_nat N)%Z eqn:B;
    try reflexivity.
  - apply Z.ltb_lt in A. apply Z.leb_gt in B. lia.
  - apply Z.ltb_ge in A. apply Z.leb_le in B. lia.
Qed.

Lemma offset_ok_final n : offset_ok L (-1) n = shift_ok N N n.
Proof.
  destruct W. unfold offset_ok, shift_ok, knode. rewrite wf_X.
  change ((-1 =? -1)%Z) with true. cbn [andb]. cbv iota.
  destruct (0 <? n)%Z eqn:Epos.
  - apply Z.ltb_lt in Epos. cbn [negb andb].
    destruct (0 <=? Z.of_nat N + n)%Z eqn:A; cbn [andb]; [|reflexivity].
    symmetry. apply Z.leb_gt. lia.
  - apply Z.ltb_ge in Epos. cbn [negb andb].
    destruct (0 <=? Z.of_nat N + n)%Z; cbn [andb]; [|reflexivity].
    destruct (Z.of_nat N + n <? Z.of_nat (S N))%Z eqn:A, (Z.of_nat N + n <=? Z.of_nat N)%Z eqn:B;
      try reflexivity.
    + apply Z.leb_gt in B. lia.
    + apply Z.ltb_ge in A. lia.
Qed.

(* evaluation only looks at the offset environments of the offsets that occur *)
Lemma eval_off_ext (en : env F) (off1 off2 : Z -> env F) (e : expr) :
  (forall n, In n (offsets e) -> off1 n = off2 n) ->
  eval en off1 e = eval en off2 e.
Proof.
  revert en. induction e as [q|s|a IHa b IHb|a IHa b IHb|a IHa b IHb|a IHa b IHb|a IHa|a IHa m|n a IHa];
    intros en H; cbn [eval offsets] in *;
    try reflexivity;
    try (rewrite IHa, IHb; [reflexivity| |]; intros n Hn; apply H; apply in_or_app; auto);
    try (rewrite IHa; [reflexivity|exact H]).
  rewrite (H n) by (left; reflexivity).
  apply IHa. intros m Hm. apply H. right. exact Hm.
Qed.

Lemma forallb_ext_in {A} (f g : A -> bool) l :
  (forall x, In x l -> f x = g x) -> forallb f l = forallb g l.
Proof.
  induction l as [|x l IH]; intro H; [reflexivity|]. cbn [forallb].
  rewrite (H x) by (left; reflexivity). rewrite IH; [reflexivity|].
  intros y Hy. apply H. right. exact Hy.
Qed.

(* a declared constraint is well formed when its group offsets cover its operands' *)
Definition wf_constr (c : constr) : Prop :=
  incl (offsets (c_lhs c)) (c_goffs c) /\ incl (offsets (c_rhs c)) (c_goffs c).

(* evaluation at node k < N *)
Lemma eval_control_node k e offs :
  k < N -> incl (offsets e) offs -> forallb (shift_ok N k) offs = true ->
  eval_control L (Z.of_nat k) e = spec_eval_node L k e.
Proof.
  intros Hk Hi Hok. unfold eval_control, spec_eval_node.
  rewrite (env_control_node k Hk).
  apply eval_off_ext. intros n Hn.
  assert (Hs : shift_ok N k n = true).
  { rewrite forallb_forall in Hok. apply Hok. apply Hi. exact Hn. }
  unfold shift_ok in Hs. apply andb_true_iff in Hs. destruct Hs as [H0 H1].
  apply Z.leb_le in H0. apply Z.leb_le in H1.
  unfold knode. assert (E : (Z.of_nat k =? -1)%Z = false) by (apply Z.eqb_neq; lia).
  rewrite E.
  rewrite <- (Z2Nat.id (Z.of_nat k + n)) at 1 by lia.
  apply env_inner_node. lia.
Qed.

(* evaluation at the final node *)
Lemma eval_control_final e offs :
  incl (offsets e) offs -> forallb (shift_ok N N) offs = true ->
  eval_control L (-1) e = spec_eval_node L N e.
Proof.
  intros Hi Hok. unfold eval_control, spec_eval_node.
  rewrite env_control_final.
  apply eval_off_ext. intros n Hn.
  assert (Hs : shift_ok N N n = true).
  { rewrite forallb_forall in Hok. apply Hok. apply Hi. exact Hn. }
  unfold shift_ok in Hs. apply andb_true_iff in Hs. destruct Hs as [H0 H1].
  apply Z.leb_le in H0. apply Z.leb_le in H1.
  unfold knode. change ((-1 =? -1)%Z) with true. cbv iota.
  rewrite <- (Z2Nat.id (Z.of_nat N + n)) at 1 by lia.
  apply env_inner_node. lia.
Qed.

(* the rows rockit places for one control-grid constraint: the loop over k, then the
   include_last pass at k = -1 *)
Definition mech_control_rows (c : constr) : list (row F) :=
  flat_map (fun k => control_rows_at L [c] k) (seq 0 N)
  ++ last_rows L [c].

Theorem control_rows_spec (c : constr) :
  wf_constr c -> mech_control_rows c = spec_control_rows L c.
Proof.
  intros (Hl & Hr). unfold mech_control_rows, spec_control_rows.
  rewrite seq_S, flat_map_app. cbn [plus flat_map]. rewrite app_nil_r.
  f_equal.
  - apply flat_map_ext_in. intros k Hk. apply in_seq in Hk.
    assert (HkN : k < N) by lia.
    unfold control_rows_at. cbn [flat_map]. rewrite app_nil_r.
    unfold spec_rows_node, node_included.
    assert (EN : (k =? N) = false) by (apply Nat.eqb_neq; lia).
    rewrite EN. cbn [andb negb]. rewrite andb_true_r.
    destruct ((k =? 0) && negb (c_first c)); cbn [negb andb]; [reflexivity|].
    unfold row_at_control, placeable_offs.
    rewrite (forallb_ext_in (offset_ok L (Z.of_nat k)) (shift_ok N k))
      by (intros n _; apply offset_ok_node; exact HkN).
    destruct (forallb (shift_ok N k) (c_goffs c)) eqn:E; [|reflexivity].
    rewrite (eval_control_node k (c_lhs c) (c_goffs c) HkN Hl E).
    rewrite (eval_control_node k (c_rhs c) (c_goffs c) HkN Hr E).
    reflexivity.
  - unfold last_rows. cbn [flat_map]. rewrite app_nil_r.
    unfold spec_rows_node, node_included.
    destruct W. rewrite Nat.eqb_refl.
    assert (E0 : (N =? 0) = false) by (apply Nat.eqb_neq; lia).
    rewrite E0. cbn [andb negb].
    destruct (c_last c); cbn [negb andb]; [|reflexivity].
    unfold row_at_control, placeable_offs.
    rewrite (forallb_ext_in (offset_ok L (-1)) (shift_ok N N))
      by (intros n _; apply offset_ok_final).
    destruct (forallb (shift_ok N N) (c_goffs c)) eqn:E; [|reflexivity].
    rewrite (eval_control_final (c_lhs c) (c_goffs c) Hl E).
    rewrite (eval_control_final (c_rhs c) (c_goffs c) Hr E).
    reflexivity.
Qed.

(* number of instances: one per included node whose shifted operands stay inside *)
Theorem control_rows_count (c : constr) :
  wf_constr c ->
  length (mech_control_rows c) =
  length (filter (fun k => node_included N c k && forallb (shift_ok N k) (c_goffs c))
                 (seq 0 (S N))).
Proof.
  intro Hc. rewrite (control_rows_spec c Hc). unfold spec_control_rows.
  induction (seq 0 (S N)) as [|k l IH]; [reflexivity|].
  cbn [flat_map filter]. rewrite app_length, IH. unfold spec_rows_node.
  destruct (node_included N c k && forallb (shift_ok N k) (c_goffs c)); reflexivity.
Qed.

(* all control-grid constraints of a stage: the interleaved placement of the method loops is
   a permutation of "every constraint once per node" *)
Theorem control_placement_perm (cs : list constr) :
  Forall wf_constr cs ->
  Permutation (flat_map (fun k => control_rows_at L cs k) (seq 0 N) ++ last_rows L cs)
              (flat_map (spec_control_rows L) cs).
Proof.
  intro Hcs.
  assert (E : flat_map (spec_control_rows L) cs = flat_map mech_control_rows cs).
  { apply flat_map_ext_in. intros c Hc. symmetry. apply control_rows_spec.
    rewrite Forall_forall in Hcs. apply Hcs. exact Hc. }
  rewrite E. unfold mech_control_rows.
  eapply Permutation_trans; [|apply flat_map_app_perm].
  apply Permutation_app.
  - unfold control_rows_at.
    eapply Permutation_trans; [apply flat_map_swap|].
    apply Permutation_refl'. apply flat_map_ext_in. intros c _.
    apply flat_map_ext_in. intros k _. cbn [flat_map]. rewrite app_nil_r. reflexivity.
  - unfold last_rows. apply Permutation_refl'. apply flat_map_ext_in. intros c _.
    cbn [flat_map]. rewrite app_nil_r. reflexivity.
Qed.

(* sense and bounds: an equality row vanishes exactly when both sides agree *)
Lemma crow_eq_iff kd c p (a b : F) :
  c_rel c = REq -> of_Q (c_scale c) <> (o0 : F) ->
  (rw_sense (crow kd c p a b) = SEq /\ (rw_h (crow kd c p a b) = o0 <-> a = b)).
Proof.
  intros Hr Hs. unfold crow. cbn [rw_sense rw_h]. rewrite Hr. split; [reflexivity|].
  rewrite (div_zero_iff Fth _ _ Hs). apply (sub_zero_iff Fth).
Qed.

End PlaceProofs.
