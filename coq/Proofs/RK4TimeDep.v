(* C03 (continued): a genuinely TIME-DEPENDENT right-hand side.  intg_rk evaluates the right-hand side at the
   absolute stage times t, t + h/2, t + h/2, t + h.  For x' = phi(t) (no state dependence),
   sys = mkSys (fun X t => [phi t]) (fun _ _ => []), the model's step is Simpson's rule
   a + h/6 (phi t + 4 phi (t + h/2) + phi (t + h)) (simpson_model_next), and every entry j <= M of the Xi output
   of discrete_system (intg_rk sys) is within (T * K4 * 49 / 2880) h^4 of x0 + RInt phi t0 (t0 + j h), h = T/M,
   for phi four times differentiable with |phi''''| <= K4 on [t0, t0+T] (rk4_time_quadrature_order4).
   (The constant 49/2880 = 1/120 + 5/576 comes from Taylor expansion about the left end point; the sharp
   Simpson constant is 1/2880.)
   Proof: taylor5 (RK4Order4.v) for the antiderivative A t = RInt phi t0 t, taylor4 for phi at t + h/2 and
   t + h, and a sum over the steps. *)
From Coq Require Import Reals ZArith QArith List Lia Lra.
From Coquelicot Require Import Coquelicot.
From RV Require Import Base.Num Base.Vec Mech.Intg Spec.SpecDyn Proofs.NumLemmas Proofs.VecLemmas Proofs.DynProofs Proofs.DerProofs Proofs.SplineDerReal Proofs.ConvProofs Proofs.ConvReal Proofs.EulerConv Proofs.EulerConvVec Proofs.RK4Conv Proofs.RK4Order4.
Import ListNotations.
Local Open Scope R_scope.

Definition simpson_step (phi : R -> R) (t h : R) : R :=
  h / 6 * (phi t + 2 * phi (t + h / 2) + 2 * phi (t + h / 2) + phi (t + h)).

Lemma simpson_model_next (phi : R -> R) a t h :
  rk_next (fun (_ : list R) (s : R) => [phi s]) [a] t h = [a + simpson_step phi t h].
Proof. reflexivity. Qed.

Lemma simpson_step_eq phi t h : simpson_step phi t h = h / 6 * (phi t + 4 * phi (t + h / 2) + phi (t + h)).
Proof. unfold simpson_step. field. Qed.

Fixpoint simpson_sum (phi : R -> R) (t0 h : R) (j : nat) (y0 : R) : R :=
  match j with
  | O => y0
  | S j' => simpson_sum phi t0 h j' y0 + simpson_step phi (t0 + INR j' * h) h
  end.

Lemma simpson_model (phi : R -> R) t0 h j y0 :
  vrk4 (fun (_ : list R) (s : R) => [phi s]) t0 h j [y0] = [simpson_sum phi t0 h j y0].
Proof.
  induction j as [|j IH]; cbn [vrk4 simpson_sum]; [reflexivity|]. rewrite IH. apply simpson_model_next.
Qed.

(* one step of Simpson's rule against an antiderivative *)
Lemma simpson_local (A phi : R -> R) (a h K4 : R) :
  0 < h ->
  (forall t, is_derive A t (phi t)) ->
  (forall t k, (k <= 4)%nat -> ex_derive_n phi k t) ->
  (forall t, a <= t <= a + h -> Rabs (Derive_n phi 4 t) <= K4) ->
  Rabs (simpson_step phi a h - (A (a + h) - A a)) <= K4 * (49 / 2880) * h ^ 5.
Proof.
  intros Hh HA Hex HK.
  pose proof (Derive_n_step A A phi 0 (fun s => eq_refl) HA) as S1.
  assert (Dphi : forall k t, (k < 4)%nat -> is_derive (Derive_n phi k) t (Derive_n phi (S k) t)).
  { intros k t Hk. apply Derive_correct. apply (Hex t (S k)). lia. }
  pose proof (Derive_n_step A phi (Derive_n phi 1) 1 (fun s => proj2 (S1 s)) (fun t => Dphi 0%nat t ltac:(lia))) as S2.
  pose proof (Derive_n_step A (Derive_n phi 1) (Derive_n phi 2) 2 (fun s => proj2 (S2 s)) (fun t => Dphi 1%nat t ltac:(lia))) as S3.
  pose proof (Derive_n_step A (Derive_n phi 2) (Derive_n phi 3) 3 (fun s => proj2 (S3 s)) (fun t => Dphi 2%nat t ltac:(lia))) as S4.
  pose proof (Derive_n_step A (Derive_n phi 3) (Derive_n phi 4) 4 (fun s => proj2 (S4 s)) (fun t => Dphi 3%nat t ltac:(lia))) as S5.
  assert (TA : Rabs (A (a + h) - A a - h * Derive_n A 1 a - h ^ 2 / 2 * Derive_n A 2 a - h ^ 3 / 6 * Derive_n A 3 a
                     - h ^ 4 / 24 * Derive_n A 4 a) <= K4 / 120 * h ^ 5).
  { apply taylor5; [exact Hh| |].
    - intros t k _ Hk. destruct k as [|[|[|[|[|[|k]]]]]]; [exact I|apply S1|apply S2|apply S3|apply S4|apply S5|lia].
    - intros t Ht. rewrite (proj2 (S5 t)). apply HK. exact Ht. }
  rewrite (proj2 (S1 a)), (proj2 (S2 a)), (proj2 (S3 a)), (proj2 (S4 a)) in TA.
  assert (T1 : Rabs (phi (a + h / 2) - (phi a + h / 2 * Derive_n phi 1 a + (h / 2) ^ 2 / 2 * Derive_n phi 2 a
                                        + (h / 2) ^ 3 / 6 * Derive_n phi 3 a)) <= K4 / 24 * (h / 2) ^ 4).
  { apply taylor4; [lra|intros t k _ Hk; apply Hex; exact Hk|intros t Ht; apply HK; lra]. }
  assert (T2 : Rabs (phi (a + h) - (phi a + h * Derive_n phi 1 a + h ^ 2 / 2 * Derive_n phi 2 a
                                    + h ^ 3 / 6 * Derive_n phi 3 a)) <= K4 / 24 * h ^ 4).
  { apply taylor4; [lra|intros t k _ Hk; apply Hex; exact Hk|intros t Ht; apply HK; lra]. }
  set (d1 := Derive_n phi 1 a) in *. set (d2 := Derive_n phi 2 a) in *. set (d3 := Derive_n phi 3 a) in *.
  set (r1 := phi (a + h / 2) - (phi a + h / 2 * d1 + (h / 2) ^ 2 / 2 * d2 + (h / 2) ^ 3 / 6 * d3)) in *.
  set (r2 := phi (a + h) - (phi a + h * d1 + h ^ 2 / 2 * d2 + h ^ 3 / 6 * d3)) in *.
  set (rA := A (a + h) - A a - h * phi a - h ^ 2 / 2 * d1 - h ^ 3 / 6 * d2 - h ^ 4 / 24 * d3) in *.
  replace (simpson_step phi a h - (A (a + h) - A a)) with (h / 6 * (4 * r1 + r2) + - rA)
    by (unfold simpson_step, r1, r2, rA; field).
  assert (Hh' : Rabs h <= h) by (rewrite Rabs_pos_eq; lra).
  eapply Rle_trans; [apply Rabs_triang|]. rewrite Rabs_Ropp.
  eapply Rle_trans; [apply Rplus_le_compat; [absb|exact TA]|].
  apply Req_le. field.
Qed.

Theorem rk4_time_quadrature_order4 (phi : R -> R) (x0 t0 T K4 : R) (M : nat) :
  0 < T -> (0 < M)%nat ->
  (forall t k, (k <= 4)%nat -> ex_derive_n phi k t) ->
  (forall t, t0 <= t <= t0 + T -> Rabs (Derive_n phi 4 t) <= K4) ->
  let h := T / INR M in
  let sys := mkSys (fun (_ : list R) (t : R) => [phi t]) (fun _ _ => []) in
  let st := @discrete_system R ROps (intg_rk sys) M 0 [x0] T t0 in
  forall j, (j <= M)%nat ->
    Rabs (nth 0 (nth j (ds_X st) [x0]) 0 - (x0 + RInt phi t0 (t0 + INR j * h)))
    <= (T * K4 * (49 / 2880)) * h ^ 4.
Proof.
  intros HT HM Hex HK h sys st j Hj.
  assert (HMr : 0 < INR M) by (apply lt_0_INR; exact HM).
  assert (Hh : 0 < h) by (apply Rdiv_lt_0_compat; assumption).
  assert (HK0 : 0 <= K4) by (eapply Rle_trans; [apply Rabs_pos|apply (HK t0); lra]).
  assert (Hphi : forall t, ex_derive phi t) by (intro t; apply (Hex t 1%nat); lia).
  set (A := fun t => RInt phi t0 t).
  assert (HA : forall t, is_derive A t (phi t)).
  { intro t. apply (is_derive_RInt phi A t0 t).
    - apply filter_forall. intro b. apply (@RInt_correct R_CompleteNormedModule).
      apply (@ex_RInt_continuous R_CompleteNormedModule). intros z _.
      apply (ex_derive_continuous phi z). apply Hphi.
    - apply (ex_derive_continuous phi t). apply Hphi. }
  subst st. rewrite (discrete_system_Xi R_field_laws) by exact Hj.
  change (@odiv R ROps T (@of_nat R ROps M)) with (T / @of_nat R ROps M).
  rewrite of_nat_R. fold h. rewrite rk4_model_iter_vec.
  change (s_ode sys) with (fun (_ : list R) (s : R) => [phi s]). rewrite simpson_model. cbn [nth].
  fold (A (t0 + INR j * h)).
  set (c := K4 * (49 / 2880)).
  assert (Hc : 0 <= c) by (unfold c; apply Rmult_le_pos; lra).
  assert (Hind : forall k, (k <= M)%nat ->
            Rabs (simpson_sum phi t0 h k x0 - (x0 + A (t0 + INR k * h))) <= INR k * (c * h ^ 5)).
  { induction k as [|k IH]; intro Hk.
    - unfold A. cbn [simpson_sum INR]. rewrite !Rmult_0_l, Rplus_0_r.
      rewrite RInt_point. unfold zero. cbn.
      replace (x0 - (x0 + 0)) with 0 by ring. rewrite Rabs_R0. lra.
    - specialize (IH ltac:(lia)).
      set (tk := t0 + INR k * h) in *.
      pose proof (grid_le T M k HT HM ltac:(lia)) as Gk. fold h in Gk.
      pose proof (grid_le T M (S k) HT HM Hk) as Gk1. fold h in Gk1.
      rewrite S_INR in Gk1.
      replace (t0 + INR (S k) * h) with (tk + h) by (rewrite S_INR; unfold tk; ring).
      cbn [simpson_sum]. fold tk.
      assert (Loc : Rabs (simpson_step phi tk h - (A (tk + h) - A tk)) <= c * h ^ 5).
      { unfold c. apply simpson_local; [exact Hh|exact HA|exact Hex|].
        intros t Ht. apply HK. unfold tk in *. lra. }
      set (s := simpson_sum phi t0 h k x0) in *. set (q := simpson_step phi tk h) in *.
      replace (s + q - (x0 + A (tk + h))) with ((s - (x0 + A tk)) + (q - (A (tk + h) - A tk))) by ring.
      eapply Rle_trans; [apply Rabs_triang|]. rewrite S_INR. lra. }
  eapply Rle_trans; [apply (Hind j Hj)|].
  pose proof (grid_le T M j HT HM Hj) as Gj. fold h in Gj.
  replace (INR j * (c * h ^ 5)) with ((INR j * h) * (c * h ^ 4)) by ring.
  replace (T * K4 * (49 / 2880) * h ^ 4) with (T * (c * h ^ 4)) by (unfold c; ring).
  apply Rmult_le_compat_r; [|lra].
  apply Rmult_le_pos; [exact Hc|apply pow_le; lra].
Qed.

(* satisfiable: phi = cos, x0 = sin t0: the model integrates to sin (t0 + j h); K4 = 1 *)
Lemma cos_derivs s :
  (forall k, (k <= 4)%nat -> ex_derive_n cos k s) /\ Derive_n cos 4 s = cos s.
Proof.
  pose proof (Derive_n_step cos cos (fun t => - sin t) 0 (fun s => eq_refl) is_derive_cos) as S1.
  assert (D2 : forall t, is_derive (fun t => - sin t) t (- cos t)) by (intro t; auto_derive; [exact I|ring]).
  pose proof (Derive_n_step cos (fun t => - sin t) (fun t => - cos t) 1 (fun s => proj2 (S1 s)) D2) as S2.
  assert (D3 : forall t, is_derive (fun t => - cos t) t (sin t)) by (intro t; auto_derive; [exact I|ring]).
  pose proof (Derive_n_step cos (fun t => - cos t) sin 2 (fun s => proj2 (S2 s)) D3) as S3.
  pose proof (Derive_n_step cos sin cos 3 (fun s => proj2 (S3 s)) is_derive_sin) as S4.
  split; [|apply S4].
  intros k Hk. destruct k as [|[|[|[|[|k]]]]]; [exact I|apply S1|apply S2|apply S3|apply S4|lia].
Qed.

Example rk4_time_quadrature_cos (t0 T : R) (M : nat) :
  0 < T -> (0 < M)%nat ->
  let h := T / INR M in
  let sys := mkSys (fun (_ : list R) (t : R) => [cos t]) (fun _ _ => []) in
  let st := @discrete_system R ROps (intg_rk sys) M 0 [sin t0] T t0 in
  forall j, (j <= M)%nat ->
    Rabs (nth 0 (nth j (ds_X st) [sin t0]) 0 - sin (t0 + INR j * h)) <= (T * 1 * (49 / 2880)) * h ^ 4.
Proof.
  intros HT HM h sys st j Hj.
  replace (sin (t0 + INR j * h)) with (sin t0 + RInt cos t0 (t0 + INR j * h)).
  - apply (rk4_time_quadrature_order4 cos (sin t0) t0 T 1 M HT HM); [| |exact Hj].
    + intros t k Hk. apply (proj1 (cos_derivs t)). exact Hk.
    + intros t _. rewrite (proj2 (cos_derivs t)). apply abs_cos_le.
  - assert (E : RInt cos t0 (t0 + INR j * h) = sin (t0 + INR j * h) - sin t0).
    { apply is_RInt_unique. apply (is_RInt_derive sin cos).
      - intros t _. apply is_derive_sin.
      - intros t _. apply (ex_derive_continuous cos t). exists (- sin t). apply is_derive_cos. }
    rewrite E. ring.
Qed.

Print Assumptions rk4_time_quadrature_order4.
Print Assumptions rk4_time_quadrature_cos.
