(* Python indexing lemmas: nonnegative indices are nth, -1 is the last entry. *)
From Coq Require Import ZArith List Lia.
From RV Require Import Base.PyList.
Import ListNotations.

Section PyLemmas.
Context {A : Type}.

Lemma pyget_nat (l : list A) k : k < length l -> pyget l (Z.of_nat k) = nth_error l k.
Proof.
  intro H. unfold pyget.
  destruct (0 <=? Z.of_nat k)%Z eqn:E; [|apply Z.leb_gt in E; lia].
  destruct (Z.of_nat k <? Z.of_nat (length l))%Z eqn:E2; [|apply Z.ltb_ge in E2; lia].
  rewrite Nat2Z.id. reflexivity.
Qed.

Lemma pygetd_nat d (l : list A) k : k < length l -> pygetd d l (Z.of_nat k) = nth k l d.
Proof.
  intro H. unfold pygetd. rewrite pyget_nat by exact H.
  destruct (nth_error l k) eqn:E.
  - symmetry. apply nth_error_nth. exact E.
  - apply nth_error_None in E. lia.
Qed.

Lemma pyget_neg (l : list A) (j : nat) : 1 <= j <= length l ->
  pyget l (- Z.of_nat j) = nth_error l (length l - j).
Proof.
  intro H. unfold pyget.
  destruct (0 <=? - Z.of_nat j)%Z eqn:E; [apply Z.leb_le in E; lia|].
  destruct (- Z.of_nat (length l) <=? - Z.of_nat j)%Z eqn:E2; [|apply Z.leb_gt in E2; lia].
  f_equal. lia.
Qed.

Lemma pygetd_neg d (l : list A) (j : nat) : 1 <= j <= length l ->
  pygetd d l (- Z.of_nat j) = nth (length l - j) l d.
Proof.
  intro H. unfold pygetd. rewrite pyget_neg by exact H.
  destruct (nth_error l (length l - j)) eqn:E.
  - symmetry. apply nth_error_nth. exact E.
  - apply nth_error_None in E. lia.
Qed.

Lemma pygetd_m1 d (l : list A) : 1 <= length l -> pygetd d l (-1) = nth (length l - 1) l d.
Proof. intro H. apply (pygetd_neg d l 1). lia. Qed.

Lemma pygetd_m2 d (l : list A) : 2 <= length l -> pygetd d l (-2) = nth (length l - 2) l d.
Proof. intro H. apply (pygetd_neg d l 2). lia. Qed.

Lemma pyget_oob (l : list A) k : (Z.of_nat (length l) <= k)%Z -> pyget l k = None.
Proof.
  intro H. unfold pyget.
  destruct (0 <=? k)%Z eqn:E; [|apply Z.leb_gt in E; lia].
  destruct (k <? Z.of_nat (length l))%Z eqn:E2; [apply Z.ltb_lt in E2; lia|reflexivity].
Qed.

End PyLemmas.
