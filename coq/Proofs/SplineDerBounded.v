(* C17: the list-level derivative theorem of Proofs/SplineDerList.v with a satisfiable separation hypothesis.

   spline_derivative_lists assumes  forall a b, a <= j -> j < b -> knot_fun K b -! knot_fun K a <> o0  for ALL b,
   also beyond the end of the knot list K, where knot_fun K b = o0: the hypothesis is false as soon as one of the
   knots K_0..K_j is zero (every grid that starts at t0 = 0).  Here the hypothesis only speaks about indices inside
   the list (b < length K; in fact only b <= j + d + 1, the last knot that a basis function of degree d on span j
   reads); the conclusion is the one of spline_derivative_lists, on the same model functions.
   Technique: the knot function is replaced by  k' m := k (min m (j + d + 1)), which agrees with k on all the knots
   that cdb / dcdb read (cdb_ext, dcdb_ext) and is separated for all b. *)
From Coq Require Import ZArith QArith Qcanon List Field Lia Bool.
From RV Require Import Base.Num Base.Vec Mech.Spline Inst Proofs.QcInst Proofs.NumLemmas Proofs.ListLemmas
     Proofs.SplineProofs Proofs.SplineDer Proofs.SplineDerList.
Import ListNotations.
Local Open Scope nat_scope.

Section SplineDerBounded.
Context {F : Type} {OF : Ops F}.
Hypothesis Fth : field_theory o0 o1 oadd omul osub oopp odiv oinv (@eq F).
Add Field FFsb : Fth.

(* the derivative of a basis function only reads the knots up to index j + e + 1 (like cdb_ext) *)
Lemma dcdb_ext (k k' : nat -> F) j x e :
  (forall m, m <= j + e + 1 -> k m = k' m) -> forall i, dcdb k j x e i = dcdb k' j x e i.
Proof.
  induction e as [|e' IH]; intros H i; cbn [dcdb]; [reflexivity|].
  rewrite (IH (fun m Hm => H m ltac:(lia)) i), (IH (fun m Hm => H m ltac:(lia)) (S i)).
  rewrite (cdb_ext k k' j x e' (fun m Hm => H m ltac:(lia)) i),
          (cdb_ext k k' j x e' (fun m Hm => H m ltac:(lia)) (S i)).
  destruct (Nat.leb (j - e') i && Nat.leb i j) eqn:E1; destruct (Nat.leb (j - e') (S i) && Nat.leb (S i) j) eqn:E2.
  all: try (apply andb_true_iff in E1; destruct E1 as [E1a E1b]; apply Nat.leb_le in E1a; apply Nat.leb_le in E1b).
  all: try (apply andb_true_iff in E2; destruct E2 as [E2a E2b]; apply Nat.leb_le in E2a; apply Nat.leb_le in E2b).
  all: try rewrite <- (H i) by lia; try rewrite <- (H (i + S e')) by lia;
       try rewrite <- (H (S i)) by lia; try rewrite <- (H (S (i + S e'))) by lia; reflexivity.
Qed.

(* the separation hypothesis restricted to the knots that are read: b <= j + d + 1 *)
Theorem spline_derivative_lists_tight (c xi : list F) (d' j : nat) (x : F) :
  let d := S d' in
  let K := clamped xi d in
  length c = length xi - 1 + d -> 1 <= length xi ->
  d <= j -> j < length c ->
  (forall a b, a <= j -> j < b -> b <= j + d + 1 -> knot_fun K b -! knot_fun K a <> o0) ->
  sumf (fun i => nth i c o0 *! dcdb (knot_fun K) j x d i) (length c)
  = spline_value (bspline_derivative c xi d) (basis_values (clamped xi d') d' (j - 1) x).
Proof.
  intros d K Hc Hxi Hd Hj Hsep.
  assert (Hj1 : 1 <= j) by (unfold d in Hd; lia).
  set (M := j + d + 1).
  set (k' := fun m => knot_fun K (Nat.min m M)).
  assert (Hk' : forall m, m <= M -> knot_fun K m = k' m).
  { intros m Hm. unfold k'. replace (Nat.min m M) with m by lia. reflexivity. }
  assert (Hsep' : forall a b, a <= j -> j < b -> k' b -! k' a <> o0).
  { intros a b Ha Hb. unfold k'. replace (Nat.min a M) with a by (unfold M; lia). apply Hsep; unfold M; lia. }
  rewrite (sumf_ext _ (fun i => nth i c o0 *! dcdb k' j x d i)).
  2:{ intros i _. rewrite (dcdb_ext (knot_fun K) k' j x d); [reflexivity|].
      intros m Hm. apply Hk'. unfold M. lia. }
  rewrite (spline_derivative Fth k' j x Hsep' (fun i => nth i c o0) d' (length c) Hd Hj).
  unfold spline_value, bspline_derivative, basis_values.
  assert (Hlen : length (clamped xi d') - d' - 1 = length c - 1).
  { rewrite clamped_length. unfold d in Hc. lia. }
  rewrite Hlen, (vdot_map_seq Fth).
  apply sumf_ext. intros i Hi.
  destruct (le_lt_dec j i) as [Hji|Hij].
  - (* outside the support of the lower-degree basis: both sides vanish *)
    rewrite (cdb_support Fth k' j x d' (S i)) by lia.
    rewrite (cdb_support Fth (knot_fun (clamped xi d')) (j - 1) x d' i) by lia.
    ring.
  - rewrite <- (Hk' (S i + S d')) by (unfold M, d; lia).
    rewrite <- (Hk' (S i)) by (unfold M, d; lia).
    rewrite <- (cdb_ext (knot_fun K) k' j x d') by (intros m Hm; apply Hk'; unfold M, d; lia).
    fold d. fold K.
    replace (S i + S d') with (S (i + d)) by (unfold d; lia).
    f_equal.
    rewrite (cdb_ext (knot_fun (clamped xi d')) (fun m => knot_fun K (S m)) (j - 1) x d').
    + rewrite cdb_shift. replace (S (j - 1)) with j by lia. reflexivity.
    + intros m Hm. symmetry. apply clamped_shift. rewrite clamped_length. unfold d in *. lia.
Qed.

(* the corrected spline_derivative_lists: separation of the knots inside the list *)
Theorem spline_derivative_lists_bounded (c xi : list F) (d' j : nat) (x : F) :
  let d := S d' in
  let K := clamped xi d in
  length c = length xi - 1 + d -> 1 <= length xi ->
  d <= j -> j < length c ->
  (forall a b, a <= j -> j < b -> b < length K -> knot_fun K b -! knot_fun K a <> o0) ->
  sumf (fun i => nth i c o0 *! dcdb (knot_fun K) j x d i) (length c)
  = spline_value (bspline_derivative c xi d) (basis_values (clamped xi d') d' (j - 1) x).
Proof.
  intros d K Hc Hxi Hd Hj Hsep.
  apply (spline_derivative_lists_tight c xi d' j x Hc Hxi Hd Hj).
  intros a b Ha Hb HbM. apply Hsep; try assumption.
  unfold K. rewrite clamped_length. fold d. lia.
Qed.

End SplineDerBounded.

(* the statement, for every field *)
Theorem C17_model_derivative_spline_exact_bounded :
  forall (F : Type) (OF : Ops F), FieldLaws OF ->
  forall (c xi : list F) (d' j : nat) (x : F),
    length c = length xi - 1 + S d' -> 1 <= length xi -> S d' <= j -> j < length c ->
    (forall a b, a <= j -> j < b -> b < length (clamped xi (S d')) ->
                 knot_fun (clamped xi (S d')) b -! knot_fun (clamped xi (S d')) a <> o0) ->
    sumf (fun i => nth i c o0 *! dcdb (knot_fun (clamped xi (S d'))) j x (S d') i) (length c)
    = spline_value (bspline_derivative c xi (S d')) (basis_values (clamped xi d') d' (j - 1) x).
Proof. intros F OF Fl c xi d' j x H1 H2 H3 H4 H5. exact (spline_derivative_lists_bounded Fl c xi d' j x H1 H2 H3 H4 H5). Qed.

(* non-vacuity on a grid that starts at 0: xi = 0, 1/2, 1, degree d = 2 (clamped knots 0,0,0,1/2,1,1,1), span j = 2,
   x = 1/4, coefficients 1, 3, 2, 5.  All hypotheses of spline_derivative_lists_bounded hold; the hypothesis of the
   old spline_derivative_lists is FALSE here (a = 0, b = 7: knot_fun K 7 = o0 = K_0); both sides equal 3. *)
Example spline_derivative_lists_bounded_nonvacuous :
  let xi := [Q2Qc 0; Q2Qc (1#2); Q2Qc 1] in
  let c := [Q2Qc 1; Q2Qc 3; Q2Qc 2; Q2Qc 5] in
  let d' := 1 in let d := S d' in let j := 2 in let x := Q2Qc (1#4) in
  let K := @clamped Qc QcOps xi d in
  length c = length xi - 1 + d /\ 1 <= length xi /\ d <= j /\ j < length c /\
  (forall a b, a <= j -> j < b -> b < length K ->
               @osub Qc QcOps (@knot_fun Qc QcOps K b) (@knot_fun Qc QcOps K a) <> @o0 Qc QcOps) /\
  ~ (forall a b, a <= j -> j < b ->
               @osub Qc QcOps (@knot_fun Qc QcOps K b) (@knot_fun Qc QcOps K a) <> @o0 Qc QcOps) /\
  @sumf Qc QcOps (fun i => @omul Qc QcOps (nth i c (@o0 Qc QcOps)) (@dcdb Qc QcOps (@knot_fun Qc QcOps K) j x d i))
        (length c)
  = @spline_value Qc QcOps (@bspline_derivative Qc QcOps c xi d)
                  (@basis_values Qc QcOps (@clamped Qc QcOps xi d') d' (j - 1) x) /\
  this (@spline_value Qc QcOps (@bspline_derivative Qc QcOps c xi d)
                      (@basis_values Qc QcOps (@clamped Qc QcOps xi d') d' (j - 1) x)) = 3%Q.
Proof.
  intros xi c d' d j x K.
  assert (H1 : length c = length xi - 1 + d) by reflexivity.
  assert (H2 : 1 <= length xi) by (cbn; lia).
  assert (H3 : d <= j) by (unfold d, d', j; lia).
  assert (H4 : j < length c) by (cbn; lia).
  assert (H5 : forall a b, a <= j -> j < b -> b < length K ->
               @osub Qc QcOps (@knot_fun Qc QcOps K b) (@knot_fun Qc QcOps K a) <> @o0 Qc QcOps).
  { intros a b Ha Hb Hb7. unfold j in Ha, Hb. change (length K) with 7 in Hb7.
    assert (Ea : @knot_fun Qc QcOps K a = Q2Qc 0).
    { destruct a as [|[|[|a]]]; try reflexivity. lia. }
    rewrite Ea.
    destruct b as [|[|[|[|[|[|[|b]]]]]]]; try lia; vm_compute; intro E; discriminate E. }
  assert (H6 : ~ (forall a b, a <= j -> j < b ->
               @osub Qc QcOps (@knot_fun Qc QcOps K b) (@knot_fun Qc QcOps K a) <> @o0 Qc QcOps)).
  { intro H. apply (H 0 7); [unfold j; lia|unfold j; lia|]. vm_compute. reflexivity. }
  split; [exact H1|]. split; [exact H2|]. split; [exact H3|]. split; [exact H4|].
  split; [exact H5|]. split; [exact H6|]. split.
  - (* by the theorem, not by computation *)
    exact (spline_derivative_lists_bounded QcLaws c xi d' j x H1 H2 H3 H4 H5).
  - vm_compute. reflexivity.
Qed.

Print Assumptions dcdb_ext.
Print Assumptions spline_derivative_lists_tight.
Print Assumptions spline_derivative_lists_bounded.
Print Assumptions C17_model_derivative_spline_exact_bounded.
Print Assumptions spline_derivative_lists_bounded_nonvacuous.
