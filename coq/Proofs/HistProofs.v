(* C13: after any history the next solve works on the transcription of the final specification. *)
From Coq Require Import List Bool.
From RV Require Import Mech.History.
Import ListNotations.

Section HistProofs.
Variables (Spec Edit Upd NLP : Type).
Variable apply_edit : Spec -> Edit -> Spec.
Variable apply_upd : Spec -> Upd -> Spec.
Variable transcribe : Spec -> NLP.
Variable live_upd : NLP -> Upd -> NLP.

(* updating a transcribed NLP in place = transcribing the updated declaration
   (C09 / C10: values and guesses enter the NLP only through its parameter vector / start point) *)
Hypothesis upd_commutes : forall sp u, live_upd (transcribe sp) u = transcribe (apply_upd sp u).

Notation hstate := (hstate Spec NLP).
Notation hstep := (hstep Spec Edit Upd NLP apply_edit apply_upd transcribe live_upd).
Notation hrun := (hrun Spec Edit Upd NLP apply_edit apply_upd transcribe live_upd).
Notation next_nlp := (next_nlp Spec Edit Upd NLP apply_edit apply_upd transcribe live_upd).
Notation final_spec := (final_spec Spec Edit Upd apply_edit apply_upd).

(* while the flag is on, the cache is the transcription of the declaration *)
Definition HInv (s : hstate) : Prop :=
  h_flag Spec NLP s = true -> h_cache Spec NLP s = Some (transcribe (h_spec Spec NLP s)).

Lemma hinv_init sp : HInv (hinit Spec NLP sp).
Proof. intro H. discriminate H. Qed.

Lemma hinv_step s o : HInv s -> HInv (hstep s o).
Proof.
  intro I. destruct o as [e|u|]; unfold History.hstep.
  - intro H. discriminate H.
  - destruct (h_flag Spec NLP s) eqn:E.
    + intros _. cbn. rewrite (I E). cbn. rewrite upd_commutes. reflexivity.
    + intro H. discriminate H.
  - destruct (h_flag Spec NLP s) eqn:E; [exact I|]. intros _. reflexivity.
Qed.

Lemma hinv_run s ops : HInv s -> HInv (hrun s ops).
Proof. revert s. induction ops as [|o ops IH]; intros s I; [exact I|]. apply IH. apply hinv_step. exact I. Qed.

Lemma spec_run s ops : h_spec Spec NLP (hrun s ops) = final_spec (h_spec Spec NLP s) ops.
Proof.
  revert s. induction ops as [|o ops IH]; intro s; [reflexivity|].
  cbn [History.hrun fold_left History.final_spec].
  change (fold_left hstep ops (hstep s o)) with (hrun (hstep s o) ops). rewrite IH.
  destruct o as [e|u|]; unfold History.hstep.
  - reflexivity.
  - destruct (h_flag Spec NLP s); reflexivity.
  - destruct (h_flag Spec NLP s); reflexivity.
Qed.

Lemma next_nlp_inv s : HInv s -> next_nlp s = Some (transcribe (h_spec Spec NLP s)).
Proof.
  intro I. unfold History.next_nlp, History.hstep. destruct (h_flag Spec NLP s) eqn:E; [apply I; exact E|reflexivity].
Qed.

(* whatever history led to the current specification, the next solve works on the NLP of a
   freshly written OCP with that final specification *)
Theorem history_independent sp ops :
  next_nlp (hrun (hinit Spec NLP sp) ops) = Some (transcribe (final_spec sp ops)).
Proof.
  rewrite next_nlp_inv by (apply hinv_run; apply hinv_init).
  rewrite spec_run. reflexivity.
Qed.

(* querying twice changes nothing *)
Theorem query_idempotent s : hstep (hstep s (HQuery Edit Upd)) (HQuery Edit Upd) = hstep s (HQuery Edit Upd).
Proof. unfold History.hstep. destruct (h_flag Spec NLP s) eqn:E; [rewrite E; reflexivity|reflexivity]. Qed.

(* a query never alters the declaration *)
Theorem query_preserves_declaration s : h_spec Spec NLP (hstep s (HQuery Edit Upd)) = h_spec Spec NLP s.
Proof. unfold History.hstep. destruct (h_flag Spec NLP s); reflexivity. Qed.

Lemma final_spec_app sp ops1 ops2 : final_spec sp (ops1 ++ ops2) = final_spec (final_spec sp ops1) ops2.
Proof.
  revert sp. induction ops1 as [|o ops IH]; intro sp; [reflexivity|].
  destruct o; cbn [app History.final_spec]; apply IH.
Qed.

(* every edit made after a solve is honoured by the next one *)
Theorem edit_after_solve_honoured sp ops (e : Edit) :
  next_nlp (hrun (hinit Spec NLP sp) (ops ++ [HQuery Edit Upd; HEdit Edit Upd e]))
  = Some (transcribe (apply_edit (final_spec sp ops) e)).
Proof. rewrite history_independent, final_spec_app. reflexivity. Qed.

End HistProofs.
