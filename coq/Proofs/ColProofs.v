(* C02: the collocation, algebraic and continuity rows of DirectCollocation are the defects of
   the collocation polynomial. *)
From Coq Require Import ZArith QArith List Field Lia Bool.
From RV Require Import Base.Num Base.PyList Base.Vec Base.Poly Expr Ocp Rows Mech.Grid Mech.Intg
     Mech.Sampling Mech.Shooting Mech.Colloc Spec.SpecColloc
     Proofs.NumLemmas Proofs.VecLemmas Proofs.ListLemmas Proofs.PolyLemmas Proofs.ShootProofs.
Import ListNotations.
Local Open Scope nat_scope.

Section ColProofs.
Context {F : Type} {OF : Ops F}.
Hypothesis Fth : field_theory o0 o1 oadd omul osub oopp odiv oinv (@eq F).
Add Field FFc : Fth.

(* ---- vlincomb pointwise *)
Fixpoint lin_at (cs : list F) (vs : list (list F)) (i : nat) : F :=
  match cs, vs with
  | c :: cs', v :: vs' => c *! vnth v i +! lin_at cs' vs' i
  | _, _ => o0
  end.

Lemma vnth_vlincomb cs vs i : vnth (vlincomb cs vs) i = lin_at cs vs i.
Proof.
  revert vs. induction cs as [|c cs IH]; intros vs; [destruct vs; apply vnth_nil|].
  destruct vs as [|v vs]; [apply vnth_nil|].
  cbn [vlincomb lin_at]. rewrite (vnth_vadd Fth), (vnth_vscale Fth), IH. reflexivity.
Qed.

Lemma length_vlincomb cs vs n :
  length cs = length vs -> vs <> [] -> (forall v, In v vs -> length v = n) ->
  length (vlincomb cs vs) = n.
Proof.
  revert vs. induction cs as [|c cs IH]; intros vs Hl Hne Hn.
  - destruct vs; [congruence|discriminate].
  - destruct vs as [|v vs]; [congruence|]. cbn [vlincomb].
    rewrite length_vadd, length_vscale, (Hn v) by (left; reflexivity).
    destruct vs as [|v' vs'].
    + destruct cs; [|discriminate]. cbn. lia.
    + rewrite IH; [lia| | |].
      * cbn in *. lia.
      * discriminate.
      * intros w Hw. apply Hn. right. exact Hw.
Qed.

(* sum_r delta_{r,m} a_r = a_m *)
Lemma lin_at_zero (f : nat -> F) (vs : list (list F)) m i a :
  (forall r, a <= r < a + length vs -> f r = if Nat.eqb r m then o1 else o0) ->
  m < a -> lin_at (map f (seq a (length vs))) vs i = o0.
Proof.
  revert a. induction vs as [|w ws IHw]; intros a Hf Ha; [reflexivity|].
  cbn [length seq map lin_at]. rewrite Hf by (cbn [length]; lia).
  assert (E' : Nat.eqb a m = false) by (apply Nat.eqb_neq; lia). rewrite E'.
  rewrite IHw; [ring| |lia]. intros r Hr. apply Hf. cbn [length]. lia.
Qed.

Lemma lin_at_delta (f : nat -> F) (vs : list (list F)) m i s0 :
  (forall r, s0 <= r < s0 + length vs -> f r = if Nat.eqb r m then o1 else o0) ->
  s0 <= m -> m < s0 + length vs ->
  lin_at (map f (seq s0 (length vs))) vs i = vnth (nth (m - s0) vs []) i.
Proof.
  revert s0. induction vs as [|v vs IH]; intros s0 Hf H0 H1; [cbn in H1; lia|].
  cbn [length seq map lin_at]. rewrite Hf by (cbn [length]; lia).
  destruct (Nat.eqb s0 m) eqn:E.
  - apply Nat.eqb_eq in E. subst s0. rewrite Nat.sub_diag. cbn [nth].
    rewrite (lin_at_zero f vs m i (S m)); [ring| |lia].
    intros r Hr. apply Hf. cbn [length]. lia.
  - apply Nat.eqb_neq in E. rewrite IH; [| |lia|cbn [length] in H1; lia].
    + replace (m - s0) with (S (m - S s0)) by lia. cbn [nth]. ring.
    + intros r Hr. apply Hf. cbn [length]. lia.
Qed.

(* ---- interpolation: the collocation polynomial passes through the start state at s = 0 and
   through helper state j at s = tau_j *)
Theorem interp_at_node (tau : list F) (vs : list (list F)) (n m : nat) :
  length vs = S (length tau) -> m <= length tau ->
  (forall v, In v vs -> length v = n) ->
  (forall a b, a <= length tau -> b <= length tau -> a <> b ->
               nth a (o0 :: tau) o0 -! nth b (o0 :: tau) o0 <> o0) ->
  interp tau vs (nth m (o0 :: tau) o0) = nth m vs [].
Proof.
  intros Hl Hm Hn Hd. unfold interp. apply (vec_ext).
  - rewrite (length_vlincomb _ _ n).
    + symmetry. apply Hn. apply nth_In. lia.
    + unfold basis_at. rewrite map_length, seq_length. lia.
    + destruct vs; [discriminate|discriminate].
    + exact Hn.
  - intro i. rewrite vnth_vlincomb. unfold basis_at. rewrite <- Hl.
    rewrite (lin_at_delta (fun r => polyval (lagrange (o0 :: tau) r) (nth m (o0 :: tau) o0)) vs m i 0).
    + rewrite Nat.sub_0_r. reflexivity.
    + intros r Hr.
      rewrite (lagrange_delta Fth (o0 :: tau) r m) by (cbn [length]; try lia;
          intros a b Ha Hb Hab; apply Hd; cbn [length] in *; lia).
      rewrite Nat.eqb_sym. reflexivity.
    + lia.
    + lia.
Qed.

(* ---- the rows of DirectCollocation *)
Section Rows.
Variable oc : ocp.
Variable pt : point F.
Notation N := (m_N (o_method oc)).
Notation M := (m_M (o_method oc)).
Notation tau := (map (@of_Q F OF) (m_tau (o_method oc))).
Notation d := (length (map (@of_Q F OF) (m_tau (o_method oc)))).

Lemma col_coeff_C j : j < d -> col (coeff_C tau) j = dbasis_at tau (nth j tau o0).
Proof.
  intro Hj. unfold col, coeff_C, dbasis_at, tau_root. rewrite map_map.
  apply map_ext. intro r.
  rewrite (nth_indep _ o0 ((fun tj => polyval (pderiv (lagrange (o0 :: tau) r)) tj) o0))
    by (rewrite map_length; exact Hj).
  apply (map_nth (fun tj => polyval (pderiv (lagrange (o0 :: tau) r)) tj)).
Qed.

(* the left-hand side of collocation row j is the derivative of the collocation polynomial at
   tau_j, rescaled to physical time *)
Theorem Pidot_is_dinterp k i j : j < d ->
  Pidot oc pt k i j = vdivs (dinterp tau (Xc_full pt k i) (nth j tau o0)) (dt_k oc pt k).
Proof. intro Hj. unfold Pidot, wsum, dinterp. rewrite (col_coeff_C j Hj). reflexivity. Qed.

(* the left-hand side of the continuity row is the end value of the collocation polynomial *)
Theorem cont_lhs_is_interp k i :
  wsum (coeff_D tau) (Xc_full pt k i) = interp tau (Xc_full pt k i) o1.
Proof. reflexivity. Qed.

Lemma scaled_rows_in kd ptz lhs rhs scales n r :
  In r (@scaled_rows F OF kd ptz lhs rhs scales n) <->
  exists s, s < n /\ r = mkRow kd s ptz SEq ((nth s lhs o0 -! nth s rhs o0) /! of_Q (nth s scales 1%Q)).
Proof. unfold scaled_rows. apply in_map_seq. Qed.

Definition is_dyn_kind (k : kind) : bool :=
  match k with KColl | KAlg | KCont => true | _ => false end.

Lemma colloc_rows_kind k i j r : In r (colloc_rows oc pt k i j) -> rw_kind r = KColl \/ rw_kind r = KAlg.
Proof.
  unfold colloc_rows. intro H. apply in_app_or in H. destruct H as [H|H];
    apply scaled_rows_in in H; destruct H as (s & _ & ->); [left|right]; reflexivity.
Qed.

Lemma cont_rows_kind k i r : In r (cont_rows oc pt k i) -> rw_kind r = KCont.
Proof. unfold cont_rows. intro H. apply scaled_rows_in in H. destruct H as (s & _ & ->). reflexivity. Qed.

Lemma roots_rows_kind L k i j r : In r (roots_rows_at oc L k i j) -> rw_kind r = KPath.
Proof. unfold roots_rows_at. intro H. apply in_map_iff in H. destruct H as (c & <- & _). reflexivity. Qed.

Lemma integrator_rows_kind (L : mlists F) cs k l r : In r (integrator_rows_at L cs k l) -> rw_kind r = KPath.
Proof.
  unfold integrator_rows_at. intro H. apply in_flat_map in H. destruct H as (c & _ & H).
  destruct (_ && _ && _); cbn in H; [destruct H|]. destruct H as [<-|[]]. reflexivity.
Qed.

Lemma control_rows_kind (L : mlists F) cs k r : In r (control_rows_at L cs k) -> rw_kind r = KPath.
Proof.
  unfold control_rows_at. intro H. apply in_flat_map in H. destruct H as (c & _ & H).
  destruct (_ && _); [destruct H|]. eapply row_at_control_kind. exact H.
Qed.

(* every collocation / algebraic / continuity row of the NLP, and no other row of these kinds *)
Theorem dc_dyn_rows_spec r :
  (In r (rows_dc oc pt) /\ is_dyn_kind (rw_kind r) = true) <->
  exists k i, k < N /\ i < M /\
    ((exists j, j < d /\ In r (colloc_rows oc pt k i j)) \/ In r (cont_rows oc pt k i)).
Proof.
  unfold rows_dc. split.
  - intros (Hin & Hk).
    apply in_app_or in Hin. destruct Hin as [Hin|Hin].
    { apply finalize_kind in Hin. rewrite Hin in Hk. discriminate. }
    apply in_app_or in Hin. destruct Hin as [Hin|Hin].
    2:{ apply in_app_or in Hin. destruct Hin as [Hin|Hin].
        { apply last_rows_kind in Hin. rewrite Hin in Hk. discriminate. }
        apply in_app_or in Hin. destruct Hin as [Hin|Hin].
        { apply last_rows_kind in Hin. rewrite Hin in Hk. discriminate. }
        apply in_app_or in Hin. destruct Hin as [Hin|Hin].
        { apply in_map_iff in Hin. destruct Hin as (c & <- & _). discriminate Hk. }
        apply freeT_kind in Hin. rewrite Hin in Hk. discriminate. }
    apply in_flat_map_seq in Hin. destruct Hin as (k & HkN & Hin).
    apply in_app_or in Hin. destruct Hin as [Hin|Hin].
    { apply bounds_T_kind in Hin. rewrite Hin in Hk. discriminate. }
    apply in_app_or in Hin. destruct Hin as [Hin|Hin].
    2:{ apply control_rows_kind in Hin. rewrite Hin in Hk. discriminate. }
    apply in_flat_map_seq in Hin. destruct Hin as (i & HiM & Hin).
    exists k, i. split; [exact HkN|]. split; [exact HiM|].
    apply in_app_or in Hin. destruct Hin as [Hin|Hin].
    + apply in_flat_map_seq in Hin. destruct Hin as (j & Hj & Hin).
      apply in_app_or in Hin. destruct Hin as [Hin|Hin].
      * left. exists j. split; assumption.
      * apply roots_rows_kind in Hin. rewrite Hin in Hk. discriminate.
    + apply in_app_or in Hin. destruct Hin as [Hin|Hin].
      * right. exact Hin.
      * apply integrator_rows_kind in Hin. rewrite Hin in Hk. discriminate.
  - intros (k & i & HkN & HiM & H). split.
    + apply in_or_app. right. apply in_or_app. left.
      apply in_flat_map_seq. exists k. split; [exact HkN|].
      apply in_or_app. right. apply in_or_app. left.
      apply in_flat_map_seq. exists i. split; [exact HiM|].
      destruct H as [(j & Hj & H)|H].
      * apply in_or_app. left. apply in_flat_map_seq. exists j. split; [exact Hj|].
        apply in_or_app. left. exact H.
      * apply in_or_app. right. apply in_or_app. left. exact H.
    + destruct H as [(j & Hj & H)|H].
      * apply colloc_rows_kind in H. destruct H as [-> | ->]; reflexivity.
      * apply cont_rows_kind in H. rewrite H. reflexivity.
Qed.

(* ---- the dynamic rows vanish exactly when the collocation conditions hold *)
Hypothesis Hsder : forall s, s < o_nx oc -> of_Q (nth s (o_scale_der oc) 1%Q) <> (o0 : F).
Hypothesis Hsx : forall s, s < o_nx oc -> of_Q (nth s (o_scale_x oc) 1%Q) <> (o0 : F).
Hypothesis Hsz : forall s, s < length (o_alg oc) -> of_Q (nth s (o_scale_z oc) 1%Q) <> (o0 : F).

Theorem dc_dynamics_iff :
  (forall r, In r (rows_dc oc pt) -> is_dyn_kind (rw_kind r) = true -> rw_h r = o0) <->
  (forall k i, k < N -> i < M ->
     (forall j, j < d ->
        (forall s, s < o_nx oc ->
           nth s (Pidot oc pt k i j) o0 = nth s (map (eval0 (root_env oc pt k i j)) (o_ode oc)) o0) /\
        (forall s, s < length (o_alg oc) ->
           nth s (map (eval0 (root_env oc pt k i j)) (o_alg oc)) o0 = o0)) /\
     (forall s, s < o_nx oc ->
        nth s (interp tau (Xc_full pt k i) o1) o0 = nth s (x_next oc pt k i) o0)).
Proof.
  split.
  - intros H k i Hk Hi. split.
    + intros j Hj. split.
      * intros s Hs.
        set (r := mkRow KColl s (Z.of_nat ((k * M + i) * d + j)) SEq
              ((nth s (Pidot oc pt k i j) o0 -! nth s (map (eval0 (root_env oc pt k i j)) (o_ode oc)) o0)
                 /! of_Q (nth s (o_scale_der oc) 1%Q))).
        assert (Hin : In r (colloc_rows oc pt k i j)).
        { unfold colloc_rows. apply in_or_app. left. apply scaled_rows_in. exists s. split; [exact Hs|reflexivity]. }
        assert (Hr : In r (rows_dc oc pt) /\ is_dyn_kind (rw_kind r) = true).
        { apply dc_dyn_rows_spec. exists k, i. repeat split; try assumption. left. exists j. split; assumption. }
        specialize (H r (proj1 Hr) (proj2 Hr)). unfold r in H. cbn [rw_h] in H.
        apply (proj1 (div_zero_iff Fth _ _ (Hsder s Hs))) in H.
        apply (proj1 (sub_zero_iff Fth _ _)) in H. exact H.
      * intros s Hs.
        set (r := mkRow KAlg s (Z.of_nat ((k * M + i) * d + j)) SEq
              ((nth s [] o0 -! nth s (map (eval0 (root_env oc pt k i j)) (o_alg oc)) o0)
                 /! of_Q (nth s (o_scale_z oc) 1%Q))).
        assert (Hin : In r (colloc_rows oc pt k i j)).
        { unfold colloc_rows. apply in_or_app. right. apply scaled_rows_in. exists s. split; [exact Hs|reflexivity]. }
        assert (Hr : In r (rows_dc oc pt) /\ is_dyn_kind (rw_kind r) = true).
        { apply dc_dyn_rows_spec. exists k, i. repeat split; try assumption. left. exists j. split; assumption. }
        specialize (H r (proj1 Hr) (proj2 Hr)). unfold r in H. cbn [rw_h] in H.
        apply (proj1 (div_zero_iff Fth _ _ (Hsz s Hs))) in H.
        apply (proj1 (sub_zero_iff Fth _ _)) in H. rewrite <- H. destruct s; reflexivity.
    + intros s Hs.
      set (r := mkRow KCont s (Z.of_nat (k * M + i)) SEq
            ((nth s (wsum (coeff_D tau) (Xc_full pt k i)) o0 -! nth s (x_next oc pt k i) o0)
               /! of_Q (nth s (o_scale_x oc) 1%Q))).
      assert (Hin : In r (cont_rows oc pt k i)).
      { unfold cont_rows. apply scaled_rows_in. exists s. split; [exact Hs|reflexivity]. }
      assert (Hr : In r (rows_dc oc pt) /\ is_dyn_kind (rw_kind r) = true).
      { apply dc_dyn_rows_spec. exists k, i. repeat split; try assumption. right. exact Hin. }
      specialize (H r (proj1 Hr) (proj2 Hr)). unfold r in H. cbn [rw_h] in H.
      apply (proj1 (div_zero_iff Fth _ _ (Hsx s Hs))) in H.
      apply (proj1 (sub_zero_iff Fth _ _)) in H. rewrite <- cont_lhs_is_interp. exact H.
  - intros H r Hin Hk.
    destruct (proj1 (dc_dyn_rows_spec r) (conj Hin Hk)) as (k & i & HkN & HiM & Hr).
    destruct (H k i HkN HiM) as (Hc & Hcont).
    destruct Hr as [(j & Hj & Hr)|Hr].
    + destruct (Hc j Hj) as (Hode & Halg).
      unfold colloc_rows in Hr. apply in_app_or in Hr. destruct Hr as [Hr|Hr];
        apply scaled_rows_in in Hr; destruct Hr as (s & Hs & ->); cbn [rw_h].
      * rewrite (Hode s Hs). apply (div_zero_iff Fth); [apply Hsder; exact Hs|]. ring.
      * rewrite (Halg s Hs). apply (div_zero_iff Fth); [apply Hsz; exact Hs|].
        replace (nth s [] o0) with (o0 : F) by (destruct s; reflexivity). ring.
    + unfold cont_rows in Hr. apply scaled_rows_in in Hr. destruct Hr as (s & Hs & ->). cbn [rw_h].
      rewrite cont_lhs_is_interp, (Hcont s Hs).
      apply (div_zero_iff Fth); [apply Hsx; exact Hs|]. ring.
Qed.

End Rows.

End ColProofs.
