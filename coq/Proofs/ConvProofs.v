(* C03 (algebraic part): order conditions of the tableaux intg_rk / intg_expl_euler are proved equal
   to (C01), stability polynomial on the linear test equation, exactness of the quadrature and of
   x' = g(t) for cubic (rk) / constant (euler) g over any number of steps M. *)
From Coq Require Import ZArith QArith List Field Lia Bool.
From RV Require Import Base.Num Base.Vec Mech.Intg Spec.SpecDyn Proofs.NumLemmas Proofs.VecLemmas Proofs.DynProofs Proofs.GridLemmas.
Import ListNotations.
Local Open Scope nat_scope.

Section Conv.
Context {F : Type} {OF : Ops F}.
Hypothesis Fth : field_theory o0 o1 oadd omul osub oopp odiv oinv (@eq F).
Hypothesis C0 : @Char0 F OF.
Add Field FFcv : Fth.

(* ---- order conditions of a 4-stage explicit tableau given by its entries *)
Definition dot (a b : list F) : F := fold_right (fun p r => fst p *! snd p +! r) o0 (combine a b).
Definition pw (a b : list F) : list F := map (fun p => fst p *! snd p) (combine a b).
Definition Amul (A : list (list F)) (v : list F) : list F := map (fun row => dot row v) A.
Definition ones (n : nat) : list F := repeat o1 n.

Definition order1 (tb : tableau F) : Prop := dot (tb_b tb) (ones (length (tb_b tb))) = o1.
Definition row_sums (tb : tableau F) : Prop := Amul (tb_A tb) (ones (length (tb_b tb))) = tb_c tb.
Definition order2 (tb : tableau F) : Prop := order1 tb /\ dot (tb_b tb) (tb_c tb) = o1 /! o2.
Definition order3 (tb : tableau F) : Prop :=
  order2 tb /\ dot (tb_b tb) (pw (tb_c tb) (tb_c tb)) = o1 /! of_Z 3 /\
  dot (tb_b tb) (Amul (tb_A tb) (tb_c tb)) = o1 /! of_Z 6.
Definition order4 (tb : tableau F) : Prop :=
  let b := tb_b tb in let c := tb_c tb in let A := tb_A tb in
  order3 tb /\
  dot b (pw c (pw c c)) = o1 /! of_Z 4 /\
  dot b (pw c (Amul A c)) = o1 /! of_Z 8 /\
  dot b (Amul A (pw c c)) = o1 /! of_Z 12 /\
  dot b (Amul A (Amul A c)) = o1 /! of_Z 24.

Lemma two_nz : (o1 +! o1 : F) <> o0.
Proof. exact (o2_nz Fth C0). Qed.
Lemma three_nz : (o1 +! (o1 +! o1) : F) <> o0.
Proof.
  pose proof (C0 3%positive) as H. cbn [of_pos] in H. unfold o2 in H.
  intro E. apply H. rewrite <- E. ring.
Qed.

Lemma three_nz' : (o1 +! (o1 +! o1) *! o1 : F) <> o0.
Proof. pose proof (C0 3%positive) as H. cbn [of_pos] in H. unfold o2 in H. exact H. Qed.

Lemma mul_nz (a b : F) : a <> o0 -> b <> o0 -> a *! b <> o0.
Proof.
  intros Ha Hb E. apply Ha.
  assert (X : a = a *! b /! b) by (field; exact Hb). rewrite X, E. field. exact Hb.
Qed.

Ltac side1 := first [exact two_nz | exact three_nz | exact three_nz' | assumption | (apply mul_nz; side1)].
Ltac side := repeat split; side1.
Ltac crunch :=
  repeat (progress (unfold dot, pw, Amul, ones, half, third, sixth, o2;
                    cbn [tb_b tb_c tb_A length repeat combine map fold_right fst snd of_Z of_pos])).

Theorem rk4_order4 : order4 rk4_tableau /\ row_sums rk4_tableau.
Proof.
  unfold order4, order3, order2, order1, row_sums, rk4_tableau. crunch.
  repeat split; try (field; side).
  repeat (f_equal; try (field; side)).
Qed.

Theorem euler_order1 : order1 euler_tableau /\ row_sums euler_tableau.
Proof.
  unfold order1, row_sums, euler_tableau, dot, Amul, ones.
  cbn [tb_b tb_c tb_A length repeat combine map fold_right fst snd]. split; [ring|].
  f_equal.
Qed.

(* ---- scalar problems x' = lam*x (stability polynomial) *)
Definition lin_sys (lam : F) : sysfun F :=
  {| s_ode := fun X _ => [lam *! nth 0 X o0]; s_quad := fun _ _ => [] |}.

Theorem rk4_stability_poly lam x t0 DT DTc :
  DT <> o0 ->
  let z := lam *! DT in
  r_xf (intg_rk (lin_sys lam) [x] t0 DT DTc) =
  [(o1 +! z +! z *! z /! o2 +! z *! z *! z /! of_Z 6 +! z *! z *! z *! z /! of_Z 24) *! x].
Proof.
  intros Hdt z. subst z. pose proof two_nz as H2. pose proof three_nz as H3.
  unfold intg_rk, lin_sys. cbn [r_xf s_ode s_quad vadd vscale map nth combine Intg.o6].
  unfold vadd, vscale. cbn [map nth combine length fst snd Nat.max repeat app Nat.sub].
  unfold Intg.o6, o2. cbn [of_Z of_pos]. unfold o2.
  f_equal. field. side.
Qed.

Theorem euler_stability_poly lam x t0 DT DTc :
  r_xf (intg_expl_euler (lin_sys lam) [x] t0 DT DTc) = [(o1 +! lam *! DT) *! x].
Proof.
  unfold intg_expl_euler, lin_sys. cbn [r_xf s_ode].
  unfold vadd, vscale. cbn [map nth combine length fst snd Nat.max repeat app Nat.sub].
  f_equal. ring.
Qed.

(* ---- quadratures: integrand g(t) = a0 + a1 t + a2 t^2 + a3 t^3, antiderivative G *)
Variables a0 a1 a2 a3 : F.
Definition g (t : F) : F := a0 +! a1 *! t +! a2 *! t *! t +! a3 *! t *! t *! t.
Definition G (t : F) : F :=
  a0 *! t +! a1 *! t *! t /! o2 +! a2 *! t *! t *! t /! of_Z 3 +! a3 *! t *! t *! t *! t /! of_Z 4.

(* any dynamics, integrand depending on time only *)
Variable ode : list F -> F -> list F.
Definition quad_sys : sysfun F := {| s_ode := ode; s_quad := fun _ t => [g t] |}.

Theorem rk4_quadrature_step_exact X t0 DT DTc :
  r_qf (intg_rk quad_sys X t0 DT DTc) = [G (t0 +! DT) -! G t0].
Proof.
  pose proof two_nz as H2. pose proof three_nz as H3.
  unfold intg_rk, quad_sys. cbn [r_qf s_quad].
  unfold vadd, vscale. cbn [map nth combine length fst snd Nat.max repeat app Nat.sub].
  unfold g, G, Intg.o6, o2. cbn [of_Z of_pos]. unfold o2.
  f_equal. field. side.
Qed.

(* time-only dynamics x' = g(t): the state transition is exact as well *)
Definition time_sys : sysfun F := {| s_ode := fun _ t => [g t]; s_quad := fun _ _ => [] |}.

Theorem rk4_time_only_step_exact x t0 DT DTc :
  r_xf (intg_rk time_sys [x] t0 DT DTc) = [x +! (G (t0 +! DT) -! G t0)].
Proof.
  pose proof two_nz as H2. pose proof three_nz as H3.
  unfold intg_rk, time_sys. cbn [r_xf s_ode].
  unfold vadd, vscale. cbn [map nth combine length fst snd Nat.max repeat app Nat.sub].
  unfold g, G, Intg.o6, o2. cbn [of_Z of_pos]. unfold o2.
  f_equal. field. side.
Qed.

(* telescoping over M steps of any one-step map whose quadrature increment is exact *)
Lemma iter_quad_telescopes (Phi Psi : F -> list F -> list F) (H : F -> F) t0 h q0 x0 :
  (forall t x, Psi t x = [H (t +! h) -! H t]) ->
  forall j, iter_quad Phi Psi t0 h j x0 [q0] = [q0 +! (H (t0 +! of_nat j *! h) -! H t0)].
Proof.
  intros HP j. induction j as [|j IH].
  - cbn [iter_quad]. f_equal. unfold of_nat. cbn [Z.of_nat of_Z].
    replace (t0 +! o0 *! h) with t0 by ring. ring.
  - cbn [iter_quad]. rewrite IH, HP.
    unfold vadd. cbn [map combine length Nat.max Nat.sub repeat app fst snd].
    rewrite (of_nat_S Fth). f_equal.
    replace (t0 +! (of_nat j +! o1) *! h) with (t0 +! of_nat j *! h +! h) by ring. ring.
Qed.

(* integral over a control interval with M integrator steps, any M: exact for cubic integrands *)
Theorem rk4_integral_exact_cubic (x0 : list F) (T t0 : F) (M : nat) :
  M <> 0 ->
  ds_quad (discrete_system (intg_rk quad_sys) M 1 x0 T t0) = [G (t0 +! T) -! G t0].
Proof.
  intro HM.
  rewrite (discrete_system_quad Fth).
  change (vzero 1) with [@o0 F OF].
  rewrite (iter_quad_telescopes _ _ G t0 (T /! of_nat M) o0 x0).
  - f_equal. assert (Hn : of_nat M <> (o0 : F)) by (apply (of_nat_nz C0); exact HM).
    replace (t0 +! of_nat M *! (T /! of_nat M)) with (t0 +! T) by (field; exact Hn). ring.
  - intros t x. apply rk4_quadrature_step_exact.
Qed.

(* Euler: exact for constant integrands *)
Theorem euler_quadrature_step_exact_const X t0 DT DTc :
  a1 = o0 -> a2 = o0 -> a3 = o0 ->
  r_qf (intg_expl_euler quad_sys X t0 DT DTc) = [G (t0 +! DT) -! G t0].
Proof.
  intros E1 E2 E3.
  unfold intg_expl_euler, quad_sys. cbn [r_qf s_quad].
  unfold vscale. cbn [map]. unfold g, G, o2. cbn [of_Z of_pos]. unfold o2.
  rewrite E1, E2, E3. f_equal. field. side.
Qed.

Theorem euler_integral_exact_const (x0 : list F) (T t0 : F) (M : nat) :
  M <> 0 -> a1 = o0 -> a2 = o0 -> a3 = o0 ->
  ds_quad (discrete_system (intg_expl_euler quad_sys) M 1 x0 T t0) = [G (t0 +! T) -! G t0].
Proof.
  intros HM E1 E2 E3.
  rewrite (discrete_system_quad Fth).
  change (vzero 1) with [@o0 F OF].
  rewrite (iter_quad_telescopes _ _ G t0 (T /! of_nat M) o0 x0).
  - f_equal. assert (Hn : of_nat M <> (o0 : F)) by (apply (of_nat_nz C0); exact HM).
    replace (t0 +! of_nat M *! (T /! of_nat M)) with (t0 +! T) by (field; exact Hn). ring.
  - intros t x. apply euler_quadrature_step_exact_const; assumption.
Qed.

End Conv.
