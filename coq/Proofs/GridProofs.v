(* C06: the control grid of each grid class is the declared partition of [t0, t0+T]. *)
From Coq Require Import ZArith QArith List Field Lia Bool.
From RV Require Import Base.Num Base.PyList Base.Vec Expr Ocp Rows Mech.Grid
     Proofs.NumLemmas Proofs.ListLemmas Proofs.PyLemmas Proofs.GridLemmas.
Import ListNotations.
Local Open Scope nat_scope.

Section GridProofs.
Context {F : Type} {OF : Ops F}.
Hypothesis Fth : field_theory o0 o1 oadd omul osub oopp odiv oinv (@eq F).
Hypothesis Ch0 : @Char0 F OF.
Add Field FFgp : Fth.

(* ---- UniformGrid / Grid.__call__ *)
Theorem uniform_grid (t0 T : F) N : 0 < N ->
  length (time_grid GUniform t0 T N) = S N /\
  nth 0 (time_grid GUniform t0 T N) o0 = t0 /\
  nth N (time_grid GUniform t0 T N) o0 = t0 +! T /\
  forall k, k <= N -> nth k (time_grid GUniform t0 T N) o0 = t0 +! of_nat k *! (T /! of_nat N).
Proof.
  intro HN. cbn [time_grid].
  assert (Hn : (@of_nat F OF N) <> o0) by (apply (of_nat_nz Ch0); lia).
  assert (Hk : forall k, k <= N -> nth k (linspace t0 (t0 +! T) N) o0 = t0 +! of_nat k *! (T /! of_nat N)).
  { intros k Hk. destruct (Nat.eq_dec k N) as [->|Hne].
    - rewrite linspace_last by exact HN. field. exact Hn.
    - rewrite (linspace_nth t0 (t0 +! T) N k) by lia. field. exact Hn. }
  repeat split.
  - apply linspace_length.
  - rewrite Hk by lia. rewrite of_nat_0. ring.
  - apply linspace_last. exact HN.
  - exact Hk.
Qed.

(* ---- FunctionGrid / DensityGrid: t0 + n_k * T *)
Theorem nodes_grid (t0 T : F) (n : list Q) N k :
  nth k (time_grid (GNodes n) t0 T N) o0 =
  if Nat.ltb k (length n) then t0 +! of_Q (nth k n 0%Q) *! T else o0.
Proof.
  cbn [time_grid normalized]. destruct (Nat.ltb k (length n)) eqn:E.
  - apply Nat.ltb_lt in E.
    rewrite (nth_indep _ o0 ((fun x => t0 +! x *! T) o0)) by (rewrite !map_length; exact E).
    rewrite (map_nth (fun x => t0 +! x *! T)).
    rewrite (nth_indep _ o0 (of_Q 0%Q)) by (rewrite map_length; exact E).
    rewrite (map_nth of_Q). reflexivity.
  - apply Nat.ltb_ge in E. apply nth_overflow. rewrite !map_length. exact E.
Qed.

(* ---- GeometricGrid: consecutive increments of the un-normalised vector grow by g *)
Lemma geo_aux_length (g b l : F) n : length (geo_vec_aux g b l n) = n.
Proof. revert b l. induction n as [|n IH]; intros b l; cbn; [reflexivity|]. rewrite IH. reflexivity. Qed.

Lemma geo_aux_first (g b l : F) n : 0 < n -> nth 0 (geo_vec_aux g b l n) o0 = l +! b.
Proof. destruct n; [lia|]. reflexivity. Qed.

Lemma geo_aux_diff (g b l : F) n i : S i < n ->
  nth (S i) (geo_vec_aux g b l n) o0 -! nth i (geo_vec_aux g b l n) o0 = b *! opow g (S i).
Proof.
  revert b l n. induction i as [|i IH]; intros b l n H.
  - destruct n as [|[|n]]; try lia. cbn. ring.
  - destruct n as [|n]; [lia|].
    change (geo_vec_aux g b l (S n)) with ((l +! b) :: geo_vec_aux g (b *! g) (l +! b) n).
    cbn [nth]. rewrite IH by lia. cbn [opow]. ring.
Qed.

(* increments of geo_vec: d_k = g^k, k = 0..N-1 *)
Theorem geo_vec_increments (g : F) N k : k < N ->
  nth (S k) (geo_vec g N) o0 -! nth k (geo_vec g N) o0 = opow g k.
Proof.
  intro H. unfold geo_vec. destruct k as [|k].
  - cbn [nth]. rewrite geo_aux_first by lia. cbn. ring.
  - cbn [nth]. rewrite geo_aux_diff by lia. ring.
Qed.

(* the normalised geometric grid: interval k+1 is g times interval k; the last interval is
   g^(N-1) times the first; it starts at 0 and ends at 1 *)
Theorem geometric_normalized (gq : Q) (loc : bool) N :
  0 < N -> last (geo_vec (of_Q gq) N) o0 <> (o0 : F) ->
  let nrm := normalized (GGeometric gq loc) N in
  let d := fun k => nth (S k) nrm o0 -! nth k nrm o0 in
  length nrm = S N /\
  nth 0 nrm o0 = o0 /\ nth N nrm o0 = o1 /\
  (forall k, S k < N -> d (S k) = of_Q gq *! d k) /\
  (forall k, k < N -> d k = opow (of_Q gq) k *! d 0).
Proof.
  intros HN Hlast. cbn zeta. cbn [normalized].
  set (g := of_Q gq). set (vec := geo_vec g N). set (lv := last vec o0) in *.
  assert (Hlen : length vec = S N) by (unfold vec, geo_vec; cbn; rewrite geo_aux_length; reflexivity).
  assert (Hnth : forall k, k <= N -> nth k (map (fun v => v /! lv) vec) o0 = nth k vec o0 /! lv).
  { intros k Hk.
    rewrite (nth_indep _ o0 ((fun v => v /! lv) o0)) by (rewrite map_length; lia).
    apply (map_nth (fun v => v /! lv)). }
  assert (Hd : forall k, k < N ->
            nth (S k) (map (fun v => v /! lv) vec) o0 -! nth k (map (fun v => v /! lv) vec) o0
            = opow g k /! lv).
  { intros k Hk. rewrite !Hnth by lia.
    rewrite <- (geo_vec_increments g N k Hk). fold vec. field. exact Hlast. }
  repeat split.
  - rewrite map_length. exact Hlen.
  - rewrite Hnth by lia. unfold vec, geo_vec. cbn [nth]. field. exact Hlast.
  - rewrite Hnth by lia. unfold lv. rewrite (last_nth vec o0 N Hlen). field.
    rewrite <- (last_nth vec o0 N Hlen). exact Hlast.
  - intros k Hk. rewrite !Hd by lia. cbn [opow]. field. exact Hlast.
  - intros k Hk. rewrite !Hd by lia. cbn [opow]. field. exact Hlast.
Qed.

(* ---- localize_T / FreeGrid: the grid is the running sum of the interval lengths *)
Lemma cumsum_length (a : F) l : length (cumsum_from a l) = S (length l).
Proof. revert a. induction l as [|x l IH]; intro a; cbn; [reflexivity|]. rewrite IH. reflexivity. Qed.

Lemma cumsum_first (a : F) l : nth 0 (cumsum_from a l) o0 = a.
Proof. destruct l; reflexivity. Qed.

Theorem cumsum_increments (a : F) l k : k < length l ->
  nth (S k) (cumsum_from a l) o0 -! nth k (cumsum_from a l) o0 = nth k l o0.
Proof.
  revert a k. induction l as [|x l IH]; intros a k H; [cbn in H; lia|].
  destruct k as [|k].
  - cbn [cumsum_from nth]. rewrite cumsum_first. ring.
  - cbn [cumsum_from nth length] in *. apply IH. lia.
Qed.

(* ---- interval-length bounds: a satisfied normal row  h <= 0  with h = min - e (e - max)
   is the bound min <= e (e <= max); stated for any order compatible with addition *)
Section Order.
Variable le : F -> F -> Prop.
Hypothesis le_add : forall a b c, le a b -> le (a +! c) (b +! c).

Lemma le_sub_iff a b : le (a -! b) o0 <-> le a b.
Proof.
  split; intro H.
  - apply (le_add _ _ b) in H. replace (a -! b +! b) with a in H by ring.
    replace (o0 +! b) with b in H by ring. exact H.
  - apply (le_add _ _ (oopp b)) in H. replace (a +! oopp b) with (a -! b) in H by ring.
    replace (b +! oopp b) with o0 in H by ring. exact H.
Qed.

(* every row of minmax_rows satisfied <=> min <= e <= max *)
Theorem minmax_rows_iff (go : grid_opts) k (e : F) :
  (forall r, In r (minmax_rows go k e) -> le (rw_h r) o0) <->
  (le (qbound (go_min go) o0) e /\ match go_max go with Some mx => le e (of_Q mx) | None => True end).
Proof.
  unfold minmax_rows. destruct (go_max go) as [mx|]; split.
  - intro H. split.
    + apply le_sub_iff. apply (H (mkRow KGrid 1 k SLe (qbound (go_min go) o0 -! e))). left. reflexivity.
    + apply le_sub_iff. apply (H (mkRow KGrid 2 k SLe (e -! of_Q mx))). right. left. reflexivity.
  - intros (H1 & H2) r [<-|[<-|[]]]; cbn [rw_h]; apply le_sub_iff; assumption.
  - intro H. split; [|exact I].
    apply le_sub_iff. apply (H (mkRow KGrid 1 k SLe (qbound (go_min go) o0 -! e))). left. reflexivity.
  - intros (H1 & _) r [<-|[]]. cbn [rw_h]. apply le_sub_iff. exact H1.
Qed.

End Order.

(* FreeGrid: interval k of the control grid is T_local[k], which bounds_T bounds directly;
   bounds_finalize pins the end point to t0 + T *)
Theorem free_grid_partition (go : grid_opts) N (t0 T : F) (t0loc Tloc : list F) :
  go_spec go = GFree -> go_localize_t0 go = false -> length Tloc = N -> 0 < N ->
  let cg := control_grid go N t0 T t0loc Tloc in
  length cg = S N /\ nth 0 cg o0 = t0 /\
  (forall k, k < N -> nth (S k) cg o0 -! nth k cg o0 = nth k Tloc o0) /\
  ((forall r, In r (bounds_finalize go cg t0 T) -> rw_h r = o0) <-> nth N cg o0 = t0 +! T).
Proof.
  intros Hs Hl0 HT HN. cbn zeta. unfold control_grid, loc_T, is_free, T_local. rewrite Hs, Hl0.
  rewrite orb_true_r. repeat split.
  - rewrite cumsum_length, HT. reflexivity.
  - apply cumsum_first.
  - intros k Hk. apply cumsum_increments. lia.
  - intro H. unfold bounds_finalize, is_free in H. rewrite Hs in H.
    specialize (H _ (or_introl eq_refl)). cbn [rw_h] in H.
    apply (proj1 (sub_zero_iff Fth _ _)) in H.
    rewrite pygetd_m1 in H by (rewrite cumsum_length; lia).
    rewrite cumsum_length, HT in H. replace (S N - 1) with N in H by lia. exact H.
  - intros H r Hr. unfold bounds_finalize, is_free in Hr. rewrite Hs in Hr.
    destruct Hr as [<-|[]]. cbn [rw_h].
    rewrite pygetd_m1 by (rewrite cumsum_length; lia).
    rewrite cumsum_length, HT. replace (S N - 1) with N by lia. rewrite H. ring.
Qed.

(* UniformGrid (not localized), free horizon: the rows bounds_T emits at k = 0 bound every interval *)
Section UniformMinMax.
Variable le : F -> F -> Prop.
Hypothesis le_add : forall a b c, le a b -> le (a +! c) (b +! c).

Theorem uniform_minmax_enforced (go : grid_opts) N (t0 T : F) Tl t0l :
  go_spec go = GUniform -> go_localize_t0 go = false -> go_localize_T go = false -> 0 < N ->
  (go_min go <> None \/ go_max go <> None) ->
  (forall r, In r (bounds_T go N true T Tl t0l 0) -> le (rw_h r) o0) ->
  forall k, k < N ->
    let cg := time_grid GUniform t0 T N in
    let len := nth (S k) cg o0 -! nth k cg o0 in
    le (qbound (go_min go) o0) len /\
    match go_max go with Some mx => le len (of_Q mx) | None => True end.
Proof.
  intros Hs Hl0 HlT HN Hmm Hrows k Hk. cbn zeta.
  destruct (uniform_grid t0 T N HN) as (_ & _ & _ & Hnth).
  rewrite !Hnth by lia. rewrite (of_nat_S Fth).
  assert (Hn : (@of_nat F OF N) <> o0) by (apply (of_nat_nz Ch0); lia).
  replace (t0 +! (of_nat k +! o1) *! (T /! of_nat N) -! (t0 +! of_nat k *! (T /! of_nat N)))
    with (T /! of_nat N) by (field; exact Hn).
  apply (minmax_rows_iff le le_add go 0).
  intros r Hr. apply Hrows.
  unfold bounds_T, loc_T, is_free. rewrite Hs, HlT. cbn [orb Nat.eqb].
  apply in_or_app. left.
  destruct (go_min go), (go_max go); try exact Hr.
  destruct Hmm as [H|H]; congruence.
Qed.

(* FunctionGrid / DensityGrid (not localized), free horizon: the rows emitted at k bound interval k *)
Theorem nodes_minmax_enforced (go : grid_opts) (nodes : list Q) N (t0 T : F) Tl t0l :
  go_spec go = GNodes nodes -> go_localize_T go = false ->
  (go_min go <> None \/ go_max go <> None) ->
  forall k, S k < length nodes ->
  (forall r, In r (bounds_T go N true T Tl t0l k) -> le (rw_h r) o0) ->
    let cg := time_grid (GNodes nodes) t0 T N in
    let len := nth (S k) cg o0 -! nth k cg o0 in
    le (qbound (go_min go) o0) len /\
    match go_max go with Some mx => le len (of_Q mx) | None => True end.
Proof.
  intros Hs HlT Hmm k Hk Hrows. cbn zeta.
  rewrite !nodes_grid.
  assert (E1 : Nat.ltb (S k) (length nodes) = true) by (apply Nat.ltb_lt; lia).
  assert (E2 : Nat.ltb k (length nodes) = true) by (apply Nat.ltb_lt; lia).
  rewrite E1, E2.
  replace (t0 +! of_Q (nth (S k) nodes 0%Q) *! T -! (t0 +! of_Q (nth k nodes 0%Q) *! T))
    with (T *! (of_Q (nth (S k) nodes 0%Q) -! of_Q (nth k nodes 0%Q))) by ring.
  apply (minmax_rows_iff le le_add go (Z.of_nat k)).
  intros r Hr. apply Hrows.
  unfold bounds_T, loc_T, is_free. rewrite Hs, HlT. cbn [orb].
  apply in_or_app. left.
  assert (Hn : forall j, nth j (@normalized F OF (GNodes nodes) N) o0 = of_Q (nth j nodes 0%Q) \/ length nodes <= j).
  { intro j. cbn [normalized]. destruct (Nat.lt_ge_cases j (length nodes)) as [Hj|Hj]; [left|right; exact Hj].
    rewrite (nth_indep _ o0 (of_Q 0%Q)) by (rewrite map_length; exact Hj). apply (map_nth of_Q). }
  destruct (Hn (S k)) as [A|A]; [|lia]. destruct (Hn k) as [B|B]; [|lia].
  rewrite A, B.
  destruct (go_min go), (go_max go); try exact Hr.
  destruct Hmm as [H|H]; congruence.
Qed.

End UniformMinMax.

End GridProofs.
