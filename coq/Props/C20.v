(* Property C20 — ill-posed specifications are rejected, never silently transcribed.
   Statements only; proofs in Proofs/IllProofs.v. *)
From Coq Require Import List Bool Arith.
From RV Require Import Mech.Illposed Proofs.IllProofs.
Import ListNotations.

(* whatever the rejection logic lets through is well posed (and conversely) *)
Theorem C20_accepted_iff_wellposed : forall s : ispec, accepts s = true <-> wellposed s.
Proof. exact accepted_is_wellposed. Qed.
Print Assumptions C20_accepted_iff_wellposed.

(* a single fault of the catalogue, wherever it sits in the declaration lists, is rejected *)
Theorem C20_fault_anywhere_rejected :
  forall s : ispec,
    (In false (i_has_rule s) \/ In false (i_has_value s) \/ In false (i_obj_nonsignal s) \/
     In false (i_obj_scalar s) \/ In false (i_setvalue_on_param s) \/ In false (i_setinitial_on_var s) \/
     In false (i_grid_known s) \/ In false (i_symbols_owned s) \/ In false (i_constr_not_false s) \/
     method_ok s = false \/ i_solver s = false \/ i_horizon_free_ode s = false) ->
    accepts s = false.
Proof. exact any_false_flag_rejected. Qed.
Print Assumptions C20_fault_anywhere_rejected.

Theorem C20_missing_rule_or_value_at_any_position :
  forall s k,
    (k < length (i_has_rule s) ->
       accepts (mkI (clear_at (i_has_rule s) k) (i_has_value s) (i_has_dynamics s) (i_method s) (i_solver s)
               (i_obj_nonsignal s) (i_obj_scalar s) (i_setvalue_on_param s) (i_setinitial_on_var s)
               (i_grid_known s) (i_symbols_owned s) (i_constr_not_false s) (i_nalg s) (i_explicit_scheme s)
               (i_horizon_free_ode s) (i_nroots_constraints s) (i_chain_linear s)) = false) /\
    (k < length (i_has_value s) ->
       accepts (mkI (i_has_rule s) (clear_at (i_has_value s) k) (i_has_dynamics s) (i_method s) (i_solver s)
               (i_obj_nonsignal s) (i_obj_scalar s) (i_setvalue_on_param s) (i_setinitial_on_var s)
               (i_grid_known s) (i_symbols_owned s) (i_constr_not_false s) (i_nalg s) (i_explicit_scheme s)
               (i_horizon_free_ode s) (i_nroots_constraints s) (i_chain_linear s)) = false).
Proof. intros s k. split; [apply missing_rule_rejected|apply missing_value_rejected]. Qed.
Print Assumptions C20_missing_rule_or_value_at_any_position.

(* method-specific restrictions: no method with dynamics; algebraic equations with an explicit
   scheme or integrator_roots constraints under shooting; non-chain dynamics under SplineMethod *)
Theorem C20_method_restrictions :
  forall s : ispec,
    (i_method s = None -> i_has_dynamics s = true -> method_ok s = false) /\
    (forall m, i_method s = Some m -> (m = KMS \/ m = KSS) ->
       (i_explicit_scheme s = true /\ i_nalg s <> 0) \/ i_nroots_constraints s <> 0 -> method_ok s = false) /\
    (i_method s = Some KSpline -> i_chain_linear s = false -> method_ok s = false).
Proof. exact method_restrictions. Qed.
Print Assumptions C20_method_restrictions.

Example C20_nonvacuous :
  accepts (mkI [true; true] [true] true (Some KMS) true [true] [true] [] [] [true] [true] [true] 0 true true 0 true) = true /\
  accepts (mkI [true; false] [true] true (Some KMS) true [true] [true] [] [] [true] [true] [true] 0 true true 0 true) = false.
Proof. split; reflexivity. Qed.
