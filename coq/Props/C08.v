(* Property C08 — refined sampling and samplers interpolate the discrete solution consistently.
   Statements only; proofs in Proofs/RefineProofs.v (and ColProofs.v for collocation). *)
From Coq Require Import ZArith QArith Qcanon List Lia Bool.
From RV Require Import Proofs.VacuityA Base.Num Base.PyList Base.Vec Base.Poly Expr Ocp Rows Mech.Grid Mech.Intg
     Mech.Sampling Mech.Refine Mech.Shooting Mech.Colloc Spec.SpecColloc Inst Proofs.QcInst Proofs.RefineProofs Proofs.ColProofs
     Proofs.QuadProofs Proofs.DenseDC.
Import ListNotations.
Local Open Scope nat_scope.

(* 'rk': the degree-4 polynomial of an integrator step starts at the step's start state (so every
   r-th refined entry is the unrefined integrator sample), has the ODE right-hand side there as
   initial slope, and ends at the step's end state (so the refined trajectory is continuous at
   points satisfying the gap-closing constraints) *)
Theorem C08_rk_dense_output :
  forall (F : Type) (OF : Ops F), FieldLaws OF -> @Char0 F OF ->
  forall (f : sysfun F) (n : nat), (forall x t, length (s_ode f x t) = n) ->
  forall X t0 DT DTc, length X = n -> DT <> o0 ->
    let r := intg_rk f X t0 DT DTc in
    dense_eval (r_poly r) o0 = X /\
    nth 1 (r_poly r) [] = s_ode f X t0 /\
    dense_eval (r_poly r) DT = r_xf r.
Proof.
  intros F OF Fl C f n Ho X t0 DT DTc HX HDT. cbn zeta. split; [|split].
  - exact (rk_dense_start Fl f n Ho X t0 DT DTc HX).
  - exact (rk_dense_slope0 f X t0 DT DTc).
  - exact (rk_dense_end Fl C f n Ho X t0 DT DTc HX HDT).
Qed.
Print Assumptions C08_rk_dense_output.

(* 'expl_euler': the degree-1 polynomial X + k*tau *)
Theorem C08_euler_dense_output :
  forall (F : Type) (OF : Ops F), FieldLaws OF ->
  forall (f : sysfun F) n X t0 DT DTc,
    (forall x t, length (s_ode f x t) = n) -> length X = n ->
    let r := intg_expl_euler f X t0 DT DTc in
    dense_eval (r_poly r) o0 = X /\ nth 1 (r_poly r) [] = s_ode f X t0 /\ dense_eval (r_poly r) DT = r_xf r.
Proof. intros F OF Fl f n X t0 DT DTc H1 H2. exact (euler_dense Fl f n X t0 DT DTc H1 H2). Qed.
Print Assumptions C08_euler_dense_output.

(* collocation: rockit stores the Lagrange basis in the power basis of physical local time
   (coefficient p divided by dt^p); evaluating that at tau = s*dt is evaluating the basis
   polynomial at the normalised time s, where it passes through the helper states
   (C02_polynomial_through_states) *)
Theorem C08_collocation_power_basis_rescaling :
  forall (F : Type) (OF : Ops F), FieldLaws OF ->
  forall (c : list F) (dt s : F) (p : nat), dt <> o0 ->
    opow dt p *! polyval (scale_coeffs c dt p) (s *! dt) = polyval c s.
Proof. intros F OF Fl c dt s p H. exact (polyval_rescaled Fl c dt s p H). Qed.
Print Assumptions C08_collocation_power_basis_rescaling.

(* non-vacuity: one RK4 step of x' = x from x = 1 with DT = 1/2 over Qc: the polynomial ends at
   the RK4 end state 211/128 = 1 + 1/2 + 1/8 + 1/48 + 1/384 *)
Local Existing Instance QcOps.
(* DirectCollocation: the stored dense-output columns of an integrator step (power-basis coefficients
   of the Lagrange basis over [0]+tau, rescaled by dt^p, combined with the step's start and helper
   states) evaluate, at local time dt*node_m, to state m of the step: refined samples interpolate the
   collocation states, for any pairwise distinct points and any step length *)
Theorem C08_collocation_dense_output_interpolates :
  forall (F : Type) (OF : Ops F), FieldLaws OF ->
  forall (nodes : list F) (dt : F) (Xs : list (list F)) (m i : nat),
    distinct nodes -> dt <> o0 -> length Xs = length nodes -> m < length nodes ->
    vnth (dense_eval (dense_cols nodes dt Xs) (dt *! nth m nodes o0)) i = vnth (nth m Xs []) i.
Proof. intros F OF Fl nodes dt Xs m i H1 H2 H3 H4. exact (dense_cols_interpolates Fl nodes dt Xs m i H1 H2 H3 H4). Qed.
Print Assumptions C08_collocation_dense_output_interpolates.

(* ... and these columns are what the model of DirectCollocation stores for refined sampling *)
Theorem C08_model_poly_is_dense_cols :
  forall (F : Type) (OF : Ops F) (oc : ocp) (pt : point F),
    L_poly (dc_lists oc pt) =
    map (fun ki => dense_cols (tau_root (map of_Q (m_tau (o_method oc)))) (dt_k oc pt (fst ki))
                              (Xc_full pt (fst ki) (snd ki)))
        (steps oc).
Proof. intros F OF oc pt. exact (dc_poly_is_dense_cols oc pt). Qed.
Print Assumptions C08_model_poly_is_dense_cols.

Example C08_nonvacuous :
  let f := {| s_ode := fun x (_ : Qc) => x; s_quad := fun _ _ => [] |} in
  let r := @intg_rk Qc QcOps f [Q2Qc 1] (Q2Qc 0) (Q2Qc (1#2)) (Q2Qc 1) in
  map (fun q => this q) (dense_eval (r_poly r) (Q2Qc (1#2))) = [(211#128)%Q] /\
  map (fun q => this q) (r_xf r) = [(211#128)%Q].
Proof. split; vm_compute; reflexivity. Qed.

(* further witnesses that the hypotheses of this file's theorems are met by realistic inputs (N = 1, M = 1, no controls,
   t0 = 0, concrete grids / collocation points): proved in Proofs/VacuityA.v by the vacuity audit *)
Example C08_more_witnesses : True.
Proof. pose proof sysfun_length_hyp_satisfiable as _. pose proof distinct_radau2 as _. exact I. Qed.
