(* Property C01 — Shooting transcription encodes exactly the chosen integration scheme.
   Only statements, closed by the lemmas of Proofs/, and their assumptions. *)
From Coq Require Import ZArith QArith Qcanon List Lia Bool.
From RV Require Import Proofs.VacuityA Base.Num Base.Vec Expr Ocp Rows Mech.Grid Mech.Intg Mech.Sampling
     Mech.Shooting Spec.SpecDyn Inst Proofs.QcInst Proofs.DynProofs Proofs.ShootProofs Proofs.C01Final.
Import ListNotations.
Local Open Scope nat_scope.

(* intg_rk is the explicit Runge-Kutta step of the classical RK4 tableau: stage times
   t, t+h/2, t+h/2, t+h, weights 1/6, 1/3, 1/3, 1/6 — states and quadratures *)
Theorem C01_rk_step_is_RK4 :
  forall (F : Type) (OF : Ops F), FieldLaws OF -> @Char0 F OF ->
  forall (f : sysfun F) (n nq : nat),
    (forall x t, length (s_ode f x t) = n) -> (forall x t, length (s_quad f x t) = nq) ->
  forall X t0 DT DTc, length X = n ->
    r_xf (intg_rk f X t0 DT DTc) = erk_step rk4_tableau (s_ode f) DT t0 X /\
    r_qf (intg_rk f X t0 DT DTc) = erk_quad rk4_tableau (s_ode f) (s_quad f) DT t0 X.
Proof.
  intros F OF L C f n nq Ho Hq X t0 DT DTc HX. split.
  - exact (intg_rk_is_erk L C f n Ho X t0 DT DTc HX).
  - exact (intg_rk_quad_is_erk L C f n nq Ho Hq X t0 DT DTc HX).
Qed.
Print Assumptions C01_rk_step_is_RK4.

Theorem C01_euler_step_is_Euler :
  forall (F : Type) (OF : Ops F), FieldLaws OF ->
  forall (f : sysfun F) X t0 DT DTc,
    r_xf (intg_expl_euler f X t0 DT DTc) = erk_step euler_tableau (s_ode f) DT t0 X /\
    r_qf (intg_expl_euler f X t0 DT DTc) = erk_quad euler_tableau (s_ode f) (s_quad f) DT t0 X.
Proof.
  intros F OF L f X t0 DT DTc. split.
  - exact (intg_euler_is_erk L f X t0 DT DTc).
  - exact (intg_euler_quad_is_erk L f X t0 DT DTc).
Qed.
Print Assumptions C01_euler_step_is_Euler.

(* discrete_system (accumulators t0_local += DT, quad += qf) = M-fold composition with
   step j at the absolute time t0 + j*(T/M); intermediate outputs Xi are the iterates *)
Theorem C01_discrete_system_is_M_steps :
  forall (F : Type) (OF : Ops F), FieldLaws OF ->
  forall (step : list F -> F -> F -> F -> step_result F) x0 T t0 M nq,
    let DT := T /! of_nat M in
    let Phi := fun t x => r_xf (step x t DT T) in
    let Psi := fun t x => r_qf (step x t DT T) in
    ds_xf x0 (discrete_system step M nq x0 T t0) = iter_steps Phi t0 DT M x0 /\
    ds_quad (discrete_system step M nq x0 T t0) = iter_quad Phi Psi t0 DT M x0 (vzero nq) /\
    forall j, j <= M -> nth j (ds_X (discrete_system step M nq x0 T t0)) x0 = iter_steps Phi t0 DT j x0.
Proof.
  intros F OF L step x0 T t0 M nq DT Phi Psi. repeat split.
  - exact (discrete_system_iter L step x0 T t0 M nq).
  - exact (discrete_system_quad L step x0 T t0 M nq).
  - exact (discrete_system_Xi L step x0 T t0 M nq).
Qed.
Print Assumptions C01_discrete_system_is_M_steps.

(* the rows of kind dyn of the MultipleShooting NLP are exactly, for every interval k < N and
   state slot i < nx, the residual (X_{k+1} - Phi_k(X_k))_i / scale_i — nothing else is a
   dynamic row, none is missing *)
Theorem C01_ms_dyn_rows_are_gap_residuals :
  forall (F : Type) (OF : Ops F), FieldLaws OF ->
  forall (oc : ocp) (pt : point F) (r : row F),
    (In r (rows_ms oc pt) /\ rw_kind r = KDyn) <->
    exists k i, k < m_N (o_method oc) /\ i < o_nx oc /\
      r = mkRow KDyn i (Z.of_nat k) SEq
            ((nth i (nth (S k) (p_X pt) []) o0 -! nth i (Phi_k oc pt k (nth k (p_X pt) [])) o0)
               /! of_Q (nth i (o_scale_x oc) 1%Q)).
Proof. intros F OF L oc pt r. exact (ms_dyn_rows_spec oc pt r). Qed.
Print Assumptions C01_ms_dyn_rows_are_gap_residuals.

(* the dynamic constraints hold at a point exactly when every interval end state is the
   propagated start state *)
Theorem C01_ms_dynamics_iff :
  forall (F : Type) (OF : Ops F), FieldLaws OF ->
  forall (oc : ocp) (pt : point F),
    (forall k, k <= m_N (o_method oc) -> length (nth k (p_X pt) []) = o_nx oc) ->
    (forall k, k < m_N (o_method oc) -> length (Phi_k oc pt k (nth k (p_X pt) [])) = o_nx oc) ->
    (forall i, i < o_nx oc -> of_Q (nth i (o_scale_x oc) 1%Q) <> (o0 : F)) ->
    ((forall r, In r (rows_ms oc pt) -> rw_kind r = KDyn -> rw_h r = o0) <->
     (forall k, k < m_N (o_method oc) ->
        nth (S k) (p_X pt) [] = Phi_k oc pt k (nth k (p_X pt) []))).
Proof. exact C01_ms_dynamics_iff_fixed. Qed.
Print Assumptions C01_ms_dynamics_iff.
(* The second hypothesis asks for the length of the propagated state of the NODE states only.  Until the vacuity audit of
   round 4 it read `forall k x, ... length (Phi_k oc pt k x) = o_nx oc`, over every list x; the rk / expl_euler step maps pad
   with zeros and never shorten their argument, so a list of length nx+1 refuted it for every N >= 1: the theorem was
   vacuous for rk and expl_euler (Proofs/VacuityA.v: C01_ms_dynamics_iff_hyp_false_on_rk_euler; the corrected
   hypotheses hold on this file's own example: C01_ms_dynamics_iff_fixed_nonvacuous). *)

(* SingleShooting reports as states the recursion from the initial state *)
Theorem C01_ss_states_recursion :
  forall (F : Type) (OF : Ops F) (oc : ocp) (pt : point F),
    let Xs := L_X (lists_of oc pt true) in
    nth 0 Xs [] = nth 0 (p_X pt) [] /\
    forall k, k < m_N (o_method oc) -> nth (S k) Xs [] = Phi_k oc pt k (nth k Xs []).
Proof. intros F OF oc pt. exact (ss_states_recursion oc pt). Qed.
Print Assumptions C01_ss_states_recursion.

(* Phi_k is M steps of the scheme with the interval's own step h_k = (t_{k+1}-t_k)/M, stage
   evaluations at absolute times, and the control / parameter / variable columns of interval k
   (sys_env pt k): RK4, Euler, and the discrete-time update seeing DT=h_k, DT_control=t_{k+1}-t_k *)
Theorem C01_interval_map :
  forall (F : Type) (OF : Ops F), FieldLaws OF -> @Char0 F OF ->
  forall (oc : ocp) (pt : point F) k x,
    let M := m_M (o_method oc) in
    (m_intg (o_method oc) = IRK -> length x = length (o_ode oc) ->
       Phi_k oc pt k x =
       iter_steps (erk_step rk4_tableau (s_ode (sys_of oc pt k)) (h_k oc pt k)) (t_k oc pt k) (h_k oc pt k) M x) /\
    (m_intg (o_method oc) = IEuler -> length x = length (o_ode oc) ->
       Phi_k oc pt k x =
       iter_steps (erk_step euler_tableau (s_ode (sys_of oc pt k)) (h_k oc pt k)) (t_k oc pt k) (h_k oc pt k) M x) /\
    (m_intg (o_method oc) = INext ->
       Phi_k oc pt k x =
       iter_steps (fun t y => map (eval0 (sys_env pt k y t (h_k oc pt k) (len_k oc pt k))) (o_ode oc))
                  (t_k oc pt k) (h_k oc pt k) M x).
Proof.
  intros F OF L C oc pt k x M. repeat split.
  - exact (Phi_k_rk4 L C oc pt k x).
  - exact (Phi_k_euler L oc pt k x).
  - exact (Phi_k_next L oc pt k x).
Qed.
Print Assumptions C01_interval_map.

(* the rationals satisfy the hypotheses on the carrier *)
Example C01_carrier_nonvacuous : FieldLaws QcOps /\ @Char0 Qc QcOps.
Proof. split; [exact QcLaws|exact Qc_char0]. Qed.

(* non-vacuity: x' = x + u by explicit Euler, N = 2, M = 2 on [0,1]; a point that satisfies the
   hypotheses and the recursion (X = 1, 17/8, 497/128 with u = 1, 1), checked by computation *)
Definition ex_oc : ocp :=
  mkOcp 1 1 0 [EAdd (ES (SX 0)) (ES (SU 0))] [] [] [1%Q] [1%Q] [] [1%Q] [] [] [] [] []
        (HFixed 0) (HFixed 1)
        (mkMethod MS 2 2 IEuler (mkGridOpts GUniform false false None None) []).
Definition qc (a : Z) (b : positive) : Qc := Q2Qc (Qmake a b).
Definition ex_pt : point Qc :=
  @mkPoint Qc [[qc 1 1]; [qc 17 8]; [qc 497 128]] [[qc 1 1]; [qc 1 1]] [] [] [] [] [] []
           (qc 1 1) (qc 0 1) [] [] [] [] [].
Example C01_nonvacuous :
  (forall k, k <= 2 -> length (nth k (p_X ex_pt) []) = 1) /\
  forallb (fun r => match rw_kind r with
                    | KDyn => Qeq_bool (this (rw_h r)) 0 | _ => true end)
          (@rows_ms Qc QcOps ex_oc ex_pt) = true /\
  length (@rows_ms Qc QcOps ex_oc ex_pt) = 2.
Proof.
  split; [|split].
  - intros k Hk. destruct k as [|[|[|k]]]; try reflexivity; lia.
  - vm_compute. reflexivity.
  - vm_compute. reflexivity.
Qed.
