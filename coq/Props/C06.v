(* Property C06 — the time grid is the declared partition of [t0, t0+T].
   Statements only; proofs in Proofs/GridProofs.v and Proofs/GridLemmas.v. *)
From Coq Require Import ZArith QArith Qcanon List Lia Bool.
From RV Require Import Proofs.VacuityA Base.Num Base.PyList Base.Vec Expr Ocp Rows Mech.Grid
     Inst Proofs.QcInst Proofs.GridLemmas Proofs.GridProofs.
Import ListNotations.
Local Open Scope nat_scope.

(* UniformGrid: N+1 nodes, t_0 = t0, t_N = t0+T exactly, t_k = t0 + k*T/N *)
Theorem C06_uniform_nodes :
  forall (F : Type) (OF : Ops F), FieldLaws OF -> @Char0 F OF ->
  forall (t0 T : F) N, 0 < N ->
    length (time_grid GUniform t0 T N) = S N /\
    nth 0 (time_grid GUniform t0 T N) o0 = t0 /\
    nth N (time_grid GUniform t0 T N) o0 = t0 +! T /\
    forall k, k <= N -> nth k (time_grid GUniform t0 T N) o0 = t0 +! of_nat k *! (T /! of_nat N).
Proof. intros F OF Fl C t0 T N H. exact (uniform_grid Fl C t0 T N H). Qed.
Print Assumptions C06_uniform_nodes.

(* FunctionGrid / DensityGrid: node k is t0 + n_k*T for the declared normalised locations *)
Theorem C06_function_grid_nodes :
  forall (F : Type) (OF : Ops F) (t0 T : F) (n : list Q) N k,
    nth k (time_grid (GNodes n) t0 T N) o0 =
    if Nat.ltb k (length n) then t0 +! of_Q (nth k n 0%Q) *! T else o0.
Proof. intros F OF t0 T n N k. exact (nodes_grid t0 T n N k). Qed.
Print Assumptions C06_function_grid_nodes.

(* GeometricGrid: starts at 0, ends at 1, consecutive intervals in constant ratio g, the last
   interval g^(N-1) times the first (= growth factor when not local, where g^(N-1) = growth) *)
Theorem C06_geometric_ratio :
  forall (F : Type) (OF : Ops F), FieldLaws OF ->
  forall (gq : Q) (loc : bool) N,
    0 < N -> last (geo_vec (of_Q gq) N) o0 <> (o0 : F) ->
    let nrm := normalized (GGeometric gq loc) N in
    let d := fun k => nth (S k) nrm o0 -! nth k nrm o0 in
    length nrm = S N /\ nth 0 nrm o0 = o0 /\ nth N nrm o0 = o1 /\
    (forall k, S k < N -> d (S k) = of_Q gq *! d k) /\
    (forall k, k < N -> d k = opow (of_Q gq) k *! d 0).
Proof. intros F OF Fl gq loc N H1 H2. exact (geometric_normalized Fl gq loc N H1 H2). Qed.
Print Assumptions C06_geometric_ratio.

(* the integrator grid splits control interval k into M equal steps: DT seen at (k, i) and at the
   final node is (t_{k+1} - t_k)/M *)
Theorem C06_integrator_equal_steps :
  forall (F : Type) (OF : Ops F), FieldLaws OF -> @Char0 F OF ->
  forall (cg : list F) N M, 0 < M ->
    (forall k i, k < N -> i < M ->
       get_DT_at (integrator_grid cg N M) (Z.of_nat k) i = (nth (S k) cg o0 -! nth k cg o0) /! of_nat M) /\
    (0 < N -> get_DT_at (integrator_grid cg N M) (-1) (M - 1)
              = (nth N cg o0 -! nth (N - 1) cg o0) /! of_nat M).
Proof.
  intros F OF Fl C cg N M HM. split.
  - intros k i Hk Hi. exact (get_DT_at_spec Fl C cg N M HM k i Hk Hi).
  - intro HN. exact (get_DT_at_final Fl C cg N M HM HN).
Qed.
Print Assumptions C06_integrator_equal_steps.

(* FreeGrid: the grid is the running sum of the T_local variables; its end point is pinned to
   t0 + T by the grid's own constraint *)
Theorem C06_free_grid_partition :
  forall (F : Type) (OF : Ops F), FieldLaws OF ->
  forall (go : grid_opts) N (t0 T : F) (t0loc Tloc : list F),
    go_spec go = GFree -> go_localize_t0 go = false -> length Tloc = N -> 0 < N ->
    let cg := control_grid go N t0 T t0loc Tloc in
    length cg = S N /\ nth 0 cg o0 = t0 /\
    (forall k, k < N -> nth (S k) cg o0 -! nth k cg o0 = nth k Tloc o0) /\
    ((forall r, In r (bounds_finalize go cg t0 T) -> rw_h r = o0) <-> nth N cg o0 = t0 +! T).
Proof. intros F OF Fl go N t0 T t0l Tl H1 H2 H3 H4. exact (free_grid_partition Fl go N t0 T t0l Tl H1 H2 H3 H4). Qed.
Print Assumptions C06_free_grid_partition.

(* min/max: the rows  min <= (e <= max)  are satisfied exactly when min <= e <= max (any order
   compatible with addition), and for a non-localized UniformGrid with a free horizon the rows
   emitted at k = 0 bound every control interval *)
Theorem C06_minmax_enforced_uniform :
  forall (F : Type) (OF : Ops F), FieldLaws OF -> @Char0 F OF ->
  forall (le : F -> F -> Prop), (forall a b c, le a b -> le (a +! c) (b +! c)) ->
  forall (go : grid_opts) N (t0 T : F) Tl t0l,
    go_spec go = GUniform -> go_localize_t0 go = false -> go_localize_T go = false -> 0 < N ->
    (go_min go <> None \/ go_max go <> None) ->
    (forall r, In r (bounds_T go N true T Tl t0l 0) -> le (rw_h r) o0) ->
    forall k, k < N ->
      let cg := time_grid GUniform t0 T N in
      let len := nth (S k) cg o0 -! nth k cg o0 in
      le (qbound (go_min go) o0) len /\
      match go_max go with Some mx => le len (of_Q mx) | None => True end.
Proof.
  intros F OF Fl C le Hle go N t0 T Tl t0l H1 H2 H3 H4 H5 H6 k Hk.
  exact (uniform_minmax_enforced Fl C le Hle go N t0 T Tl t0l H1 H2 H3 H4 H5 H6 k Hk).
Qed.
Print Assumptions C06_minmax_enforced_uniform.

(* FunctionGrid / DensityGrid (given normalised nodes, not localized), free horizon: the rows emitted
   for interval k bound interval k (every interval is bounded; before the repair of F3c these
   grid classes emitted no row at all) *)
Theorem C06_minmax_enforced_nodes :
  forall (F : Type) (OF : Ops F), FieldLaws OF ->
  forall (le : F -> F -> Prop), (forall a b c, le a b -> le (a +! c) (b +! c)) ->
  forall (go : grid_opts) (nodes : list Q) N (t0 T : F) Tl t0l,
    go_spec go = GNodes nodes -> go_localize_T go = false ->
    (go_min go <> None \/ go_max go <> None) ->
    forall k, S k < length nodes ->
    (forall r, In r (bounds_T go N true T Tl t0l k) -> le (rw_h r) o0) ->
      let cg := time_grid (GNodes nodes) t0 T N in
      let len := nth (S k) cg o0 -! nth k cg o0 in
      le (qbound (go_min go) o0) len /\
      match go_max go with Some mx => le len (of_Q mx) | None => True end.
Proof.
  intros F OF Fl le Hle go nodes N t0 T Tl t0l H1 H2 H3 k Hk H4.
  exact (nodes_minmax_enforced Fl le Hle go nodes N t0 T Tl t0l H1 H2 H3 k Hk H4).
Qed.
Print Assumptions C06_minmax_enforced_nodes.

Local Existing Instance QcOps.
Definition qc (a : Z) (b : positive) : Qc := Q2Qc (Qmake a b).
Definition ex_go : grid_opts := mkGridOpts (GNodes [0%Q; (1#2)%Q; 1%Q]) false false None (Some 1%Q).
(* the example that refuted the property before the repair: max = 1, N = 2, T = 8 now yields the row
   4 - 1 <= 0 for both intervals, i.e. the point is infeasible as it should be *)
Example C06_nodes_example :
  map (fun r => rw_h r) (@bounds_T Qc QcOps ex_go 2 true (qc 8 1) [] [] 0) = [qc (-4) 1; qc 3 1].
Proof. vm_compute. reflexivity. Qed.

(* non-vacuity of the order hypothesis (Qc) and of a free-grid instance *)
Example C06_order_nonvacuous : forall a b c : Qc, (a <= b)%Qc -> (a + c <= b + c)%Qc.
Proof. intros a b c H. apply Qcplus_le_compat; [exact H|apply Qcle_refl]. Qed.

(* further witnesses that the hypotheses of this file's theorems are met by realistic inputs (N = 1, M = 1, no controls,
   t0 = 0, concrete grids / collocation points): proved in Proofs/VacuityA.v by the vacuity audit *)
Example C06_more_witnesses : True.
Proof. pose proof C06_geometric_hyp_satisfiable as _. pose proof C06_free_grid_hyp_satisfiable as _. pose proof C06_minmax_uniform_hyp_satisfiable as _. pose proof C06_minmax_nodes_hyp_satisfiable as _. exact I. Qed.
