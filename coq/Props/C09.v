(* Property C09 — a parametric OCP is the family of OCPs with the values written in.
   Statements only; proofs in Proofs/ParamProofs.v (and PlaceProofs.v for per-interval columns). *)
From Coq Require Import ZArith QArith Qcanon List Lia Bool.
From RV Require Import Proofs.VacuityA Base.Num Base.PyList Base.Vec Expr Ocp Rows Mech.Grid Mech.Sampling Mech.Params
     Mech.Shooting Spec.SpecPlace Inst Proofs.QcInst Proofs.ParamProofs Proofs.PlaceProofs.
Import ListNotations.
Local Open Scope nat_scope.

(* an expression with the parameter values written in as constants evaluates like the parametric
   expression wherever the transcription evaluates it: control nodes (with shifted operands),
   integrator points and collocation roots — every environment carries the method's values *)
Theorem C09_param_as_constant :
  forall (F : Type) (OF : Ops F), FieldLaws OF ->
  forall (L : mlists F) (vals : list Q), L_P L = map of_Q vals ->
  forall e : expr,
    (forall k, eval_control L k (subst_p vals e) = eval_control L k e) /\
    (forall k i, eval0 (env_integrator L k i) (subst_p vals e) = eval0 (env_integrator L k i) e) /\
    (forall k i j, eval0 (env_root L k i j) (subst_p vals e) = eval0 (env_root L k i j) e).
Proof.
  intros F OF Fl L vals H e. repeat split.
  - intro k. exact (param_as_constant_control Fl L vals k e H).
  - intros k i. exact (param_as_constant_integrator Fl L vals k i e H).
  - intros k i j. exact (param_as_constant_root Fl L vals k i j e H).
Qed.
Print Assumptions C09_param_as_constant.

(* column k of a per-interval parameter applies on control interval k; the final node takes the
   last interval's column, and with include_last the extra column N *)
Theorem C09_percolumn_interval :
  forall (F : Type) (OF : Ops F), FieldLaws OF -> @Char0 F OF ->
  forall L : mlists F, wf_lists L ->
    (forall k, k < L_N L -> e_pc (env_control L (Z.of_nat k)) = nth k (L_PC L) [] /\
                            e_pp (env_control L (Z.of_nat k)) = nth k (L_PP L) []) /\
    e_pc (env_control L (-1)) = nth (L_N L - 1) (L_PC L) [] /\
    e_pp (env_control L (-1)) = nth (L_N L) (L_PP L) [].
Proof.
  intros F OF Fl C L W. split; [|split].
  - intros k Hk. rewrite (env_control_node Fl C L W k Hk). cbn [spec_env_node e_pc e_pp].
    unfold node_iv. replace (Nat.min k (L_N L - 1)) with k by lia. split; reflexivity.
  - rewrite (env_control_final Fl C L W). cbn [spec_env_node e_pc]. unfold node_iv.
    replace (Nat.min (L_N L) (L_N L - 1)) with (L_N L - 1) by lia. reflexivity.
  - rewrite (env_control_final Fl C L W). reflexivity.
Qed.
Print Assumptions C09_percolumn_interval.

(* a horizon given by a parameter is that parameter's value *)
Theorem C09_horizon_parameter :
  forall (F : Type) (OF : Ops F) (oc : ocp) (pt : point F) i,
    o_T oc = HParam i -> L_T (lists_of oc pt false) = nth i (p_P pt) o0.
Proof. intros F OF oc pt i H. unfold lists_of. cbn [L_T]. unfold T_of. rewrite H. reflexivity. Qed.
Print Assumptions C09_horizon_parameter.

(* set_value: the next solve sees, for every parameter, the last value set — whatever
   transcriptions, queries and invalidating edits are interleaved; a set_value touches that
   parameter only; before or after the first transcription makes no difference *)
Theorem C09_set_value_histories :
  forall (V : Type) (a : assoc V) (ops : list (pop V)),
    (forall i, seen (prun (pinit a) ops) i = last_set ops i (lookup a i)) /\
    (forall (s : pstate V) i v j, PInv V s -> j <> i ->
        seen (pstep s (SetValue i v)) j = seen s j) /\
    (forall i v j, seen (prun (pinit a) [SetValue i v; Transcribe]) j =
                   seen (prun (pinit a) [Transcribe; SetValue i v]) j).
Proof.
  intros V a ops. split; [|split].
  - intro i. exact (set_value_last_wins V a ops i).
  - intros s i v j I H. exact (set_value_only_that_param V s i v j I H).
  - intros i v j. exact (set_value_before_eq_after V a i v j).
Qed.
Print Assumptions C09_set_value_histories.

Example C09_nonvacuous :
  seen (prun (pinit [(0, 1%Z)]) [SetValue 0 2%Z; Transcribe; SetValue 1 5%Z; Edit; SetValue 0 7%Z]) 0 = Some 7%Z /\
  seen (prun (pinit [(0, 1%Z)]) [SetValue 0 2%Z; Transcribe; SetValue 1 5%Z; Edit; SetValue 0 7%Z]) 1 = Some 5%Z.
Proof. split; reflexivity. Qed.

(* further witnesses that the hypotheses of this file's theorems are met by realistic inputs (N = 1, M = 1, no controls,
   t0 = 0, concrete grids / collocation points): proved in Proofs/VacuityA.v by the vacuity audit *)
Example C09_more_witnesses : True.
Proof. pose proof wf_lists_N1_M1_no_controls as _. pose proof C09_param_hyp_satisfiable as _. exact I. Qed.
