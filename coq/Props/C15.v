(* Property C15 — grid='inf' constraints guarantee satisfaction between grid points.
   Statements only; proofs in Proofs/InfProofs.v.
   Proved for every constraint that is polynomial in the states and their inf_der derivatives (sums,
   differences, products, numbers; any degree): the Bernstein-form operations of Mech/Bern.v represent
   the polynomial operations exactly and coefficients below (above) the bound keep the expression below
   (above) it on the whole integrator step.  PARTIAL in one respect: that rockit refuses expressions
   that are not polynomial, and schemes without a degree-4 step polynomial, is decided by the check's
   oracle on rockit, not by a theorem. *)
From Coq Require Import ZArith QArith Qcanon List Lia Bool.
From RV Require Import Proofs.VacuityB Base.Num Base.PyList Base.Vec Base.Poly Expr Ocp Rows Mech.Grid Mech.Sampling Mech.Inf Mech.Bern
     Inst Proofs.QcInst Proofs.InfProofs Proofs.BernProofs.
Import ListNotations.
Local Open Scope nat_scope.

(* the literal power-to-Bernstein matrix represents the same polynomial, for every s *)
Theorem C15_power_to_bernstein_exact :
  forall (F : Type) (OF : Ops F), FieldLaws OF -> @Char0 F OF ->
  forall a0 a1 a2 a3 a4 s : F,
    bern4_poly (bernstein4 [a0; a1; a2; a3; a4]) s
    = a0 +! a1 *! s +! a2 *! s *! s +! a3 *! s *! s *! s +! a4 *! s *! s *! s *! s.
Proof. intros F OF Fl C a0 a1 a2 a3 a4 s. exact (p2b4_correct Fl C a0 a1 a2 a3 a4 s). Qed.
Print Assumptions C15_power_to_bernstein_exact.

(* sufficiency: if all five Bernstein coefficients are below c, the polynomial is below c at every
   normalised time s in [0,1] — i.e. at every time of the integrator step the coefficients were
   rescaled with (any ordered field) *)
Theorem C15_coefficients_bound_the_polynomial :
  forall (F : Type) (OF : Ops F), FieldLaws OF ->
  forall (le : F -> F -> Prop),
    (forall a, le a a) ->
    (forall a b c d, le a b -> le c d -> le (a +! c) (b +! d)) ->
    (forall a b c, le o0 c -> le a b -> le (a *! c) (b *! c)) ->
    (forall a b, le o0 a -> le o0 b -> le o0 (a *! b)) ->
    le o0 o1 ->
  forall b0 b1 b2 b3 b4 c s : F,
    le o0 s -> le s o1 -> le b0 c -> le b1 c -> le b2 c -> le b3 c -> le b4 c ->
    le (bern4_poly [b0; b1; b2; b3; b4] s) c.
Proof.
  intros F OF Fl le H1 H3 H4 H5 H6 b0 b1 b2 b3 b4 c s.
  exact (bernstein_bound Fl le H1 H3 H4 H5 H6 b0 b1 b2 b3 b4 c s).
Qed.
Print Assumptions C15_coefficients_bound_the_polynomial.

(* ---- constraints polynomial in the states: the BSpline operators of rockit/splines *)

(* product (degree m+n), sum and difference (after raising to the common degree), degree elevation:
   each represents the corresponding operation on the polynomials, identically in s *)
Theorem C15_bernstein_product_exact :
  forall (F : Type) (OF : Ops F), FieldLaws OF -> @Char0 F OF ->
  forall (a b : list F) (s : F), a <> [] -> b <> [] ->
    bpoly (bmul a b) s = bpoly a s *! bpoly b s /\ length (bmul a b) = length a + length b - 1.
Proof. intros F OF Fl C a b s Ha Hb. exact (conj (bpoly_bmul Fl C a b s Ha Hb) (bmul_length a b Ha Hb)). Qed.
Print Assumptions C15_bernstein_product_exact.

Theorem C15_bernstein_sum_exact :
  forall (F : Type) (OF : Ops F), FieldLaws OF -> @Char0 F OF ->
  forall (a b : list F) (s : F), a <> [] -> b <> [] ->
    bpoly (badd a b) s = bpoly a s +! bpoly b s /\ bpoly (bsub a b) s = bpoly a s -! bpoly b s /\
    length (badd a b) = Nat.max (length a) (length b) /\ length (bsub a b) = Nat.max (length a) (length b).
Proof.
  intros F OF Fl C a b s Ha Hb.
  exact (conj (bpoly_badd Fl C a b s Ha Hb) (conj (bpoly_bsub Fl C a b s Ha Hb)
        (conj (badd_length Fl C a b Ha Hb) (bsub_length Fl C a b Ha Hb)))).
Qed.
Print Assumptions C15_bernstein_sum_exact.

(* the re-interpreted constraint expression represents the expression evaluated on the represented
   state polynomials (and their time derivatives), for every expression *)
Theorem C15_reinterpretation_exact :
  forall (F : Type) (OF : Ops F), FieldLaws OF -> @Char0 F OF ->
  forall (X : nat -> list F) (h : F) (xv dxv : nat -> F) (s : F),
    (forall j, X j <> []) -> (forall j, bderiv (X j) <> []) ->
    (forall j, bpoly (X j) s = xv j) -> (forall j, bpoly (bderiv (X j)) s /! h = dxv j) -> h <> o0 ->
    forall e, bpoly (bern_of X h e) s = beval xv dxv e.
Proof. intros F OF Fl C X h xv dxv s H1 H2 H3 H4 H5 e. exact (proj2 (bern_of_correct Fl C X h xv dxv s H1 H2 H3 H4 H5 e)). Qed.
Print Assumptions C15_reinterpretation_exact.

(* the certificate for every degree: coefficients below c keep the polynomial below c on [0,1] *)
Theorem C15_coefficients_bound_any_degree :
  forall (F : Type) (OF : Ops F), FieldLaws OF ->
  forall (le : F -> F -> Prop),
    (forall a, le a a) ->
    (forall a b c d, le a b -> le c d -> le (a +! c) (b +! d)) ->
    (forall a b c, le o0 c -> le a b -> le (a *! c) (b *! c)) ->
    (forall a b, le o0 a -> le o0 b -> le o0 (a *! b)) ->
    le o0 o1 ->
  forall (b : list F) (c s : F),
    b <> [] -> le o0 s -> le s o1 ->
    (Forall (fun v => le v c) b -> le (bpoly b s) c) /\ (Forall (fun v => le c v) b -> le c (bpoly b s)).
Proof.
  intros F OF Fl le H1 H3 H4 H5 H6 b c s Hb H0 Hs.
  exact (conj (bernstein_bound_any_degree Fl le H1 H3 H4 H5 H6 b c s Hb H0 Hs)
              (bernstein_lower_bound_any_degree Fl le H1 H3 H4 H5 H6 b c s Hb H0 Hs)).
Qed.
Print Assumptions C15_coefficients_bound_any_degree.

(* the property for the model's rows: if all rows generated for a polynomial constraint on integrator
   step (k,l) hold, the constraint holds at every time tau = s*h of that step, with every state
   replaced by its degree-4 step polynomial and every inf_der by that polynomial's time derivative *)
Theorem C15_polynomial_constraint_holds_between_grid_points :
  forall (F : Type) (OF : Ops F), FieldLaws OF -> @Char0 F OF ->
  forall (le : F -> F -> Prop),
    (forall a, le a a) ->
    (forall a b c d, le a b -> le c d -> le (a +! c) (b +! d)) ->
    (forall a b c, le o0 c -> le a b -> le (a *! c) (b *! c)) ->
    (forall a b, le o0 a -> le o0 b -> le o0 (a *! b)) ->
    le o0 o1 ->
  forall (L : mlists F) (c : bconstr) (k l : nat),
    let step := k * L_M L + l in
    let h := (nth (S k) (L_cg L) o0 -! nth k (L_cg L) o0) /! of_nat (L_M L) in
    length (nth step (L_poly L) []) = 5 -> h <> o0 ->
    Forall (fun r => le (rw_h r) o0) (infp_rows_step L c k l) ->
    forall s, le o0 s -> le s o1 ->
      let v := beval (fun j => polyval (state_coeffs L step j) (s *! h))
                     (fun j => polyval (pderiv (state_coeffs L step j)) (s *! h)) (bc_expr c) in
      let b := eval_control L (Z.of_nat k) (bc_bound c) in
      if bc_lower c then le b v else le v b.
Proof.
  intros F OF Fl C le H1 H3 H4 H5 H6 L c k l.
  exact (infp_rows_step_sufficient Fl C le H1 H3 H4 H5 H6 L c k l).
Qed.
Print Assumptions C15_polynomial_constraint_holds_between_grid_points.

(* with the step length used for the rescaling before the fix (T/N/M instead of the actual step
   length) the certificate does not cover a longer step: x(tau) = tau on a step of length 2/3
   rescaled with 1/2 has coefficients <= 1/2 although x(2/3) = 2/3 (finding F12, fixed) *)
Local Existing Instance QcOps.
Example C15_uniform_rescaling_insufficient :
  let coeffs := @bernstein4 Qc QcOps (rescale [Q2Qc 0; Q2Qc 1; Q2Qc 0; Q2Qc 0; Q2Qc 0] (Q2Qc (1#2))) in
  forallb (fun b => Qle_bool (this b) (1#2)) coeffs = true /\
  Qlt (1#2) (2#3).
Proof. split; vm_compute; reflexivity. Qed.

Example C15_order_nonvacuous :
  (forall a : Qc, (a <= a)%Qc) /\ (forall a b c d : Qc, (a <= b -> c <= d -> a + c <= b + d)%Qc) /\
  (forall a b c : Qc, (0 <= c -> a <= b -> a * c <= b * c)%Qc).
Proof.
  repeat split.
  - intro a. apply Qcle_refl.
  - intros a b c d H1 H2. apply Qcplus_le_compat; assumption.
  - intros a b c H1 H2. apply Qcmult_le_compat_r; assumption.
Qed.

(* non-vacuity of the product algebra: x = s (degree 2 coefficients [0; 1/2; 1]); x*x - x has Bernstein
   coefficients (degree 4) all <= 0, and the rows  coefficient - 0 <= 0  hold *)
Definition qq (a : Z) (b : positive) : Qc := Q2Qc (Qmake a b).
Example C15_product_nonvacuous :
  let X := fun _ : nat => [qq 0 1; qq 1 2; qq 1 1] in
  let b := @bern_of Qc QcOps X (qq 1 1) (BSub (BMul (BX 0) (BX 0)) (BX 0)) in
  map this b = [0; -1#4; -1#3; -1#4; 0]%Q /\ forallb (fun v => Qle_bool (this v) 0) b = true.
Proof. split; vm_compute; reflexivity. Qed.

(* further witnesses that the hypotheses of this file's theorems are met by concrete inputs (vacuity audit, Proofs/VacuityB.v) *)
Example C15_more_witnesses : True.
Proof. pose proof C15_rows_witness as _. pose proof C15_applied_to_witness as _. pose proof Qc_order_hypotheses as _. exact I. Qed.
