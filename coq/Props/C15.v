(* Property C15 — grid='inf' constraints guarantee satisfaction between grid points.
   Statements only; proofs in Proofs/InfProofs.v.
   PARTIAL: proved for the conversion and the Bernstein certificate of one polynomial (hence for
   constraints affine in the states, whose coefficients are relayed linearly); the BSpline product
   algebra used for non-affine constraints is covered by the check's refined-sampling oracle only. *)
From Coq Require Import ZArith QArith Qcanon List Lia Bool.
From RV Require Import Base.Num Base.Vec Mech.Inf Inst Proofs.QcInst Proofs.InfProofs.
Import ListNotations.
Local Open Scope nat_scope.

(* the literal power-to-Bernstein matrix represents the same polynomial, for every s *)
Theorem C15_power_to_bernstein_exact :
  forall (F : Type) (OF : Ops F), FieldLaws OF -> @Char0 F OF ->
  forall a0 a1 a2 a3 a4 s : F,
    bern4_poly (bernstein4 [a0; a1; a2; a3; a4]) s
    = a0 +! a1 *! s +! a2 *! s *! s +! a3 *! s *! s *! s +! a4 *! s *! s *! s *! s.
Proof. intros F OF Fl C a0 a1 a2 a3 a4 s. exact (p2b4_correct Fl C a0 a1 a2 a3 a4 s). Qed.
Print Assumptions C15_power_to_bernstein_exact.

(* sufficiency: if all five Bernstein coefficients are below c, the polynomial is below c at every
   normalised time s in [0,1] — i.e. at every time of the integrator step the coefficients were
   rescaled with (any ordered field) *)
Theorem C15_coefficients_bound_the_polynomial :
  forall (F : Type) (OF : Ops F), FieldLaws OF ->
  forall (le : F -> F -> Prop),
    (forall a, le a a) ->
    (forall a b c d, le a b -> le c d -> le (a +! c) (b +! d)) ->
    (forall a b c, le o0 c -> le a b -> le (a *! c) (b *! c)) ->
    (forall a b, le o0 a -> le o0 b -> le o0 (a *! b)) ->
    le o0 o1 ->
  forall b0 b1 b2 b3 b4 c s : F,
    le o0 s -> le s o1 -> le b0 c -> le b1 c -> le b2 c -> le b3 c -> le b4 c ->
    le (bern4_poly [b0; b1; b2; b3; b4] s) c.
Proof.
  intros F OF Fl le H1 H3 H4 H5 H6 b0 b1 b2 b3 b4 c s.
  exact (bernstein_bound Fl le H1 H3 H4 H5 H6 b0 b1 b2 b3 b4 c s).
Qed.
Print Assumptions C15_coefficients_bound_the_polynomial.

(* with the step length used for the rescaling before the fix (T/N/M instead of the actual step
   length) the certificate does not cover a longer step: x(tau) = tau on a step of length 2/3
   rescaled with 1/2 has coefficients <= 1/2 although x(2/3) = 2/3 (finding F12, fixed) *)
Local Existing Instance QcOps.
Example C15_uniform_rescaling_insufficient :
  let coeffs := @bernstein4 Qc QcOps (rescale [Q2Qc 0; Q2Qc 1; Q2Qc 0; Q2Qc 0; Q2Qc 0] (Q2Qc (1#2))) in
  forallb (fun b => Qle_bool (this b) (1#2)) coeffs = true /\
  Qlt (1#2) (2#3).
Proof. split; vm_compute; reflexivity. Qed.

Example C15_order_nonvacuous :
  (forall a : Qc, (a <= a)%Qc) /\ (forall a b c d : Qc, (a <= b -> c <= d -> a + c <= b + d)%Qc) /\
  (forall a b c : Qc, (0 <= c -> a <= b -> a * c <= b * c)%Qc).
Proof.
  repeat split.
  - intro a. apply Qcle_refl.
  - intros a b c d H1 H2. apply Qcplus_le_compat; assumption.
  - intros a b c H1 H2. apply Qcmult_le_compat_r; assumption.
Qed.
