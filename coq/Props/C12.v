(* Property C12 — stages compose without interference and clones equal their template.
   Statements only; proofs in Proofs/StageProofs.v.  The model of a multi-stage problem is
   Mech/Stages.v; that rockit's shared Opti, symbol renewal and placeholder substitution realise it
   is the correspondence part of the check. *)
From Coq Require Import ZArith QArith Qcanon List Lia Bool.
From RV Require Import Base.Num Base.Vec Expr Rows Ocp Mech.Sampling Mech.Shooting Mech.Stages Inst
     Proofs.QcInst Proofs.StageProofs.
Import ListNotations.
Local Open Scope nat_scope.

(* the NLP is the disjoint union of the stage NLPs (block i = NLP of stage i at its own point) ... *)
Theorem C12_stage_block :
  forall (F : Type) (OF : Ops F) (mu : multi) (pts : list (point F)) (V : list F) (i : nat),
    i < length (mu_stages mu) ->
    block i (multi_rows mu pts V) =
    match nth_error (combine (mu_stages mu) pts) i with
    | Some (oc, pt) => stage_rows oc pt | None => [] end.
Proof. intros F OF mu pts V i H. exact (multi_stage_block mu pts V i H). Qed.
Print Assumptions C12_stage_block.

(* ... plus exactly the master's coupling rows, and nothing else *)
Theorem C12_master_block :
  forall (F : Type) (OF : Ops F) (mu : multi) (pts : list (point F)) (V : list F),
    block (length (mu_stages mu)) (multi_rows mu pts V) =
    map (coupling_row (multi_lists mu pts) V) (mu_cons mu).
Proof. intros F OF mu pts V. exact (multi_master_block mu pts V). Qed.
Print Assumptions C12_master_block.

Theorem C12_no_other_rows :
  forall (F : Type) (OF : Ops F) (mu : multi) (pts : list (point F)) (V : list F) r,
    In r (multi_rows mu pts V) -> fst r <= length (mu_stages mu).
Proof. intros F OF mu pts V r H. exact (multi_tags_bounded mu pts V r H). Qed.
Print Assumptions C12_no_other_rows.

(* siblings do not interfere *)
Theorem C12_siblings_independent :
  forall (F : Type) (OF : Ops F) (mu mu' : multi) (pts pts' : list (point F)) (V V' : list F) (i : nat),
    i < length (mu_stages mu) -> i < length (mu_stages mu') ->
    nth_error (combine (mu_stages mu) pts) i = nth_error (combine (mu_stages mu') pts') i ->
    block i (multi_rows mu pts V) = block i (multi_rows mu' pts' V').
Proof. intros F OF mu mu' pts pts' V V' i H1 H2 E. exact (sibling_independent mu mu' pts pts' V V' i H1 H2 E). Qed.
Print Assumptions C12_siblings_independent.

(* at_t0/at_tf/integral/T/t0 of a stage refer to that stage only *)
Theorem C12_stage_terms_local :
  forall (F : Type) (OF : Ops F) (Ls Ls' : list (mlists F)) (V : list F) (e : cexpr),
    (forall i, mentions e i = true -> nth_error Ls i = nth_error Ls' i) ->
    ceval Ls V e = ceval Ls' V e.
Proof. intros F OF Ls Ls' V e H. exact (ceval_stage_local Ls Ls' V e H). Qed.
Print Assumptions C12_stage_terms_local.

Theorem C12_stage_term_value :
  forall (F : Type) (OF : Ops F) (Ls : list (mlists F)) (V : list F) i pe L,
    nth_error Ls i = Some L -> ceval Ls V (CSt i pe) = peval L pe.
Proof. intros F OF Ls V i pe L H. exact (ceval_stage Ls V i pe L H). Qed.
Print Assumptions C12_stage_term_value.

(* the objective is the sum of the stage objectives and the master's terms; a single stage without
   coupling is the single-stage problem of C01-C05 *)
Theorem C12_objective_cons :
  forall (F : Type) (OF : Ops F), FieldLaws OF ->
  forall (oc : ocp) (pt : point F) (ss : list ocp) (ps : list (point F)) (V : list F),
    multi_objective (mkMulti (oc :: ss) [] []) (pt :: ps) V =
    stage_objective oc pt +! multi_objective (mkMulti ss [] []) ps V.
Proof. intros F OF Fl oc pt ss ps V. exact (multi_objective_cons Fl oc pt ss ps V). Qed.
Print Assumptions C12_objective_cons.

Theorem C12_single_stage :
  forall (F : Type) (OF : Ops F), FieldLaws OF ->
  forall (oc : ocp) (pt : point F) (V : list F),
    map snd (multi_rows (mkMulti [oc] [] []) [pt] V) = stage_rows oc pt /\
    multi_objective (mkMulti [oc] [] []) [pt] V = stage_objective oc pt.
Proof. intros F OF Fl oc pt V. exact (multi_single Fl oc pt V). Qed.
Print Assumptions C12_single_stage.

(* clones *)
Theorem C12_clone_equiv_direct :
  forall (F : Type) (OF : Ops F) tpl t0 T direct,
  direct = mkOcp (o_nx tpl) (o_nu tpl) (o_nz tpl) (o_ode tpl) (o_quad tpl) (o_alg tpl)
        (o_scale_x tpl) (o_scale_u tpl) (o_scale_z tpl) (o_scale_der tpl)
        (o_c_control tpl) (o_c_integrator tpl) (o_c_roots tpl) (o_c_point tpl) (o_objective tpl)
        t0 T (o_method tpl) ->
  forall pt : point F,
    stage_rows (clone tpl (Some t0) (Some T)) pt = stage_rows direct pt /\
    stage_objective (clone tpl (Some t0) (Some T)) pt = stage_objective direct pt.
Proof. intros F OF tpl t0 T direct H pt. exact (clone_equiv_direct tpl t0 T direct H pt). Qed.
Print Assumptions C12_clone_equiv_direct.

Theorem C12_clone_identity : forall tpl, clone tpl None None = tpl.
Proof. exact clone_identity. Qed.
Theorem C12_clone_of_clone : forall tpl a b c d,
  clone (clone tpl a b) c d =
  clone tpl (match c with Some h => Some h | None => a end) (match d with Some h => Some h | None => b end).
Proof. exact clone_clone. Qed.
Print Assumptions C12_clone_of_clone.
