(* Property C04 — every constraint is imposed exactly where declared, and nothing else is.
   Statements only; proofs in Proofs/PlaceProofs.v (and ShootProofs.v for row kinds). *)
From Coq Require Import ZArith QArith Qcanon List Lia Bool Permutation.
From RV Require Import Proofs.VacuityA Base.Num Base.PyList Base.Vec Expr Ocp Rows Mech.Grid Mech.Intg Mech.Sampling
     Mech.Shooting Spec.SpecPlace Inst Proofs.QcInst Proofs.PlaceProofs Proofs.ShootProofs.
Import ListNotations.
Local Open Scope nat_scope.

(* instance_env: the environment rockit assembles with Python indices (k, -1 for the final node,
   k+offset through _eval_at_control) is the environment of the mathematical node: states,
   algebraic values, quadratures, time of node k; control and per-interval parameters/variables
   of interval min(k, N-1); include_last columns of node k; DT, DT_control of that interval *)
Theorem C04_instance_env :
  forall (F : Type) (OF : Ops F), FieldLaws OF -> @Char0 F OF ->
  forall L : mlists F, wf_lists L ->
    (forall k, k < L_N L -> env_control L (Z.of_nat k) = spec_env_node L k) /\
    env_control L (-1) = spec_env_node L (L_N L) /\
    (forall j, j <= L_N L -> env_inner L (Z.of_nat j) = spec_env_node L j).
Proof.
  intros F OF Fl C L W. repeat split.
  - intros k Hk. exact (env_control_node Fl C L W k Hk).
  - exact (env_control_final Fl C L W).
  - intros j Hj. exact (env_inner_node Fl C L W j Hj).
Qed.
Print Assumptions C04_instance_env.

(* an instance is dropped (IndexError) exactly when a shifted operand leaves the horizon 0..N *)
Theorem C04_dropped_iff_outside_horizon :
  forall (F : Type) (OF : Ops F) (L : mlists F), wf_lists L ->
    (forall k n, k < L_N L -> offset_ok L (Z.of_nat k) n = shift_ok (L_N L) k n) /\
    (forall n, offset_ok L (-1) n = shift_ok (L_N L) (L_N L) n).
Proof.
  intros F OF L W. split.
  - intros k n Hk. exact (offset_ok_node L W k n Hk).
  - intro n. exact (offset_ok_final L W n).
Qed.
Print Assumptions C04_dropped_iff_outside_horizon.

(* one control-grid constraint: the loop over k followed by the include_last pass yields, in
   order, exactly one instance per node 0..N that is included (include_first/include_last) and
   whose shifted operands stay inside the horizon, each evaluated in the node's environment with
   operands shifted by whole intervals; sense and scale as declared *)
Theorem C04_control_constraint_once_per_node :
  forall (F : Type) (OF : Ops F), FieldLaws OF -> @Char0 F OF ->
  forall (L : mlists F), wf_lists L -> forall c : constr, wf_constr c ->
    mech_control_rows L c = spec_control_rows L c /\
    length (mech_control_rows L c) =
      length (filter (fun k => node_included (L_N L) c k && forallb (shift_ok (L_N L) k) (c_goffs c))
                     (seq 0 (S (L_N L)))).
Proof.
  intros F OF Fl C L W c Hc. split.
  - exact (control_rows_spec Fl C L W c Hc).
  - exact (control_rows_count Fl C L W c Hc).
Qed.
Print Assumptions C04_control_constraint_once_per_node.

(* all control-grid constraints together (the two terms every sampling method's NLP is built
   from): a permutation of "each constraint once per node" *)
Theorem C04_control_placement_perm :
  forall (F : Type) (OF : Ops F), FieldLaws OF -> @Char0 F OF ->
  forall (L : mlists F), wf_lists L -> forall cs : list constr, Forall wf_constr cs ->
    Permutation (flat_map (fun k => control_rows_at L cs k) (seq 0 (L_N L)) ++ last_rows L cs)
                (flat_map (spec_control_rows L) cs).
Proof. intros F OF Fl C L W cs H. exact (control_placement_perm Fl C L W cs H). Qed.
Print Assumptions C04_control_placement_perm.

(* nothing else: every row of the MultipleShooting NLP is a gap-closing row, a grid row, an
   instance of a declared path constraint, a declared boundary constraint or T >= 0 *)
Theorem C04_no_other_rows :
  forall (F : Type) (OF : Ops F) (oc : ocp) (pt : point F) (r : row F),
    In r (rows_ms oc pt) ->
    rw_kind r = KDyn \/ rw_kind r = KGrid \/ rw_kind r = KPath \/ rw_kind r = KPoint \/ rw_kind r = KFreeT.
Proof. intros F OF oc pt r H. exact (rows_ms_kinds oc pt r H). Qed.
Print Assumptions C04_no_other_rows.

(* sense preserved; an equality instance vanishes exactly when both sides agree *)
Theorem C04_equality_rows :
  forall (F : Type) (OF : Ops F), FieldLaws OF ->
  forall kd (c : constr) p (a b : F), c_rel c = REq -> of_Q (c_scale c) <> (o0 : F) ->
    rw_sense (crow kd c p a b) = SEq /\ (rw_h (crow kd c p a b) = o0 <-> a = b).
Proof. intros F OF Fl kd c p a b H1 H2. exact (crow_eq_iff Fl kd c p a b H1 H2). Qed.
Print Assumptions C04_equality_rows.

(* non-vacuity: lists of a concrete MultipleShooting transcription over Qc are well formed,
   and x - prev(x) <= 1 with include_first gets instances at nodes 1, 2, 3 = N (node 0 dropped) *)
Local Existing Instance QcOps.
Definition qc (a : Z) (b : positive) : Qc := Q2Qc (Qmake a b).
Definition ex_c : constr :=
  mkConstr 0 RLe (ESub (ES (SX 0)) (EOff (-1) (ES (SX 0)))) (EC 1) 1 true true [(-1)%Z].
Definition ex_oc : ocp :=
  mkOcp 1 1 0 [ES (SU 0)] [] [] [1%Q] [1%Q] [] [1%Q] [ex_c] [] [] [] []
        (HFixed 0) (HFixed 3)
        (mkMethod MS 3 1 IEuler (mkGridOpts GUniform false false None None) []).
Definition ex_pt : point Qc :=
  @mkPoint Qc [[qc 1 1]; [qc 2 1]; [qc 4 1]; [qc 7 1]] [[qc 1 1]; [qc 1 1]; [qc 1 1]] [] [[];[];[]] [[];[];[];[]] [] [[];[];[]] [[];[];[];[]]
           (qc 3 1) (qc 0 1) [] [] [] [] [].
Definition ex_L := @lists_of Qc QcOps ex_oc ex_pt false.

Example C04_nonvacuous :
  wf_lists ex_L /\ wf_constr ex_c /\
  map (fun r => (rw_pt r, Qnum (this (rw_h r)))) (@mech_control_rows Qc QcOps ex_L ex_c)
  = [(1%Z, 0%Z); (2%Z, 1%Z); ((-1)%Z, 2%Z)].
Proof.
  split; [|split].
  - constructor; try reflexivity; vm_compute; lia.
  - split; intros n Hn; cbn in *; tauto.
  - vm_compute. reflexivity.
Qed.

(* further witnesses that the hypotheses of this file's theorems are met by realistic inputs (N = 1, M = 1, no controls,
   t0 = 0, concrete grids / collocation points): proved in Proofs/VacuityA.v by the vacuity audit *)
Example C04_more_witnesses : True.
Proof. pose proof wf_lists_N1_M1_no_controls as _. exact I. Qed.
