(* Property C02 — direct collocation constraints characterise the collocation polynomial.
   Statements only; proofs in Proofs/PolyLemmas.v and Proofs/ColProofs.v. *)
From Coq Require Import ZArith QArith Qcanon List Lia Bool.
From RV Require Import Proofs.VacuityA Base.Num Base.PyList Base.Vec Base.Poly Expr Ocp Rows Mech.Grid Mech.Intg
     Mech.Sampling Mech.Shooting Mech.Colloc Spec.SpecColloc Inst Proofs.QcInst
     Proofs.PolyLemmas Proofs.ColProofs.
Import ListNotations.
Local Open Scope nat_scope.

(* Lagrange basis over pairwise distinct nodes: l_j(tau_s) = delta_js *)
Theorem C02_lagrange_delta :
  forall (F : Type) (OF : Ops F), FieldLaws OF ->
  forall (nodes : list F) j s, j < length nodes -> s < length nodes ->
    (forall a b, a < length nodes -> b < length nodes -> a <> b -> nth a nodes o0 -! nth b nodes o0 <> o0) ->
    polyval (lagrange nodes j) (nth s nodes o0) = if Nat.eqb s j then o1 else o0.
Proof. intros F OF Fl nodes j s H1 H2 H3. exact (lagrange_delta Fl nodes j s H1 H2 H3). Qed.
Print Assumptions C02_lagrange_delta.

(* the collocation polynomial Pi(s) = sum_r l_r(s) v_r passes through the interval start state at
   s = 0 and through helper state j at s = tau_j, for any degree and any pairwise distinct points *)
Theorem C02_polynomial_through_states :
  forall (F : Type) (OF : Ops F), FieldLaws OF ->
  forall (tau : list F) (vs : list (list F)) (n m : nat),
    length vs = S (length tau) -> m <= length tau ->
    (forall v, In v vs -> length v = n) ->
    (forall a b, a <= length tau -> b <= length tau -> a <> b ->
                 nth a (o0 :: tau) o0 -! nth b (o0 :: tau) o0 <> o0) ->
    interp tau vs (nth m (o0 :: tau) o0) = nth m vs [].
Proof. intros F OF Fl tau vs n m H1 H2 H3 H4. exact (interp_at_node Fl tau vs n m H1 H2 H3 H4). Qed.
Print Assumptions C02_polynomial_through_states.

(* the left-hand sides rockit builds from C and D are the derivative of that polynomial at tau_j
   (rescaled by the step length) and its end value *)
Theorem C02_lhs_are_polynomial_derivative_and_end_value :
  forall (F : Type) (OF : Ops F) (oc : ocp) (pt : point F) k i,
    let tau := map (@of_Q F OF) (m_tau (o_method oc)) in
    (forall j, j < length tau ->
       Pidot oc pt k i j = vdivs (dinterp tau (Xc_full pt k i) (nth j tau o0)) (dt_k oc pt k)) /\
    wsum (coeff_D tau) (Xc_full pt k i) = interp tau (Xc_full pt k i) o1.
Proof.
  intros F OF oc pt k i tau. split.
  - intros j Hj. exact (Pidot_is_dinterp oc pt k i j Hj).
  - exact (cont_lhs_is_interp oc pt k i).
Qed.
Print Assumptions C02_lhs_are_polynomial_derivative_and_end_value.

(* exactly the rows of kinds colloc / alg / cont: one block per integration interval (k,i) and
   collocation point j, one continuity block per (k,i); nothing else has these kinds *)
Theorem C02_dynamic_rows_exactly :
  forall (F : Type) (OF : Ops F) (oc : ocp) (pt : point F) (r : row F),
    (In r (rows_dc oc pt) /\ is_dyn_kind (rw_kind r) = true) <->
    exists k i, k < m_N (o_method oc) /\ i < m_M (o_method oc) /\
      ((exists j, j < length (map (@of_Q F OF) (m_tau (o_method oc))) /\ In r (colloc_rows oc pt k i j))
       \/ In r (cont_rows oc pt k i)).
Proof. intros F OF oc pt r. exact (dc_dyn_rows_spec oc pt r). Qed.
Print Assumptions C02_dynamic_rows_exactly.

(* the dynamic constraints hold at a point exactly when on every integration interval the
   polynomial's time derivative equals the ODE right-hand side at every collocation time
   (evaluated at the helper state, that point's algebraic value, the interval's control and
   parameters and the collocation time t_root), the algebraic equations vanish there, and the
   polynomial's end value is the start state of the next interval *)
Theorem C02_dynamics_iff :
  forall (F : Type) (OF : Ops F), FieldLaws OF ->
  forall (oc : ocp) (pt : point F),
    (forall s, s < o_nx oc -> of_Q (nth s (o_scale_der oc) 1%Q) <> (o0 : F)) ->
    (forall s, s < o_nx oc -> of_Q (nth s (o_scale_x oc) 1%Q) <> (o0 : F)) ->
    (forall s, s < length (o_alg oc) -> of_Q (nth s (o_scale_z oc) 1%Q) <> (o0 : F)) ->
    let tau := map (@of_Q F OF) (m_tau (o_method oc)) in
    ((forall r, In r (rows_dc oc pt) -> is_dyn_kind (rw_kind r) = true -> rw_h r = o0) <->
     (forall k i, k < m_N (o_method oc) -> i < m_M (o_method oc) ->
        (forall j, j < length tau ->
           (forall s, s < o_nx oc ->
              nth s (Pidot oc pt k i j) o0 = nth s (map (eval0 (root_env oc pt k i j)) (o_ode oc)) o0) /\
           (forall s, s < length (o_alg oc) ->
              nth s (map (eval0 (root_env oc pt k i j)) (o_alg oc)) o0 = o0)) /\
        (forall s, s < o_nx oc ->
           nth s (interp tau (Xc_full pt k i) o1) o0 = nth s (x_next oc pt k i) o0))).
Proof. intros F OF Fl oc pt H1 H2 H3. exact (dc_dynamics_iff Fl oc pt H1 H2 H3). Qed.
Print Assumptions C02_dynamics_iff.

(* non-vacuity: x' = x, radau degree 2 (tau = 1/3, 1), N = M = 1, T = 1, x(0) = 1: the helper
   states 4/3 and 8/3 solve the two collocation equations exactly and the end value is 8/3, so all
   three dynamic rows vanish; perturbing a helper state makes a row non-zero *)
Local Existing Instance QcOps.
Definition qc (a : Z) (b : positive) : Qc := Q2Qc (Qmake a b).
Definition ex_oc : ocp :=
  mkOcp 1 0 0 [ES (SX 0)] [] [] [1%Q] [] [] [1%Q] [] [] [] [] []
        (HFixed 0) (HFixed 1)
        (mkMethod DC 1 1 IRK (mkGridOpts GUniform false false None None) [(1#3)%Q; 1%Q]).
Definition ex_pt (x1 x2 xend : Qc) : point Qc :=
  @mkPoint Qc [[qc 1 1]; [xend]] [[]] [] [[]] [[];[]] [] [[]] [[];[]]
           (qc 1 1) (qc 0 1) [] [] [[]] [[[[x1]; [x2]]]] [[[[]; []]]].
Definition all_zero (rows : list (row Qc)) : bool :=
  forallb (fun r => Qeq_bool (this (rw_h r)) 0) rows.
Example C02_nonvacuous :
  length (@rows_dc Qc QcOps ex_oc (ex_pt (qc 4 3) (qc 8 3) (qc 8 3))) = 3 /\
  all_zero (@rows_dc Qc QcOps ex_oc (ex_pt (qc 4 3) (qc 8 3) (qc 8 3))) = true /\
  all_zero (@rows_dc Qc QcOps ex_oc (ex_pt (qc 3 2) (qc 8 3) (qc 8 3))) = false.
Proof. repeat split; vm_compute; reflexivity. Qed.

(* further witnesses that the hypotheses of this file's theorems are met by realistic inputs (N = 1, M = 1, no controls,
   t0 = 0, concrete grids / collocation points): proved in Proofs/VacuityA.v by the vacuity audit *)
Example C02_more_witnesses : True.
Proof. pose proof distinct_radau2 as _. exact I. Qed.
