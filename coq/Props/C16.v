(* Property C16 — der() is the total time derivative along the declared dynamics.
   Statement only; proof in Proofs/DerProofs.v (Coquelicot, real numbers). *)
From Coq Require Import Reals ZArith QArith List Lia Bool.
From Coquelicot Require Import Coquelicot.
From RV Require Import Base.Num Expr Mech.Der Proofs.DerProofs.
Import ListNotations.
Local Open Scope R_scope.

(* for every expression e of states, time and (inert) parameters / controls, every differentiable
   trajectory xs that satisfies x_i'(t) = f_i(x(t), t) at time t, and no division by zero at t:
   t |-> e(x(t), t) is differentiable at t with derivative (der e)(x(t), t), where der is rockit's
   forward-mode derivative with seed [f; 1] on [x; t] *)
Theorem C16_der_is_time_derivative :
  forall (ode : list expr) (xs : list (R -> R)) (base : env R) (t : R),
    length ode = length xs ->
    (forall i, (i < length xs)%nat ->
       is_derive (nth i xs (fun _ => 0)) t (eval0 (envt xs base t) (nth i ode (EC 0)))) ->
  forall e : expr, safe xs base t e ->
    is_derive (fun tau => eval0 (envt xs base tau) e) t (eval0 (envt xs base t) (tder ode e)).
Proof. intros ode xs base t Hl Hsol e Hs. exact (der_is_time_derivative ode xs base Hl t Hsol e Hs). Qed.
Print Assumptions C16_der_is_time_derivative.

(* control(order = k): der walks down the chain k times, then no derivative exists *)
Theorem C16_control_chain :
  forall k j, (chain_der k j = Some (S j) <-> (j < k)%nat) /\ (chain_der k j = None <-> (k <= j)%nat).
Proof.
  intros k j. unfold chain_der. destruct (Nat.ltb j k) eqn:E.
  - apply Nat.ltb_lt in E. split; split; intro H; try reflexivity; try discriminate; try lia; exact E.
  - apply Nat.ltb_ge in E. split; split; intro H; try reflexivity; try discriminate; try lia; exact E.
Qed.
Print Assumptions C16_control_chain.

(* non-vacuity: x(t) = exp(t) solves x' = x; e = x*x + t has derivative 2*x*x + 1 *)
Example C16_nonvacuous :
  let ode := [ES (SX 0)] in
  let xs := [exp] in
  let base := @mkEnv R [] [] [] [] [] [] [] [] [] [] 0 0 0 0 0 in
  (forall t i, (i < length xs)%nat -> is_derive (nth i xs (fun _ => 0)) t (eval0 (envt xs base t) (nth i ode (EC 0)))) /\
  safe xs base 0 (EAdd (EMul (ES (SX 0)) (ES (SX 0))) (ES St)).
Proof.
  cbn zeta. split.
  - intros t i Hi. destruct i as [|i]; [|cbn in Hi; lia]. cbn.
    evar_last; [apply is_derive_exp|]. reflexivity.
  - cbn. tauto.
Qed.
