(* Property C14 — scaling arguments never change the meaning of the problem.
   Statements only; proofs in Proofs/ScaleProofs.v. *)
From Coq Require Import ZArith QArith Qcanon List Lia Bool.
From RV Require Import Proofs.VacuityB Base.Num Base.PyList Base.Vec Expr Ocp Rows Mech.Grid Mech.Intg Mech.Sampling
     Mech.Shooting Mech.Colloc Inst Proofs.QcInst Proofs.ScaleProofs.
Import ListNotations.
Local Open Scope nat_scope.

(* the discretised trajectory, every read-back list (sample/value) and the objective are those of
   the OCP declared without scale= arguments: they stay in physical units *)
Theorem C14_physical_quantities_unchanged :
  forall (F : Type) (OF : Ops F) (oc : ocp) (pt : point F) s,
    lists_of (unscale oc) pt s = lists_of oc pt s /\
    dc_lists (unscale oc) pt = dc_lists oc pt /\
    objective (lists_of (unscale oc) pt s) (o_objective (unscale oc))
      = objective (lists_of oc pt s) (o_objective oc).
Proof.
  intros F OF oc pt s. split; [|split].
  - exact (lists_unscale oc pt s).
  - exact (dc_lists_unscale oc pt).
  - exact (objective_unscale oc pt s).
Qed.
Print Assumptions C14_physical_quantities_unchanged.

(* every constraint residual is the physical residual divided by its declared scale: declared path
   and boundary constraints, and component s of gap-closing / collocation / algebraic / continuity
   rows (scale_x, scale_der, scale_z); kind, constraint, point and sense are untouched *)
Theorem C14_rows_divided_by_scale :
  forall (F : Type) (OF : Ops F), FieldLaws OF ->
    (forall kd (c : constr) p (a b : F),
       let r := crow kd c p a b in let r1 := crow kd (unscale_c c) p a b in
       rw_kind r = rw_kind r1 /\ rw_id r = rw_id r1 /\ rw_pt r = rw_pt r1 /\ rw_sense r = rw_sense r1 /\
       rw_h r = rw_h r1 /! of_Q (c_scale c)) /\
    (forall (L : mlists F) (c : pconstr),
       let r := prow L c in let r1 := prow L (unscale_pc c) in
       rw_kind r = rw_kind r1 /\ rw_id r = rw_id r1 /\ rw_sense r = rw_sense r1 /\
       rw_h r = rw_h r1 /! of_Q (pc_scale c)) /\
    (forall kd ptz (lhs rhs : list F) (scales : list Q) n s, s < n ->
       nth s (map (@rw_h F) (scaled_rows kd ptz lhs rhs scales n)) o0
       = nth s (map (@rw_h F) (scaled_rows kd ptz lhs rhs [] n)) o0 /! of_Q (nth s scales 1%Q)).
Proof.
  intros F OF Fl. split; [|split].
  - intros kd c p a b. exact (crow_scaled Fl kd c p a b).
  - intros L c. exact (prow_scaled Fl L c).
  - intros kd ptz lhs rhs scales n s Hs. exact (scaled_rows_scaled Fl kd ptz lhs rhs scales n s Hs).
Qed.
Print Assumptions C14_rows_divided_by_scale.

(* dividing by a positive scale keeps the feasible set: equalities and inequalities alike *)
Theorem C14_feasible_set_invariant :
  forall (F : Type) (OF : Ops F), FieldLaws OF ->
  forall (le : F -> F -> Prop),
    (forall a b c, le o0 c -> le a b -> le (a *! c) (b *! c)) ->
  forall h s : F, s <> o0 -> le o0 s -> le o0 (o1 /! s) ->
    ((h /! s = o0 <-> h = o0) /\ (le (h /! s) o0 <-> le h o0)).
Proof. intros F OF Fl le Hle h s H1 H2 H3. exact (scaled_row_feasible_iff Fl le Hle h s H1 H2 H3). Qed.
Print Assumptions C14_feasible_set_invariant.

(* non-vacuity: the order hypothesis holds in Qc; a scaled gap row is the physical one / 4 *)
Example C14_order_nonvacuous : forall a b c : Qc, (0 <= c)%Qc -> (a <= b)%Qc -> (a * c <= b * c)%Qc.
Proof. intros a b c Hc H. apply Qcmult_le_compat_r; assumption. Qed.

(* further witnesses that the hypotheses of this file's theorems are met by concrete inputs (vacuity audit, Proofs/VacuityB.v) *)
Example C14_more_witnesses : True.
Proof. pose proof C14_feasible_hypotheses as _. pose proof Qc_order_hypotheses as _. exact I. Qed.
