(* Property C19 — to_function reproduces the set_value / set_initial / solve / sample pipeline.
   Statements only; proofs in Proofs/ToFuncProofs.v.
   PARTIAL: the solver is an oracle (any function of the NLP, the starting point and the parameter
   values); the theorem is that both paths call it on the same data.  Arguments that assign the
   horizon (T, t0) and the special "z" argument are outside the model; the check covers them
   numerically only where stated. *)
From Coq Require Import ZArith QArith Qcanon List Lia Bool.
From RV Require Import Proofs.VacuityB Base.Num Base.Vec Expr Ocp Mech.Initial Mech.ToFunc Inst Proofs.ToFuncProofs.
Import ListNotations.
Local Open Scope nat_scope.

Theorem C19_start_point_eq_pipeline :
  forall (F : Type) (OF : Ops F) (oc : ocp) (nv nvc nvp : nat) (calls : list gcall) (pvals : list Q)
         (args : list tfarg),
    horizon_free args -> fixed_or_free (o_T oc) -> fixed_or_free (o_t0 oc) ->
    @tf_start F OF oc nv nvc nvp calls pvals args = pipeline_start oc nv nvc nvp calls pvals args.
Proof. intros F OF oc nv nvc nvp calls pvals args H1 H2 H3. exact (tf_start_eq_pipeline oc nv nvc nvp calls pvals args H1 H2 H3). Qed.
Print Assumptions C19_start_point_eq_pipeline.

Theorem C19_to_function_eq_pipeline_partial :
  forall (F : Type) (OF : Ops F) (NLP SOL : Type)
         (solve : NLP -> start_point F -> list Q -> SOL) (results : SOL -> list F)
         (nlp : NLP) (oc : ocp) (nv nvc nvp : nat) (calls : list gcall) (pvals : list Q)
         (args : list tfarg) (pargs : list (nat * Q)),
    horizon_free args -> fixed_or_free (o_T oc) -> fixed_or_free (o_t0 oc) ->
    to_function_result solve results nlp oc nv nvc nvp calls pvals args pargs =
    pipeline_result solve results nlp oc nv nvc nvp calls pvals args pargs.
Proof. intros. apply to_function_eq_pipeline; assumption. Qed.
Print Assumptions C19_to_function_eq_pipeline_partial.

(* what the starting point is: listed quantities take the argument's column (helper states of an
   interval the column of its start node), unlisted ones keep their current value *)
Theorem C19_listed_takes_argument :
  forall (F : Type) (OF : Ops F) (args : list tfarg) (a : tfarg) kd s k (dflt : F),
    last_call (map call_of args) kd s None = Some (call_of a) ->
    arg_value args kd s k dflt =
    of_Q (nth (s - ta_slot a) (nth (Nat.min k (length (ta_cols a) - 1)) (ta_cols a) []) 0%Q).
Proof. intros. apply listed_takes_argument. assumption. Qed.
Print Assumptions C19_listed_takes_argument.

Theorem C19_unlisted_keeps_current :
  forall (F : Type) (OF : Ops F) (args : list tfarg) kd s k (dflt : F),
    (forall a, In a args -> covers (call_of a) kd s = false) -> arg_value args kd s k dflt = dflt.
Proof. intros. apply unlisted_keeps_current. assumption. Qed.
Print Assumptions C19_unlisted_keeps_current.

Theorem C19_parameter_argument :
  forall pvals i v j,
    nth j (pvals_after pvals [(i, v)]) 0%Q =
    if (Nat.eqb j i && Nat.ltb j (length pvals))%bool then v else nth j pvals 0%Q.
Proof. exact pvals_after_one. Qed.
Print Assumptions C19_parameter_argument.

(* non-vacuity: a node-state argument over current guesses *)
Example C19_nonvacuous :
  let args := [mkTfArg GX 0 1 [[1#2]; [3#2]; [5#2]]] in
  horizon_free args /\
  @arg_value Qc QcOps args GX 0 1 (Q2Qc 9) = Q2Qc (3#2) /\
  @arg_value Qc QcOps args GU 0 1 (Q2Qc 9) = Q2Qc 9.
Proof.
  split; [|split; reflexivity].
  intros a [<-|[]]. split; discriminate.
Qed.

(* further witnesses that the hypotheses of this file's theorems are met by concrete inputs (vacuity audit, Proofs/VacuityB.v) *)
Example C19_more_witnesses : True.
Proof. pose proof C19_side_conditions as _. exact I. Qed.
