(* Property C10 — the solver starts from exactly the user's initial guess.
   Statements only; proofs in Proofs/InitProofs.v. *)
From Coq Require Import ZArith QArith Qcanon List Lia Bool.
From RV Require Import Base.Num Base.PyList Base.Vec Expr Ocp Rows Mech.Grid Mech.Initial Mech.Shooting
     Inst Proofs.QcInst Proofs.InitProofs.
Import ListNotations.
Local Open Scope nat_scope.

(* the last call for a symbol wins, other symbols are untouched, anything never given is zero *)
Theorem C10_last_call_wins_default_zero :
  forall (F : Type) (OF : Ops F) (calls : list gcall) (c : gcall) kd s k (t : F),
    (covers c kd s = true -> start_of (calls ++ [c]) kd s k t = guess_value c (s - gc_slot c) k t) /\
    (covers c kd s = false -> start_of (calls ++ [c]) kd s k t = start_of calls kd s k t) /\
    ((forall c', In c' calls -> covers c' kd s = false) -> start_of calls kd s k t = o0).
Proof.
  intros F OF calls c kd s k t. split; [|split].
  - exact (start_after_call calls c kd s k t).
  - exact (start_other_symbol calls c kd s k t).
  - exact (start_default_zero calls kd s k t).
Qed.
Print Assumptions C10_last_call_wins_default_zero.

(* constants apply everywhere; arrays column-wise per interval / node (an n-by-N array leaves the
   final node with the last column); expressions of time are evaluated at the point's time *)
Theorem C10_guess_forms :
  forall (F : Type) (OF : Ops F) (c : gcall) j k (t : F),
    (forall vals, gc_form c = GFconst vals -> guess_value c j k t = of_Q (nth j vals 0%Q)) /\
    (forall cols, gc_form c = GFcols cols -> k < length cols ->
        guess_value c j k t = of_Q (nth j (nth k cols []) 0%Q)) /\
    (forall cols, gc_form c = GFcols cols -> length cols <= k -> 0 < length cols ->
        guess_value c j k t = of_Q (nth j (nth (length cols - 1) cols []) 0%Q)) /\
    (forall es, gc_form c = GFtime es -> guess_value c j k t = eval0 (time_env t) (nth j es (EC 0))).
Proof.
  intros F OF c j k t. repeat split.
  - intros vals H. exact (guess_const c vals j k t H).
  - intros cols H Hk. exact (guess_cols c cols j k t H Hk).
  - intros cols H Hk Hl. exact (guess_cols_final c cols j k t H Hk Hl).
  - intros es H. exact (guess_time c es j k t H).
Qed.
Print Assumptions C10_guess_forms.

(* node states start at the guess evaluated at the k-th time of the grid built from the guessed
   t0 and T (which are the FreeTime guesses or the last explicit guess) *)
Theorem C10_node_states_at_guessed_times :
  forall (F : Type) (OF : Ops F) (oc : ocp) nv nvc nvp calls pvals k s,
    m_kind (o_method oc) <> SS -> k <= m_N (o_method oc) -> s < o_nx oc ->
    let sp := @start_values F OF oc nv nvc nvp calls pvals in
    let cg := time_grid (go_spec (m_grid (o_method oc))) (s_t0 sp) (s_T sp) (m_N (o_method oc)) in
    nth s (nth k (s_X sp) []) o0 = start_of calls GX s k (nth k cg o0).
Proof. intros F OF oc nv nvc nvp calls pvals k s H1 H2 H3. exact (start_values_nodes oc nv nvc nvp calls pvals k s H1 H2 H3). Qed.
Print Assumptions C10_node_states_at_guessed_times.

(* non-vacuity *)
Local Existing Instance QcOps.
Example C10_nonvacuous :
  let calls := [mkCall GX 0 1 (GFconst [3%Q]); mkCall GU 0 1 (GFcols [[1%Q]; [2%Q]]);
                mkCall GX 0 1 (GFtime [EMul (EC 2) (ES St)])] in
  map (fun q => this q) [@start_of Qc QcOps calls GX 0 1 (Q2Qc (1#2)); @start_of Qc QcOps calls GU 0 1 (Q2Qc 0);
                         @start_of Qc QcOps calls GV 0 0 (Q2Qc 0)] = [1%Q; 2%Q; 0%Q].
Proof. vm_compute. reflexivity. Qed.
