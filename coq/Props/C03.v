(* Property C03 — discretised dynamics and integrals converge to the continuous-time model.
   Statements only; proofs in Proofs/ConvProofs.v (any field of characteristic 0) and
   Proofs/ConvReal.v (reals).
   PARTIAL: proved are the order conditions of the tableaux the step maps were proved equal to in
   C01, exactness on polynomial integrands / time-only dynamics for every M, the stability
   polynomials, the convergence theorem "local error C h^(p+1) + Lipschitz step map => global error
   K h^p" and the time rescaling around CasADi's integrators.  NOT proved: that the order
   conditions imply the local error bound for a general smooth f (multivariate Taylor expansion),
   and superconvergence 2d-1 / 2d of collocation; these enter C03_global_error_partial as the
   hypothesis on e and are measured numerically by the check. *)
From Coq Require Import Reals ZArith QArith Qcanon List Lia Bool.
From Coquelicot Require Import Coquelicot.
From RV Require Import Base.Num Base.Vec Mech.Intg Spec.SpecDyn Inst Proofs.QcInst Proofs.ConvProofs Proofs.ConvReal.
Import ListNotations.

Theorem C03_rk4_order_conditions :
  forall (F : Type) (OF : Ops F), FieldLaws OF -> @Char0 F OF ->
    order4 rk4_tableau /\ row_sums rk4_tableau.
Proof. intros F OF Fl C. exact (rk4_order4 Fl C). Qed.
Print Assumptions C03_rk4_order_conditions.

Theorem C03_euler_order_conditions :
  forall (F : Type) (OF : Ops F), FieldLaws OF ->
    order1 euler_tableau /\ row_sums euler_tableau.
Proof. intros F OF Fl. exact (euler_order1 Fl). Qed.
Print Assumptions C03_euler_order_conditions.

(* x' = lam x: one step multiplies by the degree-4 (degree-1) Taylor polynomial of exp *)
Theorem C03_rk4_linear_test :
  forall (F : Type) (OF : Ops F), FieldLaws OF -> @Char0 F OF ->
  forall lam x t0 DT DTc : F, DT <> o0 ->
  let z := lam *! DT in
  r_xf (intg_rk (lin_sys lam) [x] t0 DT DTc) =
  [(o1 +! z +! z *! z /! o2 +! z *! z *! z /! of_Z 6 +! z *! z *! z *! z /! of_Z 24) *! x].
Proof. intros F OF Fl C lam x t0 DT DTc H. exact (rk4_stability_poly Fl C lam x t0 DT DTc H). Qed.
Print Assumptions C03_rk4_linear_test.

Theorem C03_euler_linear_test :
  forall (F : Type) (OF : Ops F), FieldLaws OF ->
  forall lam x t0 DT DTc : F,
  r_xf (intg_expl_euler (lin_sys lam) [x] t0 DT DTc) = [(o1 +! lam *! DT) *! x].
Proof. intros F OF Fl lam x t0 DT DTc. exact (euler_stability_poly Fl lam x t0 DT DTc). Qed.
Print Assumptions C03_euler_linear_test.

(* ocp.integral of a cubic in t over a control interval of any length, with any number M of
   integrator steps and any dynamics, is exact under rk; constants under expl_euler *)
Theorem C03_rk4_integral_exact_cubic :
  forall (F : Type) (OF : Ops F), FieldLaws OF -> @Char0 F OF ->
  forall (a0 a1 a2 a3 : F) (ode : list F -> F -> list F) (x0 : list F) (T t0 : F) (M : nat),
    M <> 0%nat ->
    ds_quad (discrete_system (intg_rk (quad_sys a0 a1 a2 a3 ode)) M 1 x0 T t0)
    = [G a0 a1 a2 a3 (t0 +! T) -! G a0 a1 a2 a3 t0].
Proof. intros F OF Fl C a0 a1 a2 a3 ode x0 T t0 M H. exact (rk4_integral_exact_cubic Fl C a0 a1 a2 a3 ode x0 T t0 M H). Qed.
Print Assumptions C03_rk4_integral_exact_cubic.

Theorem C03_euler_integral_exact_const :
  forall (F : Type) (OF : Ops F), FieldLaws OF -> @Char0 F OF ->
  forall (a0 : F) (ode : list F -> F -> list F) (x0 : list F) (T t0 : F) (M : nat),
    M <> 0%nat ->
    ds_quad (discrete_system (intg_expl_euler (quad_sys a0 o0 o0 o0 ode)) M 1 x0 T t0)
    = [G a0 o0 o0 o0 (t0 +! T) -! G a0 o0 o0 o0 t0].
Proof.
  intros F OF Fl C a0 ode x0 T t0 M H.
  exact (euler_integral_exact_const Fl C a0 o0 o0 o0 ode x0 T t0 M H eq_refl eq_refl eq_refl).
Qed.
Print Assumptions C03_euler_integral_exact_const.

(* x' = g(t), g cubic: the rk state transition is exact *)
Theorem C03_rk4_time_only_exact :
  forall (F : Type) (OF : Ops F), FieldLaws OF -> @Char0 F OF ->
  forall (a0 a1 a2 a3 x t0 DT DTc : F),
    r_xf (intg_rk (time_sys a0 a1 a2 a3) [x] t0 DT DTc)
    = [x +! (G a0 a1 a2 a3 (t0 +! DT) -! G a0 a1 a2 a3 t0)].
Proof. intros F OF Fl C a0 a1 a2 a3 x t0 DT DTc. exact (rk4_time_only_step_exact Fl C a0 a1 a2 a3 x t0 DT DTc). Qed.
Print Assumptions C03_rk4_time_only_exact.

(* convergence: error recursion of a one-step method => global error K h^p on [t0, t0+T] *)
Theorem C03_global_error_partial :
  forall (e : nat -> R) (h L C T : R) (p n : nat),
  (0 < h)%R -> (0 < L)%R -> (0 <= C)%R -> e 0%nat = 0%R -> (INR n * h <= T)%R ->
  (forall k, (e (S k) <= (1 + h * L) * e k + C * h ^ (S p))%R) ->
  (e n <= (C * ((exp (T * L) - 1) / L)) * h ^ p)%R.
Proof. exact global_error_order. Qed.
Print Assumptions C03_global_error_partial.

(* the rescaled problem handed to cvodes / idas / collocation / sys_simulator has the declared
   flow as its solution: y(s) = x(t0 + s DT), y(0) = x(t0), y(1) = x(t0 + DT) *)
Theorem C03_builtin_rescaling :
  forall (f : nat -> (nat -> R) -> R -> R) (x : nat -> R -> R) (t0 DT : R),
  (forall i t, is_derive (x i) t (f i (fun j => x j t) t)) ->
  forall i s,
    is_derive (fun s' => x i (t0 + s' * DT)%R) s
              (DT * f i (fun j => x j (t0 + s * DT)%R) (t0 + s * DT))%R.
Proof. exact rescaled_flow. Qed.
Print Assumptions C03_builtin_rescaling.

Theorem C03_builtin_quadrature_rescaling :
  forall (q Q : R -> R) (t0 DT : R),
  (forall t, is_derive Q t (q t)) ->
  forall s, is_derive (fun s' => Q (t0 + s' * DT)%R) s (DT * q (t0 + s * DT))%R.
Proof. exact rescaled_quadrature. Qed.
Print Assumptions C03_builtin_quadrature_rescaling.

(* non-vacuity: the error recursion's hypotheses are met by the exact error sequence of Euler on
   x' = 0 (e = 0), and the field statements have the instance Qc *)
Example C03_hyps_satisfiable :
  (forall k : nat, (0 <= (1 + 1 * 1) * 0 + 0 * 1 ^ (S 1))%R) /\ FieldLaws QcOps /\ @Char0 Qc QcOps.
Proof. split; [intro k; rewrite !Rmult_0_r, Rmult_0_l, Rplus_0_l; apply Rle_refl|split; [exact QcLaws|exact Qc_char0]]. Qed.
