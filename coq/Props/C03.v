(* Property C03 — discretised dynamics and integrals converge to the continuous-time model.
   Statements only; proofs in Proofs/ConvProofs.v (any field of characteristic 0) and
   Proofs/ConvReal.v (reals).
   PARTIAL: proved are the order conditions of the tableaux the step maps were proved equal to in
   C01, exactness on polynomial integrands / time-only dynamics for every M, the stability
   polynomials, the convergence theorem "local error C h^(p+1) + Lipschitz step map => global error
   K h^p", the time rescaling around CasADi's integrators, and — complete, local error bound proved by
   Taylor-Lagrange — order-1 convergence of expl_euler for every Lipschitz scalar ODE and order-4 convergence
   of rk on the linear test equation (Proofs/EulerConv.v, EulerConvVec.v), convergence (order >= 1) of rk for every
   Lipschitz system, order 2 (Proofs/RK4Conv.v) and the CLASSICAL ORDER 4 (Proofs/RK4Order4.v) for scalar autonomous f,
   collocation of degree 1 (Proofs/CollocConv.v, CollocOrder2.v).  NOT proved: order 4 of rk for systems / time-dependent
   right-hand sides (multivariate elementary differentials) and superconvergence 2d-1 / 2d of collocation of degree > 1;
   these
   enter C03_global_error_partial as the hypothesis on e and are measured numerically by the check. *)
From Coq Require Import Reals ZArith QArith Qcanon List Lia Bool.
From Coquelicot Require Import Coquelicot.
From RV Require Import Proofs.VacuityA Base.Num Base.Vec Mech.Intg Spec.SpecDyn Inst Proofs.QcInst Proofs.ConvProofs Proofs.ConvReal Proofs.DerProofs Proofs.EulerConv Proofs.EulerConvVec Proofs.RK4Conv Mech.Colloc Proofs.CollocConv Proofs.CollocOrder2 Proofs.RK4Order4 Proofs.RK4QuadOrder4 Proofs.RK4TimeDep.
Import ListNotations.

Theorem C03_rk4_order_conditions :
  forall (F : Type) (OF : Ops F), FieldLaws OF -> @Char0 F OF ->
    order4 rk4_tableau /\ row_sums rk4_tableau.
Proof. intros F OF Fl C. exact (rk4_order4 Fl C). Qed.
Print Assumptions C03_rk4_order_conditions.

Theorem C03_euler_order_conditions :
  forall (F : Type) (OF : Ops F), FieldLaws OF ->
    order1 euler_tableau /\ row_sums euler_tableau.
Proof. intros F OF Fl. exact (euler_order1 Fl). Qed.
Print Assumptions C03_euler_order_conditions.

(* x' = lam x: one step multiplies by the degree-4 (degree-1) Taylor polynomial of exp *)
Theorem C03_rk4_linear_test :
  forall (F : Type) (OF : Ops F), FieldLaws OF -> @Char0 F OF ->
  forall lam x t0 DT DTc : F, DT <> o0 ->
  let z := lam *! DT in
  r_xf (intg_rk (lin_sys lam) [x] t0 DT DTc) =
  [(o1 +! z +! z *! z /! o2 +! z *! z *! z /! of_Z 6 +! z *! z *! z *! z /! of_Z 24) *! x].
Proof. intros F OF Fl C lam x t0 DT DTc H. exact (rk4_stability_poly Fl C lam x t0 DT DTc H). Qed.
Print Assumptions C03_rk4_linear_test.

Theorem C03_euler_linear_test :
  forall (F : Type) (OF : Ops F), FieldLaws OF ->
  forall lam x t0 DT DTc : F,
  r_xf (intg_expl_euler (lin_sys lam) [x] t0 DT DTc) = [(o1 +! lam *! DT) *! x].
Proof. intros F OF Fl lam x t0 DT DTc. exact (euler_stability_poly Fl lam x t0 DT DTc). Qed.
Print Assumptions C03_euler_linear_test.

(* ocp.integral of a cubic in t over a control interval of any length, with any number M of
   integrator steps and any dynamics, is exact under rk; constants under expl_euler *)
Theorem C03_rk4_integral_exact_cubic :
  forall (F : Type) (OF : Ops F), FieldLaws OF -> @Char0 F OF ->
  forall (a0 a1 a2 a3 : F) (ode : list F -> F -> list F) (x0 : list F) (T t0 : F) (M : nat),
    M <> 0%nat ->
    ds_quad (discrete_system (intg_rk (quad_sys a0 a1 a2 a3 ode)) M 1 x0 T t0)
    = [G a0 a1 a2 a3 (t0 +! T) -! G a0 a1 a2 a3 t0].
Proof. intros F OF Fl C a0 a1 a2 a3 ode x0 T t0 M H. exact (rk4_integral_exact_cubic Fl C a0 a1 a2 a3 ode x0 T t0 M H). Qed.
Print Assumptions C03_rk4_integral_exact_cubic.

Theorem C03_euler_integral_exact_const :
  forall (F : Type) (OF : Ops F), FieldLaws OF -> @Char0 F OF ->
  forall (a0 : F) (ode : list F -> F -> list F) (x0 : list F) (T t0 : F) (M : nat),
    M <> 0%nat ->
    ds_quad (discrete_system (intg_expl_euler (quad_sys a0 o0 o0 o0 ode)) M 1 x0 T t0)
    = [G a0 o0 o0 o0 (t0 +! T) -! G a0 o0 o0 o0 t0].
Proof.
  intros F OF Fl C a0 ode x0 T t0 M H.
  exact (euler_integral_exact_const Fl C a0 o0 o0 o0 ode x0 T t0 M H eq_refl eq_refl eq_refl).
Qed.
Print Assumptions C03_euler_integral_exact_const.

(* x' = g(t), g cubic: the rk state transition is exact *)
Theorem C03_rk4_time_only_exact :
  forall (F : Type) (OF : Ops F), FieldLaws OF -> @Char0 F OF ->
  forall (a0 a1 a2 a3 x t0 DT DTc : F),
    r_xf (intg_rk (time_sys a0 a1 a2 a3) [x] t0 DT DTc)
    = [x +! (G a0 a1 a2 a3 (t0 +! DT) -! G a0 a1 a2 a3 t0)].
Proof. intros F OF Fl C a0 a1 a2 a3 x t0 DT DTc. exact (rk4_time_only_step_exact Fl C a0 a1 a2 a3 x t0 DT DTc). Qed.
Print Assumptions C03_rk4_time_only_exact.

(* convergence: error recursion of a one-step method => global error K h^p on [t0, t0+T] *)
Theorem C03_global_error_partial :
  forall (e : nat -> R) (h L C T : R) (p n : nat),
  (0 < h)%R -> (0 < L)%R -> (0 <= C)%R -> e 0%nat = 0%R -> (INR n * h <= T)%R ->
  (forall k, (e (S k) <= (1 + h * L) * e k + C * h ^ (S p))%R) ->
  (e n <= (C * ((exp (T * L) - 1) / L)) * h ^ p)%R.
Proof. exact global_error_order. Qed.
Print Assumptions C03_global_error_partial.

(* the rescaled problem handed to cvodes / idas / collocation / sys_simulator has the declared
   flow as its solution: y(s) = x(t0 + s DT), y(0) = x(t0), y(1) = x(t0 + DT) *)
Theorem C03_builtin_rescaling :
  forall (f : nat -> (nat -> R) -> R -> R) (x : nat -> R -> R) (t0 DT : R),
  (forall i t, is_derive (x i) t (f i (fun j => x j t) t)) ->
  forall i s,
    is_derive (fun s' => x i (t0 + s' * DT)%R) s
              (DT * f i (fun j => x j (t0 + s * DT)%R) (t0 + s * DT))%R.
Proof. exact rescaled_flow. Qed.
Print Assumptions C03_builtin_rescaling.

Theorem C03_builtin_quadrature_rescaling :
  forall (q Q : R -> R) (t0 DT : R),
  (forall t, is_derive Q t (q t)) ->
  forall s, is_derive (fun s' => Q (t0 + s' * DT)%R) s (DT * q (t0 + s * DT))%R.
Proof. exact rescaled_quadrature. Qed.
Print Assumptions C03_builtin_quadrature_rescaling.

(* COMPLETE convergence statements about the model's own loop at the instance of the reals, with the local error
   bound PROVED (Taylor-Lagrange), not assumed.
   Explicit Euler, any scalar ODE x' = f(t,x) with f Lipschitz in x and a solution with bounded second derivative
   on the horizon: every intermediate state of discrete_system is within K/2 (e^(TL)-1)/L * h of the exact
   solution — order 1 in h = T/M. *)
Theorem C03_euler_converges :
  forall (f : R -> R -> R) (x : R -> R) (t0 T L K : R) (M : nat),
  (0 < T)%R -> (0 < L)%R -> (0 < M)%nat ->
  (forall t, (t0 <= t <= t0 + T)%R -> is_derive x t (f t (x t))) ->
  (forall t, (t0 <= t <= t0 + T)%R -> ex_derive_n x 2 t) ->
  (forall t, (t0 <= t <= t0 + T)%R -> (Rabs (Derive_n x 2 t) <= K)%R) ->
  (forall t a b, (t0 <= t <= t0 + T)%R -> (Rabs (f t a - f t b) <= L * Rabs (a - b))%R) ->
  let h := (T / INR M)%R in
  let sys := mkSys (fun X t => [f t (nth 0 X 0%R)]) (fun _ _ => []) in
  let st := @discrete_system R ROps (intg_expl_euler sys) M 0 [x t0] T t0 in
  forall j, (j <= M)%nat ->
    (Rabs (nth 0 (nth j (ds_X st) [x t0]) 0 - x (t0 + INR j * h)) <= (K / 2 * ((exp (T * L) - 1) / L)) * h)%R.
Proof. exact euler_converges. Qed.
Print Assumptions C03_euler_converges.

(* the same for systems of any dimension n (max norm), any quadrature part *)
Theorem C03_euler_converges_systems :
  forall (sys : sysfun R) (n nq : nat) (x : nat -> R -> R) (t0 T L K : R) (M : nat),
  (0 < T)%R -> (0 < L)%R -> (0 <= K)%R -> (0 < M)%nat ->
  (forall X t, length X = n -> length (s_ode sys X t) = n) ->
  (forall i t, (i < n)%nat -> (t0 <= t <= t0 + T)%R ->
     is_derive (x i) t (nth i (s_ode sys (xvec n x t) t) 0%R)) ->
  (forall i t, (i < n)%nat -> (t0 <= t <= t0 + T)%R -> ex_derive_n (x i) 2 t) ->
  (forall i t, (i < n)%nat -> (t0 <= t <= t0 + T)%R -> (Rabs (Derive_n (x i) 2 t) <= K)%R) ->
  (forall i t X Y, (i < n)%nat -> (t0 <= t <= t0 + T)%R -> length X = n -> length Y = n ->
     (Rabs (nth i (s_ode sys X t) 0 - nth i (s_ode sys Y t) 0) <= L * dist_max n X Y)%R) ->
  let h := (T / INR M)%R in
  let X0 := xvec n x t0 in
  let st := @discrete_system R ROps (intg_expl_euler sys) M nq X0 T t0 in
  forall j i, (j <= M)%nat -> (i < n)%nat ->
    (Rabs (nth i (nth j (ds_X st) X0) 0 - x i (t0 + INR j * h)) <= (K / 2 * ((exp (T * L) - 1) / L)) * h)%R.
Proof. exact euler_converges_vec. Qed.
Print Assumptions C03_euler_converges_systems.

(* ocp.integral under expl_euler as modelled (one quadrature state with integrand g): the accumulated quadrature is
   within O(h) of the Riemann integral of g along the exact solution, explicit constant *)
Theorem C03_euler_integral_converges :
  forall (sys : sysfun R) (g : list R -> R -> R) (n : nat) (x : nat -> R -> R) (t0 T L Lg K D : R) (M : nat),
  (0 < T)%R -> (0 < L)%R -> (0 <= K)%R -> (0 <= Lg)%R -> (0 < M)%nat ->
  (forall X t, length X = n -> length (s_ode sys X t) = n) ->
  (forall X t, s_quad sys X t = [g X t]) ->
  (forall i t, (i < n)%nat -> (t0 <= t <= t0 + T)%R ->
     is_derive (x i) t (nth i (s_ode sys (xvec n x t) t) 0%R)) ->
  (forall i t, (i < n)%nat -> (t0 <= t <= t0 + T)%R -> ex_derive_n (x i) 2 t) ->
  (forall i t, (i < n)%nat -> (t0 <= t <= t0 + T)%R -> (Rabs (Derive_n (x i) 2 t) <= K)%R) ->
  (forall i t X Y, (i < n)%nat -> (t0 <= t <= t0 + T)%R -> length X = n -> length Y = n ->
     (Rabs (nth i (s_ode sys X t) 0 - nth i (s_ode sys Y t) 0) <= L * dist_max n X Y)%R) ->
  (forall t X Y, (t0 <= t <= t0 + T)%R -> length X = n -> length Y = n ->
     (Rabs (g X t - g Y t) <= Lg * dist_max n X Y)%R) ->
  (forall t, ex_derive (fun s => g (xvec n x s) s) t) ->
  (forall t, (t0 <= t <= t0 + T)%R -> (Rabs (Derive (fun s => g (xvec n x s) s) t) <= D)%R) ->
  let h := (T / INR M)%R in
  let st := @discrete_system R ROps (intg_expl_euler sys) M 1 (xvec n x t0) T t0 in
  (Rabs (nth 0 (ds_quad st) 0 - RInt (fun s => g (xvec n x s) s) t0 (t0 + T))
   <= (T * (Lg * (K / 2 * ((exp (T * L) - 1) / L)) + D / 2)) * h)%R.
Proof. exact euler_integral_converges. Qed.
Print Assumptions C03_euler_integral_converges.

(* rk on the linear test equation x' = lam x: local error of the stability polynomial against exp (Taylor-Lagrange
   of order 5) and the resulting global error C h^4 of the model's loop, explicit constant *)
Theorem C03_rk4_local_error_linear :
  forall z : R, (Rabs z <= 1)%R -> (Rabs (rk4R z - exp z) <= exp 1 / 120 * Rabs z ^ 5)%R.
Proof. exact rk4_local_error. Qed.
Print Assumptions C03_rk4_local_error_linear.

Theorem C03_rk4_linear_converges :
  forall (lam x0 t0 T : R) (M : nat),
  (0 < T)%R -> lam <> 0%R -> (0 < M)%nat ->
  let h := (T / INR M)%R in
  (Rabs lam * h <= 1)%R ->
  let st := @discrete_system R ROps (intg_rk (lin_sys lam)) M 0 [x0] T t0 in
  let C := ((exp 1 / 120 * Rabs lam ^ 5 * exp (Rabs lam * T) * Rabs x0)
           * ((exp (T * (2 * Rabs lam)) - 1) / (2 * Rabs lam)))%R in
  forall j, (j <= M)%nat ->
    (Rabs (nth 0 (nth j (ds_X st) [x0]) 0 - exp (lam * (INR j * h)) * x0) <= C * h ^ 4)%R.
Proof. exact rk4_linear_converges. Qed.
Print Assumptions C03_rk4_linear_converges.

(* rk for a GENERAL right-hand side (systems of any dimension, max norm): Lipschitz in the state (L) and in time
   (Lt), |x'| <= B and |x''| <= K along the exact solution.  The error of every intermediate state of the model's
   loop is at most C h with an explicit C: "the error vanishes as M grows" is proved for rk and every such ODE; the
   classical order 4 itself is proved only on the linear test equation (above) and, at order 2, for scalar autonomous
   f with bounded f', f'' (below). *)
Theorem C03_rk4_converges_systems :
  forall (sys : sysfun R) (n nq : nat) (x : nat -> R -> R) (t0 T L Lt K B : R) (M : nat),
  (0 < T)%R -> (0 < L)%R -> (0 <= Lt)%R -> (0 <= K)%R -> (0 <= B)%R -> (0 < M)%nat ->
  (forall X t, length X = n -> length (s_ode sys X t) = n) ->
  (forall i t, (i < n)%nat -> (t0 <= t <= t0 + T)%R -> is_derive (x i) t (nth i (s_ode sys (xvec n x t) t) 0%R)) ->
  (forall i t, (i < n)%nat -> (t0 <= t <= t0 + T)%R -> ex_derive_n (x i) 2 t) ->
  (forall i t, (i < n)%nat -> (t0 <= t <= t0 + T)%R -> (Rabs (Derive_n (x i) 2 t) <= K)%R) ->
  (forall i t, (i < n)%nat -> (t0 <= t <= t0 + T)%R -> (Rabs (nth i (s_ode sys (xvec n x t) t) 0) <= B)%R) ->
  (forall i t X Y, (i < n)%nat -> (t0 <= t <= t0 + T)%R -> length X = n -> length Y = n ->
     (Rabs (nth i (s_ode sys X t) 0 - nth i (s_ode sys Y t) 0) <= L * dist_max n X Y)%R) ->
  (forall i t s X, (i < n)%nat -> (t0 <= t <= t0 + T)%R -> (t0 <= s <= t0 + T)%R -> length X = n ->
     (Rabs (nth i (s_ode sys X t) 0 - nth i (s_ode sys X s) 0) <= Lt * Rabs (t - s))%R) ->
  let h := (T / INR M)%R in
  let Q := (T * L)%R in
  let L' := (L * (1 + Q / 2 + Q ^ 2 / 6 + Q ^ 3 / 24))%R in
  let C1 := ((L * B + Lt) * (1 / 2 + Q / 6 + Q ^ 2 / 24))%R in
  let X0 := xvec n x t0 in
  let st := @discrete_system R ROps (intg_rk sys) M nq X0 T t0 in
  forall j i, (j <= M)%nat -> (i < n)%nat ->
    (Rabs (nth i (nth j (ds_X st) X0) 0 - x i (t0 + INR j * h))
     <= ((K / 2 + C1) * ((exp (T * L') - 1) / L')) * h)%R.
Proof. exact rk4_converges_vec. Qed.
Print Assumptions C03_rk4_converges_systems.

Theorem C03_rk4_converges_order2_scalar_autonomous :
  forall (f x : R -> R) (t0 T L F2 B K3 : R) (M : nat),
  (0 < T)%R -> (0 < L)%R -> (0 <= F2)%R -> (0 <= B)%R -> (0 < M)%nat ->
  (forall s, ex_derive f s) -> (forall s, ex_derive_n f 2 s) ->
  (forall s, (Rabs (Derive f s) <= L)%R) -> (forall s, (Rabs (Derive_n f 2 s) <= F2)%R) ->
  (forall t, is_derive x t (f (x t))) ->
  (forall t, ex_derive_n x 3 t) ->
  (forall t, (t0 <= t <= t0 + T)%R -> (Rabs (Derive_n x 3 t) <= K3)%R) ->
  (forall t, (t0 <= t <= t0 + T)%R -> (Rabs (f (x t)) <= B)%R) ->
  let h := (T / INR M)%R in let Q := (T * L)%R in
  let L' := (L * (1 + Q / 2 + Q ^ 2 / 6 + Q ^ 3 / 24))%R in
  let b2 := (1 + Q / 2)%R in let b3 := (1 + Q / 2 * b2)%R in
  let C2 := ((F2 * B ^ 2 * (1 / 4 + b2 ^ 2 / 4 + b3 ^ 2 / 2) + L ^ 2 * B * (1 / 2 + b2 / 2)) / 6)%R in
  let sys := mkSys (fun X (_ : R) => [f (nth 0 X 0%R)]) (fun _ _ => []) in
  let st := @discrete_system R ROps (intg_rk sys) M 0 [x t0] T t0 in
  forall j, (j <= M)%nat ->
    (Rabs (nth 0 (nth j (ds_X st) [x t0]) 0 - x (t0 + INR j * h))
     <= ((C2 + K3 / 6) * ((exp (T * L') - 1) / L')) * h ^ 2)%R.
Proof. exact rk4_converges_order2. Qed.
Print Assumptions C03_rk4_converges_order2_scalar_autonomous.

(* non-vacuity of the two convergence theorems: x' = x with x = exp (Euler), x' = -x on [t0, t0+1] (rk) *)
Example C03_convergence_nonvacuous : True /\ True.
Proof. pose proof euler_converges_exp as _. pose proof rk4_linear_converges_decay as _.
  pose proof euler_converges_rotation as _. pose proof euler_integral_rotation as _.
  pose proof rk4_converges_rotation as _. pose proof rk4_converges_order2_exp as _. split; exact I. Qed.

(* non-vacuity: the error recursion's hypotheses are met by the exact error sequence of Euler on
   x' = 0 (e = 0), and the field statements have the instance Qc *)
Example C03_hyps_satisfiable :
  (forall k : nat, (0 <= (1 + 1 * 1) * 0 + 0 * 1 ^ (S 1))%R) /\ FieldLaws QcOps /\ @Char0 Qc QcOps.
Proof. split; [intro k; rewrite !Rmult_0_r, Rmult_0_l, Rplus_0_l; apply Rle_refl|split; [exact QcLaws|exact Qc_char0]]. Qed.

(* ---------------------------------------------------------------------------------------------------------------
   DirectCollocation of degree 1 as modelled (Proofs/CollocConv.v).  The model's coefficient matrices for tau = [1]
   (radau) and tau = [1/2] (legendre) are those of the implicit Euler and the implicit midpoint rule; any node / helper
   state sequences for which the model's collocation rows (Pidot = f at the root time) and continuity rows hold converge
   to the exact solution with order >= 1 (h L <= 1/2; existence of the sequences is the hypothesis "the rows hold"), and
   the collocation quadrature with B = [1] converges to the integral.  Superconvergence of degree > 1 is not proved. *)
Local Open Scope R_scope.
Theorem C03_dc_radau1_converges (F : list R -> R -> list R) (n : nat) (x : nat -> R -> R) (t0 T L K : R) (M : nat) (Y Yc : nat -> list R) :
  0 < T -> 0 < L -> 0 <= K -> (0 < M)%nat ->
  let h := T / INR M in
  h * L <= 1 / 2 ->
  (forall j, (j <= M)%nat -> length (Y j) = n) ->
  (forall j, (j < M)%nat -> length (Yc j) = n) ->
  Y 0%nat = xvec n x t0 ->
  (* collocation row of step j, root time = step start + h * tau_0, tau = [1] *)
  (forall j, (j < M)%nat ->
     @vdivs R ROps (@wsum R ROps (@col R ROps (@coeff_C R ROps [1]) 0) [Y j; Yc j]) h
     = F (Yc j) (t0 + INR j * h + h * 1)) ->
  (* continuity row of step j *)
  (forall j, (j < M)%nat -> @wsum R ROps (@coeff_D R ROps [1]) [Y j; Yc j] = Y (S j)) ->
  (forall i t, (i < n)%nat -> t0 <= t <= t0 + T -> is_derive (x i) t (nth i (F (xvec n x t) t) 0)) ->
  (forall i t, (i < n)%nat -> t0 <= t <= t0 + T -> ex_derive_n (x i) 2 t) ->
  (forall i t, (i < n)%nat -> t0 <= t <= t0 + T -> Rabs (Derive_n (x i) 2 t) <= K) ->
  (forall i t X Y', (i < n)%nat -> t0 <= t <= t0 + T -> length X = n -> length Y' = n ->
     Rabs (nth i (F X t) 0 - nth i (F Y' t) 0) <= L * dist_max n X Y') ->
  forall j i, (j <= M)%nat -> (i < n)%nat ->
    Rabs (nth i (Y j) 0 - x i (t0 + INR j * h)) <= (3 * K * ((exp (T * (2 * L)) - 1) / (2 * L))) * h.
Proof. exact (dc_radau1_converges F n x t0 T L K M Y Yc). Qed.
Print Assumptions C03_dc_radau1_converges.


Theorem C03_dc_legendre1_converges (F : list R -> R -> list R) (n : nat) (x : nat -> R -> R) (t0 T L K : R) (M : nat) (Y Yc : nat -> list R) :
  0 < T -> 0 < L -> 0 <= K -> (0 < M)%nat ->
  let h := T / INR M in
  h * L <= 1 / 2 ->
  (forall j, (j <= M)%nat -> length (Y j) = n) ->
  (forall j, (j < M)%nat -> length (Yc j) = n) ->
  Y 0%nat = xvec n x t0 ->
  (* collocation row of step j, root time = step start + h * tau_0, tau = [1/2] *)
  (forall j, (j < M)%nat ->
     @vdivs R ROps (@wsum R ROps (@col R ROps (@coeff_C R ROps [1 / 2]) 0) [Y j; Yc j]) h
     = F (Yc j) (t0 + INR j * h + h * (1 / 2))) ->
  (* continuity row of step j *)
  (forall j, (j < M)%nat -> @wsum R ROps (@coeff_D R ROps [1 / 2]) [Y j; Yc j] = Y (S j)) ->
  (forall i t, (i < n)%nat -> t0 <= t <= t0 + T -> is_derive (x i) t (nth i (F (xvec n x t) t) 0)) ->
  (forall i t, (i < n)%nat -> t0 <= t <= t0 + T -> ex_derive_n (x i) 2 t) ->
  (forall i t, (i < n)%nat -> t0 <= t <= t0 + T -> Rabs (Derive_n (x i) 2 t) <= K) ->
  (forall i t X Y', (i < n)%nat -> t0 <= t <= t0 + T -> length X = n -> length Y' = n ->
     Rabs (nth i (F X t) 0 - nth i (F Y' t) 0) <= L * dist_max n X Y') ->
  forall j i, (j <= M)%nat -> (i < n)%nat ->
    Rabs (nth i (Y j) 0 - x i (t0 + INR j * h)) <= (2 * K * ((exp (T * (2 * L)) - 1) / (2 * L))) * h.
Proof. exact (dc_legendre1_converges F n x t0 T L K M Y Yc). Qed.
Print Assumptions C03_dc_legendre1_converges.


Theorem C03_dc_radau1_integral_converges (F : list R -> R -> list R) (g : list R -> R -> R) (n : nat) (x : nat -> R -> R) (t0 T L Lg K D : R) (M : nat) (Y Yc : nat -> list R) (Qs : nat -> R) :
  0 < T -> 0 < L -> 0 <= K -> 0 <= Lg -> (0 < M)%nat ->
  let h := T / INR M in
  h * L <= 1 / 2 ->
  (forall j, (j <= M)%nat -> length (Y j) = n) ->
  (forall j, (j < M)%nat -> length (Yc j) = n) ->
  Y 0%nat = xvec n x t0 ->
  (forall j, (j < M)%nat ->
     @vdivs R ROps (@wsum R ROps (@col R ROps (@coeff_C R ROps [1]) 0) [Y j; Yc j]) h
     = F (Yc j) (t0 + INR j * h + h * 1)) ->
  (forall j, (j < M)%nat -> @wsum R ROps (@coeff_D R ROps [1]) [Y j; Yc j] = Y (S j)) ->
  (* the quadrature accumulator *)
  Qs 0%nat = 0 ->
  (forall j, (j < M)%nat ->
     Qs (S j) = Qs j + nth 0 (@coeff_B R ROps [1]) 0 * (h * g (Yc j) (t0 + INR j * h + h * 1))) ->
  (forall i t, (i < n)%nat -> t0 <= t <= t0 + T -> is_derive (x i) t (nth i (F (xvec n x t) t) 0)) ->
  (forall i t, (i < n)%nat -> t0 <= t <= t0 + T -> ex_derive_n (x i) 2 t) ->
  (forall i t, (i < n)%nat -> t0 <= t <= t0 + T -> Rabs (Derive_n (x i) 2 t) <= K) ->
  (forall i t X Y', (i < n)%nat -> t0 <= t <= t0 + T -> length X = n -> length Y' = n ->
     Rabs (nth i (F X t) 0 - nth i (F Y' t) 0) <= L * dist_max n X Y') ->
  (forall t X Y', t0 <= t <= t0 + T -> length X = n -> length Y' = n ->
     Rabs (g X t - g Y' t) <= Lg * dist_max n X Y') ->
  (forall t, ex_derive (fun s => g (xvec n x s) s) t) ->
  (forall t, t0 <= t <= t0 + T -> Rabs (Derive (fun s => g (xvec n x s) s) t) <= D) ->
  Rabs (Qs M - RInt (fun s => g (xvec n x s) s) t0 (t0 + T))
  <= (T * (Lg * (3 * K * ((exp (T * (2 * L)) - 1) / (2 * L))) + 3 / 2 * D)) * h.
Proof. exact (dc_radau1_integral_converges F g n x t0 T L Lg K D M Y Yc Qs). Qed.
Print Assumptions C03_dc_radau1_integral_converges.


(* legendre collocation of degree 1 (implicit midpoint) at its CLASSICAL order 2d = 2, any dimension, max norm *)
Theorem C03_dc_legendre1_converges_order2 (F : list R -> R -> list R) (n : nat) (x : nat -> R -> R) (t0 T L K2 K3 : R) (M : nat) (Y Yc : nat -> list R) :
  0 < T -> 0 < L -> 0 <= K2 -> 0 <= K3 -> (0 < M)%nat ->
  let h := T / INR M in
  h * L <= 1 / 2 ->
  (forall j, (j <= M)%nat -> length (Y j) = n) ->
  (forall j, (j < M)%nat -> length (Yc j) = n) ->
  Y 0%nat = xvec n x t0 ->
  (* collocation row of step j, root time = step start + h * tau_0, tau = [1/2] *)
  (forall j, (j < M)%nat ->
     @vdivs R ROps (@wsum R ROps (@col R ROps (@coeff_C R ROps [1 / 2]) 0) [Y j; Yc j]) h
     = F (Yc j) (t0 + INR j * h + h * (1 / 2))) ->
  (* continuity row of step j *)
  (forall j, (j < M)%nat -> @wsum R ROps (@coeff_D R ROps [1 / 2]) [Y j; Yc j] = Y (S j)) ->
  (forall i t, (i < n)%nat -> t0 <= t <= t0 + T -> is_derive (x i) t (nth i (F (xvec n x t) t) 0)) ->
  (forall i t k, (i < n)%nat -> t0 <= t <= t0 + T -> (k <= 3)%nat -> ex_derive_n (x i) k t) ->
  (forall i t, (i < n)%nat -> t0 <= t <= t0 + T -> Rabs (Derive_n (x i) 2 t) <= K2) ->
  (forall i t, (i < n)%nat -> t0 <= t <= t0 + T -> Rabs (Derive_n (x i) 3 t) <= K3) ->
  (forall i t X Y', (i < n)%nat -> t0 <= t <= t0 + T -> length X = n -> length Y' = n ->
     Rabs (nth i (F X t) 0 - nth i (F Y' t) 0) <= L * dist_max n X Y') ->
  forall j i, (j <= M)%nat -> (i < n)%nat ->
    Rabs (nth i (Y j) 0 - x i (t0 + INR j * h))
    <= ((3 / 4 * L * K2 + 7 / 12 * K3) * ((exp (T * (2 * L)) - 1) / (2 * L))) * h ^ 2.
Proof. exact (dc_legendre1_converges_order2 F n x t0 T L K2 K3 M Y Yc). Qed.
Print Assumptions C03_dc_legendre1_converges_order2.


(* rk at its CLASSICAL ORDER 4 for a general scalar autonomous ODE x' = f(x): f four times differentiable with bounded
   derivatives, |f| <= B along the solution; every intermediate state of the model's loop is within C h^4 of the exact
   solution, with the explicit constant C = (rk4_c5 + K5/120)(e^{TL'}-1)/L' and K5 = rk4_K5 B L F2 F3 F4 derived from the
   bounds on f (x only has to be a solution).  One-step consistency against the degree-4 Taylor polynomial of the flow written
   with the elementary differentials, remainder bounded stage by stage (Proofs/RK4Order4.v). *)
Theorem C03_rk4_converges_order4_scalar_autonomous (f x : R -> R) (t0 T B L F2 F3 F4 : R) (M : nat) :
  0 < T -> 0 < L -> (0 < M)%nat ->
  (forall s k, (k <= 4)%nat -> ex_derive_n f k s) ->
  (forall s, Rabs (Derive_n f 1 s) <= L) -> (forall s, Rabs (Derive_n f 2 s) <= F2) ->
  (forall s, Rabs (Derive_n f 3 s) <= F3) -> (forall s, Rabs (Derive_n f 4 s) <= F4) ->
  (forall t, is_derive x t (f (x t))) ->
  (forall t, t0 <= t <= t0 + T -> Rabs (f (x t)) <= B) ->
  let h := T / INR M in
  let Q := T * L in
  let L' := L * (1 + Q / 2 + Q ^ 2 / 6 + Q ^ 3 / 24) in
  let C5 := rk4_c5 B L F2 F3 F4 T in
  let K5 := rk4_K5 B L F2 F3 F4 in
  let sys := mkSys (fun X (_ : R) => [f (nth 0 X 0)]) (fun _ _ => []) in
  let st := @discrete_system R ROps (intg_rk sys) M 0 [x t0] T t0 in
  forall j, (j <= M)%nat ->
    Rabs (nth 0 (nth j (ds_X st) [x t0]) 0 - x (t0 + INR j * h))
    <= ((C5 + K5 / 120) * ((exp (T * L') - 1) / L')) * h ^ 4.
Proof. exact (rk4_converges_order4_closed f x t0 T B L F2 F3 F4 M). Qed.
Print Assumptions C03_rk4_converges_order4_scalar_autonomous.


(* the VALUE OF ocp.integral under rk at order 4 (scalar autonomous x' = f(x), one quadrature state with integrand g(x)):
   the quadrature accumulated by the model's loop — evaluated at the NUMERICAL stage states — is within Cq h^4 of the
   Riemann integral of g along the exact solution; only |g'|..|g''''| are bounded, explicit Cq (Proofs/RK4QuadOrder4.v) *)
Theorem C03_rk4_integral_converges_order4 (f g x : R -> R) (t0 T B L F2 F3 F4 G1 G2 G3 G4 : R) (M : nat) :
  0 < T -> 0 < L -> (0 < M)%nat ->
  (forall s k, (k <= 4)%nat -> ex_derive_n f k s) ->
  (forall s, Rabs (Derive_n f 1 s) <= L) -> (forall s, Rabs (Derive_n f 2 s) <= F2) ->
  (forall s, Rabs (Derive_n f 3 s) <= F3) -> (forall s, Rabs (Derive_n f 4 s) <= F4) ->
  (forall s k, (k <= 4)%nat -> ex_derive_n g k s) ->
  (forall s, Rabs (Derive_n g 1 s) <= G1) -> (forall s, Rabs (Derive_n g 2 s) <= G2) ->
  (forall s, Rabs (Derive_n g 3 s) <= G3) -> (forall s, Rabs (Derive_n g 4 s) <= G4) ->
  (forall t, is_derive x t (f (x t))) ->
  (forall t, t0 <= t <= t0 + T -> Rabs (f (x t)) <= B) ->
  let h := T / INR M in
  let Q := T * L in
  let PQ := 1 + Q / 2 + Q ^ 2 / 6 + Q ^ 3 / 24 in
  let L' := L * PQ in
  let E := (rk4_c5 B L F2 F3 F4 T + rk4_K5 B L F2 F3 F4 / 120) * ((exp (T * L') - 1) / L') in
  let Cq := T * (G1 * PQ * E + rk4_cq5 B L F2 F3 F4 G1 G2 G3 G4 T + rk4_KA5 B L F2 F3 G1 G2 G3 G4 / 120) in
  let sys := mkSys (fun X (_ : R) => [f (nth 0 X 0)]) (fun X (_ : R) => [g (nth 0 X 0)]) in
  let st := @discrete_system R ROps (intg_rk sys) M 1 [x t0] T t0 in
  Rabs (nth 0 (ds_quad st) 0 - RInt (fun s => g (x s)) t0 (t0 + T)) <= Cq * h ^ 4.
Proof. exact (rk4_integral_converges_order4 f g x t0 T B L F2 F3 F4 G1 G2 G3 G4 M). Qed.
Print Assumptions C03_rk4_integral_converges_order4.


(* an explicitly TIME-DEPENDENT right-hand side x' = phi(t): with the stage times t, t+h/2, t+h/2, t+h taken as absolute times
   the model's rk step is Simpson's rule and every intermediate state is within (T K4 49/2880) h^4 of x0 + the integral of phi
   (Proofs/RK4TimeDep.v; a stage time that is stale or relative, as in the seeded changes C01-a / C03-a, destroys this) *)
Theorem C03_rk4_time_dependent_quadrature_order4 (phi : R -> R) (x0 t0 T K4 : R) (M : nat) :
  0 < T -> (0 < M)%nat ->
  (forall t k, (k <= 4)%nat -> ex_derive_n phi k t) ->
  (forall t, t0 <= t <= t0 + T -> Rabs (Derive_n phi 4 t) <= K4) ->
  let h := T / INR M in
  let sys := mkSys (fun (_ : list R) (t : R) => [phi t]) (fun _ _ => []) in
  let st := @discrete_system R ROps (intg_rk sys) M 0 [x0] T t0 in
  forall j, (j <= M)%nat ->
    Rabs (nth 0 (nth j (ds_X st) [x0]) 0 - (x0 + RInt phi t0 (t0 + INR j * h)))
    <= (T * K4 * (49 / 2880)) * h ^ 4.
Proof. exact (rk4_time_quadrature_order4 phi x0 t0 T K4 M). Qed.
Print Assumptions C03_rk4_time_dependent_quadrature_order4.


Theorem C03_dc_degree1_coefficients :
  forall (F : Type) (OF : Ops F), FieldLaws OF -> (@o2 F OF) <> o0 ->
  (coeff_C [o1 : F] = [[oopp o1]; [o1]] /\ coeff_D [o1 : F] = [o0; o1] /\ coeff_B [o1 : F] = [o1]) /\
  (coeff_C [o1 /! o2 : F] = [[oopp o2]; [o2]] /\ coeff_D [o1 /! o2 : F] = [oopp o1; o2] /\ coeff_B [o1 /! o2 : F] = [o1]).
Proof. intros F OF Fl H2. split; [exact (coeff_radau1 Fl)|exact (coeff_legendre1 Fl H2)]. Qed.
Print Assumptions C03_dc_degree1_coefficients.

Example C03_dc_nonvacuous : True /\ True.
Proof. pose proof dc_radau1_decay as _. pose proof dc_legendre1_decay as _. pose proof dc_legendre1_decay_order2 as _. pose proof rk4_converges_order4_sin as _. pose proof rk4_integral_order4_sin as _. pose proof rk4_time_quadrature_cos as _. split; exact I. Qed.

(* further witnesses that the hypotheses of this file's theorems are met by realistic inputs (N = 1, M = 1, no controls,
   t0 = 0, concrete grids / collocation points): proved in Proofs/VacuityA.v by the vacuity audit *)
Example C03_more_witnesses : True.
Proof. pose proof C03_dc_radau1_integral_hyp_satisfiable as _. pose proof C03_builtin_rescaling_hyp_satisfiable as _. pose proof C03_global_error_hyp_satisfiable as _. exact I. Qed.
