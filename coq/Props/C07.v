(* Property C07 — sampling commutes with expression evaluation on every grid.
   Statements only; proofs in Proofs/SampleProofs.v and Proofs/PlaceProofs.v. *)
From Coq Require Import ZArith QArith Qcanon List Lia Bool.
From RV Require Import Proofs.VacuityA Base.Num Base.PyList Base.Vec Expr Ocp Rows Mech.Grid Mech.Intg Mech.Sampling
     Mech.Shooting Mech.Sample Spec.SpecDyn Spec.SpecPlace Inst Proofs.QcInst Proofs.SampleProofs.
Import ListNotations.
Local Open Scope nat_scope.

(* grid='control': time point i of the N+1 samples is the (matrix) expression evaluated entry by
   entry in the environment of node i — the sampled values of its ingredients at that node and the
   node time (C04_instance_env says what that environment contains) *)
Theorem C07_control_sample_is_evaluation_at_nodes :
  forall (F : Type) (OF : Ops F), FieldLaws OF -> @Char0 F OF ->
  forall (L : mlists F), wf_lists L -> forall es : list expr,
    (forall e, In e es -> offsets e = []) ->
    snd (sample_control L es true)
    = map (fun k => map (fun e => Some (spec_eval_node L k e)) es) (seq 0 (S (L_N L))).
Proof. intros F OF Fl C L W es H. exact (sample_control_spec Fl C L W es H). Qed.
Print Assumptions C07_control_sample_is_evaluation_at_nodes.

(* the returned time vector has one entry per sampled value, on 'control' and on 'control-' *)
Theorem C07_time_length_matches :
  forall (F : Type) (OF : Ops F) (L : mlists F), wf_lists L -> forall es b,
    length (fst (sample_control L es b)) = length (snd (sample_control L es b)).
Proof. intros F OF L W es b. exact (sample_control_lengths L W es b). Qed.
Print Assumptions C07_time_length_matches.

(* grid='integrator' (MultipleShooting): the state seen at integrator point (k, l) is the l-th
   iterate of the scheme's step map on interval k started from node state k *)
Theorem C07_integrator_sample_state :
  forall (F : Type) (OF : Ops F), FieldLaws OF ->
  forall (oc : ocp) (pt : point F) k l, k < m_N (o_method oc) -> l < m_M (o_method oc) ->
    let cg := grid_of oc pt in
    let len := nth (S k) cg o0 -! nth k cg o0 in
    let h := len /! of_nat (m_M (o_method oc)) in
    e_x (env_integrator (lists_of oc pt false) k l)
    = iter_steps (fun t x => r_xf (step_of oc pt k x t h len)) (nth k cg o0) h l (nth k (p_X pt) []).
Proof. intros F OF Fl oc pt k l Hk Hl. exact (ms_integrator_state Fl oc pt k l Hk Hl). Qed.
Print Assumptions C07_integrator_sample_state.

(* numeric read-back: DM2numpy's reshape / transpose / reshape puts element (a, b) of the block of
   time i at index [i, a, b] (row-major flat index i*(r*c) + a*c + b), for all shapes *)
Theorem C07_dm2numpy_index :
  forall (A : Type) (d : A) (flat : list A) (r tdim c i a b : nat),
    i < tdim -> a < r -> b < c ->
    nth (i * (r * c) + a * c + b) (dm2numpy d flat r tdim c) d = nth (a * (tdim * c) + i * c + b) flat d /\
    length (dm2numpy d flat r tdim c) = tdim * r * c.
Proof.
  intros A d flat r tdim c i a b H1 H2 H3. split.
  - exact (dm2numpy_index d flat r tdim c i a b H1 H2 H3).
  - exact (dm2numpy_length d flat r tdim c).
Qed.
Print Assumptions C07_dm2numpy_index.

(* non-vacuity: a 2 x 3 block matrix over 2 time points *)
Example C07_dm2numpy_example :
  dm2numpy 0 [11;12;13;21;22;23; 14;15;16;24;25;26] 2 2 3 = [11;12;13;14;15;16; 21;22;23;24;25;26].
Proof. reflexivity. Qed.

(* further witnesses that the hypotheses of this file's theorems are met by realistic inputs (N = 1, M = 1, no controls,
   t0 = 0, concrete grids / collocation points): proved in Proofs/VacuityA.v by the vacuity audit *)
Example C07_more_witnesses : True.
Proof. pose proof wf_lists_N1_M1_no_controls as _. exact I. Qed.
