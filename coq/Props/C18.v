(* Property C18 — saving and loading an OCP preserves the problem.
   Statements only; proofs in Proofs/PersistProofs.v.
   PARTIAL: pickle and CasADi's serializer are runtime; they appear as the oracle ser/deser with the
   hypothesis that decoding returns the encoded declaration.  That hypothesis is what the
   correspondence part of the check tests on rockit (NLP, start point, parameter values, solver
   settings and accessors of the loaded OCP against the original and against the Rocq model). *)
From Coq Require Import List Bool.
From RV Require Import Mech.History Mech.Persist Proofs.HistProofs Proofs.PersistProofs Proofs.VacuityB.
Import ListNotations.

Theorem C18_loaded_behaves_like_fresh_partial :
  forall (Spec Edit Upd NLP Bytes : Type)
         (apply_edit : Spec -> Edit -> Spec) (apply_upd : Spec -> Upd -> Spec)
         (transcribe : Spec -> NLP) (live_upd : NLP -> Upd -> NLP)
         (ser : Spec -> Bytes) (deser : Bytes -> option Spec),
    (forall sp u, live_upd (transcribe sp) u = transcribe (apply_upd sp u)) ->
    (forall sp, deser (ser sp) = Some sp) ->
  forall sp (ops ops' : list (hop Edit Upd)),
    let run := hrun Spec Edit Upd NLP apply_edit apply_upd transcribe live_upd in
    exists l, load Spec NLP Bytes deser (snd (save Spec NLP Bytes ser (run (hinit Spec NLP sp) ops))) = Some l /\
      next_nlp Spec Edit Upd NLP apply_edit apply_upd transcribe live_upd (run l ops')
      = Some (transcribe (final_spec Spec Edit Upd apply_edit apply_upd
                            (final_spec Spec Edit Upd apply_edit apply_upd sp ops) ops')).
Proof. intros. apply loaded_behaves_fresh; assumption. Qed.
Print Assumptions C18_loaded_behaves_like_fresh_partial.

(* the same with the oracle hypotheses where they are used (vacuity audit): the codec has to round-trip the ONE declaration
   that is saved (a real codec fails on unpicklable declarations), and live updates have to commute with transcription along
   the history that follows the load *)
Theorem C18_loaded_behaves_like_fresh_along :
  forall (Spec Edit Upd NLP Bytes : Type)
         (apply_edit : Spec -> Edit -> Spec) (apply_upd : Spec -> Upd -> Spec)
         (transcribe : Spec -> NLP) (live_upd : NLP -> Upd -> NLP)
         (ser : Spec -> Bytes) (deser : Bytes -> option Spec)
         (sp : Spec) (ops ops' : list (hop Edit Upd)),
    let run := hrun Spec Edit Upd NLP apply_edit apply_upd transcribe live_upd in
    let saved := final_spec Spec Edit Upd apply_edit apply_upd sp ops in
    deser (ser saved) = Some saved ->
    (forall pre u post, ops' = pre ++ HUpd Edit Upd u :: post ->
       live_upd (transcribe (final_spec Spec Edit Upd apply_edit apply_upd saved pre)) u
       = transcribe (apply_upd (final_spec Spec Edit Upd apply_edit apply_upd saved pre) u)) ->
    exists l, load Spec NLP Bytes deser (snd (save Spec NLP Bytes ser (run (hinit Spec NLP sp) ops))) = Some l /\
      next_nlp Spec Edit Upd NLP apply_edit apply_upd transcribe live_upd (run l ops')
      = Some (transcribe (final_spec Spec Edit Upd apply_edit apply_upd saved ops')).
Proof.
  intros Spec Edit Upd NLP Bytes ae au tr lu ser deser sp ops ops' run saved H1 H2.
  exact (loaded_behaves_fresh_local Spec Edit Upd NLP ae au tr lu Bytes ser deser sp ops ops' H1 H2).
Qed.
Print Assumptions C18_loaded_behaves_like_fresh_along.

Theorem C18_original_survives_save :
  forall (Spec Edit Upd NLP Bytes : Type)
         (apply_edit : Spec -> Edit -> Spec) (apply_upd : Spec -> Upd -> Spec)
         (transcribe : Spec -> NLP) (live_upd : NLP -> Upd -> NLP) (ser : Spec -> Bytes),
    (forall sp u, live_upd (transcribe sp) u = transcribe (apply_upd sp u)) ->
  forall sp (ops ops' : list (hop Edit Upd)),
    let run := hrun Spec Edit Upd NLP apply_edit apply_upd transcribe live_upd in
    let s := run (hinit Spec NLP sp) ops in
    h_spec Spec NLP (fst (save Spec NLP Bytes ser s)) = final_spec Spec Edit Upd apply_edit apply_upd sp ops /\
    next_nlp Spec Edit Upd NLP apply_edit apply_upd transcribe live_upd (run (fst (save Spec NLP Bytes ser s)) ops')
    = Some (transcribe (final_spec Spec Edit Upd apply_edit apply_upd
                          (final_spec Spec Edit Upd apply_edit apply_upd sp ops) ops')).
Proof. intros. apply original_survives_save; assumption. Qed.
Print Assumptions C18_original_survives_save.

Theorem C18_loaded_eq_original_partial :
  forall (Spec Edit Upd NLP Bytes : Type)
         (apply_edit : Spec -> Edit -> Spec) (apply_upd : Spec -> Upd -> Spec)
         (transcribe : Spec -> NLP) (live_upd : NLP -> Upd -> NLP)
         (ser : Spec -> Bytes) (deser : Bytes -> option Spec),
    (forall sp u, live_upd (transcribe sp) u = transcribe (apply_upd sp u)) ->
    (forall sp, deser (ser sp) = Some sp) ->
  forall sp (ops ops' : list (hop Edit Upd)) l,
    let run := hrun Spec Edit Upd NLP apply_edit apply_upd transcribe live_upd in
    load Spec NLP Bytes deser (snd (save Spec NLP Bytes ser (run (hinit Spec NLP sp) ops))) = Some l ->
    next_nlp Spec Edit Upd NLP apply_edit apply_upd transcribe live_upd (run l ops')
    = next_nlp Spec Edit Upd NLP apply_edit apply_upd transcribe live_upd
               (run (fst (save Spec NLP Bytes ser (run (hinit Spec NLP sp) ops))) ops').
Proof. intros. apply (loaded_eq_original Spec Edit Upd NLP Bytes apply_edit apply_upd transcribe live_upd ser deser); assumption. Qed.
Print Assumptions C18_loaded_eq_original_partial.

(* non-vacuity: declarations = lists of numbers, bytes = the reversed list; the codec hypothesis
   holds and a save/load in the middle of a history is computed *)
Example C18_nonvacuous :
  let apply_edit := fun (sp : list nat) (e : nat) => e :: sp in
  let apply_upd := fun (sp : list nat) (u : nat) => sp in
  let transcribe := fun (sp : list nat) => fold_right plus 0 sp in
  let live_upd := fun (n : nat) (u : nat) => n in
  let ser := fun sp : list nat => rev sp in
  let deser := fun b : list nat => Some (rev b) in
  (forall sp, deser (ser sp) = Some sp) /\
  let s := hrun _ _ _ _ apply_edit apply_upd transcribe live_upd (hinit _ _ []) [HEdit _ _ 1; HQuery _ _; HEdit _ _ 2] in
  option_map (fun l => next_nlp _ _ _ _ apply_edit apply_upd transcribe live_upd
                         (hrun _ _ _ _ apply_edit apply_upd transcribe live_upd l [HEdit _ _ 4]))
             (load _ _ _ deser (snd (save _ _ _ ser s))) = Some (Some 7).
Proof. split; [intro sp; cbn; rewrite rev_involutive; reflexivity|reflexivity]. Qed.
