(* Property C05 — the NLP objective is the sum of the declared Mayer, sum and integral terms.
   Statements only; proofs in Proofs/ObjProofs.v. *)
From Coq Require Import ZArith QArith Qcanon List Lia Bool.
From RV Require Import Proofs.VacuityA Base.Num Base.PyList Base.Vec Expr Ocp Rows Mech.Grid Mech.Intg Mech.Sampling
     Mech.Shooting Mech.Colloc Base.Poly Spec.SpecDyn Spec.SpecPlace Inst Proofs.QcInst Proofs.ObjProofs Proofs.QuadProofs.
Import ListNotations.
Local Open Scope nat_scope.

(* the objective is the sum of the values of its terms; adding terms adds values *)
Theorem C05_objective_is_sum_of_terms :
  forall (F : Type) (OF : Ops F), FieldLaws OF ->
  forall (L : mlists F) (t1 t2 : list pexpr),
    objective L t1 = osum (map (peval L) t1) /\
    objective L (t1 ++ t2) = objective L t1 +! objective L t2.
Proof.
  intros F OF Fl L t1 t2. split.
  - exact (objective_is_sum L t1).
  - exact (objective_app Fl L t1 t2).
Qed.
Print Assumptions C05_objective_is_sum_of_terms.

(* at_t0 / at_tf evaluate at the first / last node; sum adds the node values of the N intervals
   (plus the final node with include_last); integral(grid='control') is the interval-length
   weighted left sum; integral reads the quadrature accumulated up to the final node *)
Theorem C05_placeholders_resolved :
  forall (F : Type) (OF : Ops F), FieldLaws OF -> @Char0 F OF ->
  forall (L : mlists F), wf_lists L -> forall e : expr, offsets e = [] ->
    peval L (PAt0 e) = spec_eval_node L 0 e /\
    peval L (PAtf e) = spec_eval_node L (L_N L) e /\
    peval L (PSum e) = osum (map (fun k => spec_eval_node L k e) (seq 0 (L_N L))) /\
    peval L (PSumP e) = osum (map (fun k => spec_eval_node L k e) (seq 0 (S (L_N L)))) /\
    peval L (PIntC e) =
      osum (map (fun k => (nth (S k) (L_cg L) o0 -! nth k (L_cg L) o0) *! spec_eval_node L k e)
                (seq 0 (L_N L))) /\
    forall i, peval L (PInt i) = nth i (nth (L_N L) (L_Q L) []) o0.
Proof.
  intros F OF Fl C L W e He. repeat split.
  - exact (peval_at_t0 Fl C L W e He).
  - exact (peval_at_tf Fl C L W e He).
  - exact (peval_sum Fl C L W e He).
  - exact (peval_sum_plus Fl C L W e He).
  - exact (peval_integral_control Fl C L W e He).
  - intro i. exact (peval_integral L W i).
Qed.
Print Assumptions C05_placeholders_resolved.

(* shooting: the quadrature behind ocp.integral is the stage's own scheme applied to the
   augmented system: Q_0 = 0, Q_{k+1} = Q_k + (M-step quadrature of interval k from X_k), with
   the step's quadrature output that of the same Butcher tableau (C01_rk_step_is_RK4) *)
Theorem C05_integral_is_scheme_quadrature :
  forall (F : Type) (OF : Ops F), FieldLaws OF ->
  forall (oc : ocp) (pt : point F),
    let L := lists_of oc pt false in
    let M := m_M (o_method oc) in
    let cg := grid_of oc pt in
    let nq := length (o_quad oc) in
    nth 0 (L_Q L) [] = vzero nq /\
    forall k, k < m_N (o_method oc) ->
      let len := nth (S k) cg o0 -! nth k cg o0 in
      let h := len /! of_nat M in
      let Phi := fun t x => r_xf (step_of oc pt k x t h len) in
      let Psi := fun t x => r_qf (step_of oc pt k x t h len) in
      nth (S k) (L_Q L) [] =
      vadd (nth k (L_Q L) []) (iter_quad Phi Psi (nth k cg o0) h M (nth k (p_X pt) []) (vzero nq)).
Proof. intros F OF Fl oc pt. exact (ms_quadrature Fl oc pt). Qed.
Print Assumptions C05_integral_is_scheme_quadrature.

(* DirectCollocation: the integral accumulates quad * dt * B[j] over the roots in loop order *)
Theorem C05_dc_quadrature_accumulates :
  forall (F : Type) (OF : Ops F) (oc : ocp) (pt : point F) k i (q : list F),
    quad_step oc pt k i q =
    fold_left (fun acc j => vadd acc (quad_term oc pt k i j))
              (seq 0 (length (map (@of_Q F OF) (m_tau (o_method oc))))) q.
Proof. reflexivity. Qed.
Print Assumptions C05_dc_quadrature_accumulates.

(* the weights are those of the interpolatory rule on the collocation points; they integrate
   constants exactly iff they sum to 1.  Computed for exact rational points: legendre degree 1,
   radau degree 2 and radau degree 1 (whose single weight was 1/2 before the repair of F4).  The
   statement for arbitrary distinct points (partition of unity of the Lagrange basis) is not proved;
   for CasADi's points of degree 1..5 the check compares the weights numerically. *)
Theorem C05_dc_weights_sum_examples :
  map (fun q => this q) (@coeff_B Qc QcOps [Q2Qc (1#2)]) = [1%Q] /\
  Qeq (this (@osum Qc QcOps (@coeff_B Qc QcOps [Q2Qc (1#3); Q2Qc 1]))) 1 /\
  map (fun q => this q) (@coeff_B Qc QcOps [Q2Qc 1]) = [1%Q].
Proof. split; [|split]; vm_compute; reflexivity. Qed.
Print Assumptions C05_dc_weights_sum_examples.

(* for ANY pairwise distinct collocation points over any field: the weights integrate every
   polynomial with at most d coefficients exactly (interpolatory rule; proof by root counting), in
   particular they sum to one, so constants are integrated exactly by every scheme and degree *)
Theorem C05_dc_quadrature_exact :
  forall (F : Type) (OF : Ops F), FieldLaws OF ->
  forall tau p : list F, distinct tau -> length p <= length tau ->
    fold_left (fun a j => a +! nth j (coeff_B tau) o0 *! polyval p (nth j tau o0)) (seq 0 (length tau)) o0
    = pint01 p.
Proof. intros F OF Fl tau p Hd Hl. exact (dc_quadrature_exact Fl tau p Hd Hl). Qed.
Print Assumptions C05_dc_quadrature_exact.

Theorem C05_dc_weights_sum_to_one :
  forall (F : Type) (OF : Ops F), FieldLaws OF ->
  forall tau : list F, distinct tau -> 0 < length tau ->
    fold_left (fun a j => a +! nth j (coeff_B tau) o0) (seq 0 (length tau)) o0 = o1.
Proof. intros F OF Fl tau Hd Hl. exact (dc_weights_sum_to_one Fl tau Hd Hl). Qed.
Print Assumptions C05_dc_weights_sum_to_one.

(* with two points the rule is exact on the basis {1, s} of the affine integrands:
   sum w_j = 1 and sum w_j tau_j = 1/2 = int_0^1 s ds *)
Theorem C05_dc_weights_exact_affine_example :
  let tau := [Q2Qc (1#3); Q2Qc 1] in
  let w := @coeff_B Qc QcOps tau in
  Qeq (this (nth 0 w 0 + nth 1 w 0)%Qc) 1 /\
  Qeq (this (nth 0 w 0 * nth 0 tau 0 + nth 1 w 0 * nth 1 tau 0)%Qc) (1#2).
Proof. split; vm_compute; reflexivity. Qed.
Print Assumptions C05_dc_weights_exact_affine_example.

(* non-vacuity: x' = u, Euler N=2 M=1 on [0,2]; objective at_tf(x) + integral(x) + sum(u) *)
Local Existing Instance QcOps.
Definition qc (a : Z) (b : positive) : Qc := Q2Qc (Qmake a b).
Definition ex_oc : ocp :=
  mkOcp 1 1 0 [ES (SU 0)] [ES (SX 0)] [] [1%Q] [1%Q] [] [1%Q] [] [] [] []
        [PAtf (ES (SX 0)); PInt 0; PSum (ES (SU 0))]
        (HFixed 0) (HFixed 2)
        (mkMethod MS 2 1 IEuler (mkGridOpts GUniform false false None None) []).
Definition ex_pt : point Qc :=
  @mkPoint Qc [[qc 1 1]; [qc 2 1]; [qc 4 1]] [[qc 1 1]; [qc 2 1]] [] [[];[]] [[];[];[]] [] [[];[]] [[];[];[]]
           (qc 2 1) (qc 0 1) [] [] [] [] [].
Example C05_nonvacuous :
  let L := @lists_of Qc QcOps ex_oc ex_pt false in
  wf_lists L /\ this (objective L (o_objective ex_oc)) == 10#1.
Proof.
  split.
  - constructor; try reflexivity; vm_compute; lia.
  - vm_compute. reflexivity.
Qed.

(* further witnesses that the hypotheses of this file's theorems are met by realistic inputs (N = 1, M = 1, no controls,
   t0 = 0, concrete grids / collocation points): proved in Proofs/VacuityA.v by the vacuity audit *)
Example C05_more_witnesses : True.
Proof. pose proof wf_lists_N1_M1_no_controls as _. pose proof distinct_radau2 as _. exact I. Qed.
