(* Property C13 — the transcription depends only on the final specification, not on its history.
   Statements only; proofs in Proofs/HistProofs.v.  The state machine Mech/History.v is generic in
   the specification, the edits and the transcription function; the correspondence check
   instantiates it with rockit itself (evolved OCP versus freshly written OCP). *)
From Coq Require Import List Bool.
From RV Require Import Mech.History Proofs.HistProofs Proofs.VacuityB.
Import ListNotations.

Theorem C13_history_independent :
  forall (Spec Edit Upd NLP : Type)
         (apply_edit : Spec -> Edit -> Spec) (apply_upd : Spec -> Upd -> Spec)
         (transcribe : Spec -> NLP) (live_upd : NLP -> Upd -> NLP),
    (forall sp u, live_upd (transcribe sp) u = transcribe (apply_upd sp u)) ->
  forall (sp : Spec) (ops : list (hop Edit Upd)),
    next_nlp Spec Edit Upd NLP apply_edit apply_upd transcribe live_upd
             (hrun Spec Edit Upd NLP apply_edit apply_upd transcribe live_upd (hinit Spec NLP sp) ops)
    = Some (transcribe (final_spec Spec Edit Upd apply_edit apply_upd sp ops)).
Proof. intros. apply history_independent. assumption. Qed.
Print Assumptions C13_history_independent.

(* the same with the hypothesis on the live-update oracle only ALONG THE HISTORY (vacuity audit): the global form above
   asks every update to commute with transcription at every specification, which no real transcription offers (an update it is
   never asked to perform at that specification may well not commute); here it is asked exactly at the specifications the
   history reaches, for the updates the history performs.  C13_local_hypothesis_weaker (Proofs/VacuityB.v) exhibits an oracle
   that fails the global hypothesis and meets this one. *)
Theorem C13_history_independent_along :
  forall (Spec Edit Upd NLP : Type)
         (apply_edit : Spec -> Edit -> Spec) (apply_upd : Spec -> Upd -> Spec)
         (transcribe : Spec -> NLP) (live_upd : NLP -> Upd -> NLP)
         (sp : Spec) (ops : list (hop Edit Upd)),
    (forall pre u post, ops = pre ++ HUpd Edit Upd u :: post ->
       live_upd (transcribe (final_spec Spec Edit Upd apply_edit apply_upd sp pre)) u
       = transcribe (apply_upd (final_spec Spec Edit Upd apply_edit apply_upd sp pre) u)) ->
    next_nlp Spec Edit Upd NLP apply_edit apply_upd transcribe live_upd
             (hrun Spec Edit Upd NLP apply_edit apply_upd transcribe live_upd (hinit Spec NLP sp) ops)
    = Some (transcribe (final_spec Spec Edit Upd apply_edit apply_upd sp ops)).
Proof. intros Spec Edit Upd NLP ae au tr lu sp ops H. exact (history_independent_local Spec Edit Upd NLP ae au tr lu sp ops H). Qed.
Print Assumptions C13_history_independent_along.

Theorem C13_query_idempotent_and_preserves_declaration :
  forall (Spec Edit Upd NLP : Type)
         (apply_edit : Spec -> Edit -> Spec) (apply_upd : Spec -> Upd -> Spec)
         (transcribe : Spec -> NLP) (live_upd : NLP -> Upd -> NLP) (s : hstate Spec NLP),
    let step := hstep Spec Edit Upd NLP apply_edit apply_upd transcribe live_upd in
    step (step s (HQuery Edit Upd)) (HQuery Edit Upd) = step s (HQuery Edit Upd) /\
    h_spec Spec NLP (step s (HQuery Edit Upd)) = h_spec Spec NLP s.
Proof.
  intros. split.
  - apply query_idempotent.
  - apply query_preserves_declaration.
Qed.
Print Assumptions C13_query_idempotent_and_preserves_declaration.

Theorem C13_edit_after_solve_honoured :
  forall (Spec Edit Upd NLP : Type)
         (apply_edit : Spec -> Edit -> Spec) (apply_upd : Spec -> Upd -> Spec)
         (transcribe : Spec -> NLP) (live_upd : NLP -> Upd -> NLP),
    (forall sp u, live_upd (transcribe sp) u = transcribe (apply_upd sp u)) ->
  forall sp ops (e : Edit),
    next_nlp Spec Edit Upd NLP apply_edit apply_upd transcribe live_upd
      (hrun Spec Edit Upd NLP apply_edit apply_upd transcribe live_upd (hinit Spec NLP sp)
            (ops ++ [HQuery Edit Upd; HEdit Edit Upd e]))
    = Some (transcribe (apply_edit (final_spec Spec Edit Upd apply_edit apply_upd sp ops) e)).
Proof. intros. apply edit_after_solve_honoured. assumption. Qed.
Print Assumptions C13_edit_after_solve_honoured.

(* non-vacuity: specifications = lists of declared numbers, NLP = their sum plus an offset updated
   in place; the commuting hypothesis holds and a history with interleaved queries is computed *)
Example C13_nonvacuous :
  let apply_edit := fun (sp : list nat * nat) (e : nat) => (e :: fst sp, snd sp) in
  let apply_upd := fun (sp : list nat * nat) (u : nat) => (fst sp, u) in
  let transcribe := fun (sp : list nat * nat) => (fold_right plus 0 (fst sp), snd sp) in
  let live_upd := fun (n : nat * nat) (u : nat) => (fst n, u) in
  (forall sp u, live_upd (transcribe sp) u = transcribe (apply_upd sp u)) /\
  next_nlp _ _ _ _ apply_edit apply_upd transcribe live_upd
    (hrun _ _ _ _ apply_edit apply_upd transcribe live_upd (hinit _ _ ([], 0))
          [HEdit _ _ 1; HQuery _ _; HUpd _ _ 7; HEdit _ _ 2; HQuery _ _; HQuery _ _; HEdit _ _ 3]) = Some (6, 7).
Proof. split; [reflexivity|reflexivity]. Qed.
