(* Property C17 — B-spline signals and SplineMethod trajectories are exact splines of the model.
   Statements only; proofs in Proofs/SplineProofs.v.
   Proved: support, partition of unity, nonnegativity and the convex-hull property, Greville points, the coefficient formula of bspline_derivative, and
   that the spline with those coefficients is the derivative of the spline (algebraically for the
   product-rule derivative dcdb of the Cox-de Boor recursion over any field; over the reals dcdb is the
   analytic derivative).  PARTIAL: that signals and SplineMethod *use* these kernels as modelled (sampling at
   refinements, der() chains, integrator-chain dynamics) is decided by the check's correspondence and by
   scipy's BSpline as an independent oracle, not by a theorem. *)
From Coq Require Import ZArith QArith Qcanon List Lia Bool.
From Coq Require Import Reals.
From Coquelicot Require Import Coquelicot.
From RV Require Import Base.Num Base.Vec Mech.Spline Inst Proofs.QcInst Proofs.ListLemmas Proofs.SplineProofs
     Proofs.SplineDer Proofs.SplineDerList Proofs.DerProofs Proofs.SplineDerReal Proofs.SplineDerBounded Proofs.SplineHull Proofs.SplineChain Proofs.SplineTime Proofs.VacuityB.
Import ListNotations.
Local Open Scope nat_scope.

(* Cox-de Boor basis on a knot sequence k, for x in span j with distinct knots across the span:
   B_{i,e} vanishes outside j-e <= i <= j, and for every degree e <= j (always so on clamped knots,
   where j >= d) the basis functions sum to one *)
Theorem C17_basis_support_and_partition_of_unity :
  forall (F : Type) (OF : Ops F), FieldLaws OF ->
  forall (k : nat -> F) (j : nat) (x : F),
    (forall a b, a <= j -> j < b -> k b -! k a <> o0) ->
    (forall e i, ~ (j - e <= i <= j) -> cdb k j x e i = o0) /\
    (forall e n, e <= j -> j < n -> sumf (cdb k j x e) n = o1).
Proof.
  intros F OF Fl k j x H. split.
  - intros e i Hi. exact (cdb_support Fl k j x e i Hi).
  - intros e n He Hn. exact (partition_of_unity Fl k j x H e n He Hn).
Qed.
Print Assumptions C17_basis_support_and_partition_of_unity.

(* coefficients sit at the Greville points: averages of d consecutive clamped knots *)
Theorem C17_greville_is_knot_average :
  forall (F : Type) (OF : Ops F) (xi : list F) (d i : nat), 0 < d -> i < length xi - 1 + d ->
    nth i (greville xi d) o0
    = osum (map (fun r => nth (S (i + r)) (clamped xi d) o0) (seq 0 d)) /! of_nat d.
Proof.
  intros F OF xi d i Hd Hi. unfold greville. destruct d as [|d']; [lia|].
  rewrite (nth_map_seq _ (length xi - 1 + S d') 0 i o0 Hi). reflexivity.
Qed.
Print Assumptions C17_greville_is_knot_average.

(* coefficients of the derivative spline: d (c_{i+1} - c_i) / (K_{i+d+1} - K_{i+1}) on clamped knots K *)
Theorem C17_derivative_coefficients :
  forall (F : Type) (OF : Ops F) (c xi : list F) (d i : nat), i < length c - 1 ->
    nth i (bspline_derivative c xi d) o0
    = of_nat d *! (nth (S i) c o0 -! nth i c o0) /! (nth (S (i + d)) (clamped xi d) o0 -! nth (S i) (clamped xi d) o0).
Proof.
  intros F OF c xi d i Hi. unfold bspline_derivative.
  rewrite (nth_map_seq _ (length c - 1) 0 i o0 Hi). reflexivity.
Qed.
Print Assumptions C17_derivative_coefficients.

(* the basis derivative recurrence, for the product-rule derivative dcdb of the recursion (any field):
   B'_{i,e} = e ( B_{i,e-1} / (k_{i+e} - k_i) - B_{i+1,e-1} / (k_{i+e+1} - k_{i+1}) ), terms outside the support
   of the lower-degree functions being absent *)
Theorem C17_basis_derivative_recurrence :
  forall (F : Type) (OF : Ops F), FieldLaws OF ->
  forall (k : nat -> F) (j : nat) (x : F),
    (forall a b, a <= j -> j < b -> k b -! k a <> o0) ->
  forall e' i,
    dcdb k j x (S e') i
    = of_nat (S e') *! ((if Nat.leb (j - e') i && Nat.leb i j
                         then cdb k j x e' i /! (k (i + S e') -! k i) else o0)
                        -! (if Nat.leb (j - e') (S i) && Nat.leb (S i) j
                            then cdb k j x e' (S i) /! (k (S i + S e') -! k (S i)) else o0)).
Proof. intros F OF Fl k j x H e' i. exact (basis_derivative Fl k j x H e' i). Qed.
Print Assumptions C17_basis_derivative_recurrence.

(* hence: the derivative of the spline sum_i c_i B_{i,d} (n coefficients, d = S e' <= j < n: every span of a
   clamped knot sequence) is the spline of degree d-1 with the coefficients d (c_{i+1} - c_i) / (k_{i+d+1} - k_{i+1})
   of bspline_derivative (C17_derivative_coefficients) on the functions B_{i+1,d-1}, which are the basis
   functions of the knot sequence without its first knot *)
Theorem C17_spline_derivative_coefficients_exact :
  forall (F : Type) (OF : Ops F), FieldLaws OF ->
  forall (k : nat -> F) (j : nat) (x : F),
    (forall a b, a <= j -> j < b -> k b -! k a <> o0) ->
  forall (c : nat -> F) (e' n : nat), S e' <= j -> j < n ->
    sumf (fun i => c i *! dcdb k j x (S e') i) n
    = sumf (fun i => of_nat (S e') *! (c (S i) -! c i) /! (k (S i + S e') -! k (S i)) *! cdb k j x e' (S i)) (n - 1)
    /\ (forall i, cdb k j x e' (S i) = cdb (fun m => k (S m)) (j - 1) x e' i).
Proof.
  intros F OF Fl k j x H c e' n Hd Hn. split.
  - exact (spline_derivative Fl k j x H c e' n Hd Hn).
  - intro i. rewrite cdb_shift. replace (S (j - 1)) with j by lia. reflexivity.
Qed.
Print Assumptions C17_spline_derivative_coefficients_exact.

(* the same on the model's own list definitions: the derivative spline  spline_value (bspline_derivative c xi d)
   evaluated with basis_values on its own knots clamped xi (d-1) at span j-1  is the derivative of the spline with
   coefficients c (n = length xi - 1 + d of them) on the knots clamped xi d, at every x of a span j with d <= j < n *)
Theorem C17_model_derivative_spline_exact :
  forall (F : Type) (OF : Ops F), FieldLaws OF ->
  forall (c xi : list F) (d' j : nat) (x : F),
    length c = length xi - 1 + S d' -> 1 <= length xi -> S d' <= j -> j < length c ->
    (forall a b, a <= j -> j < b -> b < length (clamped xi (S d')) ->
                 knot_fun (clamped xi (S d')) b -! knot_fun (clamped xi (S d')) a <> o0) ->
    sumf (fun i => nth i c o0 *! dcdb (knot_fun (clamped xi (S d'))) j x (S d') i) (length c)
    = spline_value (bspline_derivative c xi (S d')) (basis_values (clamped xi d') d' (j - 1) x).
Proof. intros F OF Fl c xi d' j x H1 H2 H3 H4 H5. exact (spline_derivative_lists_bounded Fl c xi d' j x H1 H2 H3 H4 H5). Qed.
Print Assumptions C17_model_derivative_spline_exact.

(* over the reals dcdb is the derivative: the spline with the coefficients of bspline_derivative is the
   analytic derivative of the spline at every x (as a polynomial of its span) *)
Theorem C17_spline_derivative_is_analytic :
  forall (k : nat -> R) (j : nat) (c : nat -> R) (e' n : nat) (x : R),
    (forall a b, a <= j -> j < b -> (k b - k a <> 0)%R) -> S e' <= j -> j < n ->
    (forall i, is_derive (fun y => @cdb R ROps k j y (S e') i) x (@dcdb R ROps k j x (S e') i)) /\
    is_derive (fun y => @sumf R ROps (fun i => (c i * @cdb R ROps k j y (S e') i)%R) n) x
              (@sumf R ROps (fun i => (@of_nat R ROps (S e') * (c (S i) - c i) / (k (S i + S e')%nat - k (S i))
                                       * @cdb R ROps k j x e' (S i))%R) (n - 1)).
Proof.
  intros k j c e' n x H Hd Hn. split.
  - intro i. apply cdb_is_derive.
  - exact (spline_is_derive k j c e' n x H Hd Hn).
Qed.
Print Assumptions C17_spline_derivative_is_analytic.

(* convex-hull property (what makes SplineMethod's grid='inf' bounds on COEFFICIENTS sufficient): on a
   non-degenerate span of nondecreasing knots every basis function is nonnegative, hence (with the partition of
   unity) the spline value lies between the smallest and the largest of its coefficients — for every x of the
   span, any degree, any ordered field *)
Theorem C17_basis_nonnegative :
  forall (F : Type) (OF : Ops F), FieldLaws OF -> forall le : F -> F -> Prop, OrderLaws OF le ->
  forall (k : nat -> F) (j : nat) (x : F),
    (forall a b, a <= b -> le (k a) (k b)) -> k j <> k (S j) -> le (k j) x -> le x (k (S j)) ->
    forall e i, le o0 (cdb k j x e i).
Proof. exact @SplineHull_basis_nonneg. Qed.
Print Assumptions C17_basis_nonnegative.

Theorem C17_coefficient_bounds_bound_the_spline :
  forall (F : Type) (OF : Ops F), FieldLaws OF -> forall le : F -> F -> Prop, OrderLaws OF le ->
  forall (c xi : list F) (d j : nat) (x : F),
    let K := clamped xi d in
    (forall a b, a <= b -> b < length xi -> le (nth a xi o0) (nth b xi o0)) ->
    length c = length K - d - 1 -> d <= j -> j < length K - d - 1 ->
    knot_fun K j <> knot_fun K (S j) -> le (knot_fun K j) x -> le x (knot_fun K (S j)) ->
    List.Forall (le o0) (basis_values K d j x) /\
    (forall lo, List.Forall (le lo) c -> le lo (spline_value c (basis_values K d j x))) /\
    (forall hi, List.Forall (fun v => le v hi) c -> le (spline_value c (basis_values K d j x)) hi).
Proof. exact @SplineHull_model_spline_bounds. Qed.
Print Assumptions C17_coefficient_bounds_bound_the_spline.

(* the same over the reals, in the notation of R *)
Theorem C17_coefficient_bounds_bound_the_spline_R :
  forall (c xi : list R) (d j : nat) (x : R),
    let K := @clamped R ROps xi d in
    (forall a b, a <= b -> b < length xi -> (nth a xi 0 <= nth b xi 0)%R) ->
    length c = length K - d - 1 -> d <= j -> j < length K - d - 1 ->
    (nth j K 0 < nth (S j) K 0)%R -> (nth j K 0 <= x <= nth (S j) K 0)%R ->
    List.Forall (fun b => (0 <= b)%R) (@basis_values R ROps K d j x) /\
    (forall lo, List.Forall (fun v => (lo <= v)%R) c -> (lo <= @spline_value R ROps c (@basis_values R ROps K d j x))%R) /\
    (forall hi, List.Forall (fun v => (v <= hi)%R) c -> (@spline_value R ROps c (@basis_values R ROps K d j x) <= hi)%R).
Proof. exact SplineHull_R. Qed.
Print Assumptions C17_coefficient_bounds_bound_the_spline_R.

(* "the declared integrator-chain dynamics hold identically in time": on the model's own list definitions over the
   reals, for a strictly increasing grid xi, the r-th member of a derivative chain — coefficients obtained by applying
   bspline_derivative r times (chain_coeffs), degrees d, d-1, ..., d-r — is the r-th derivative of the head's spline at
   EVERY x (as polynomials of the span j), for every r <= d.  (p' = v, v' = a is r = 1, 2.) *)
Theorem C17_chain_members_are_derivatives :
  forall (c xi : list R) (d j r : nat),
  length c = length xi - 1 + d -> strictly_increasing xi -> d <= j -> j < length c -> r <= d ->
  forall x : R,
    is_derive_n (fun y => @spline_value R ROps c (@basis_values R ROps (@clamped R ROps xi d) d j y)) r x
                (@spline_value R ROps (chain_coeffs c xi d r)
                               (@basis_values R ROps (@clamped R ROps xi (d - r)) (d - r) (j - r) x)).
Proof. exact spline_chain_derivative_n_strict_R. Qed.
Print Assumptions C17_chain_members_are_derivatives.

(* derivatives in PHYSICAL time: a signal kept on a normalized grid and evaluated at (t - t0)/T has as r-th time
   derivative (1/T)^r times the r-th chain member — one factor 1/T per derivative, for every r <= d and every t;
   equivalently, bspline_derivative on the physical knots t0 + T*xi yields the normalized coefficients divided by T *)
Theorem C17_physical_time_derivative :
  forall (c xi : list R) (d j r : nat) (t0 T : R),
  T <> 0%R ->
  length c = length xi - 1 + d -> strictly_increasing xi -> d <= j -> j < length c -> r <= d ->
  forall t : R,
    is_derive_n (fun s => @spline_value R ROps c
                            (@basis_values R ROps (@clamped R ROps xi d) d j ((s - t0) / T)%R)) r t
                ((/ T) ^ r * @spline_value R ROps (chain_coeffs c xi d r)
                               (@basis_values R ROps (@clamped R ROps xi (d - r)) (d - r) (j - r)
                                              ((t - t0) / T)%R))%R.
Proof. exact spline_physical_time_derivative_R. Qed.
Print Assumptions C17_physical_time_derivative.

Theorem C17_derivative_coefficients_on_physical_knots :
  forall (c xi : list R) (d : nat) (t0 T : R),
  T <> 0%R -> 1 <= length xi -> length c <= length xi + d ->
  @bspline_derivative R ROps c (map (fun s => (t0 + T * s)%R) xi) d
  = map (fun v => (v / T)%R) (@bspline_derivative R ROps c xi d).
Proof. exact bspline_derivative_affine_knots_R. Qed.
Print Assumptions C17_derivative_coefficients_on_physical_knots.

(* TIGHT forms (vacuity audit, Proofs/VacuityB.v).  The four theorems above about an abstract knot function
   k : nat -> F and C17_basis_nonnegative assume knot separation / monotonicity for ALL indices b > j.  That is met by an
   infinite strictly increasing sequence, but NOT by the knot function the model actually passes, knot_fun K, which pads with 0
   beyond the end of the knot list: whenever one of K_0..K_j is 0 (every grid starting at 0, every normalized grid) the
   unbounded hypothesis is false (unbounded_separation_unsatisfiable, unbounded_monotonicity_unsatisfiable).  The forms below
   only constrain the knots that are read (b <= j + E + 1) and are the ones that apply to knot_fun K;
   C17_knot_fun_instance (Proofs/VacuityB.v) instantiates them on clamped [0; 1/2; 1]. *)
Theorem C17_partition_of_unity_tight :
  forall (F : Type) (OF : Ops F), FieldLaws OF ->
  forall (k : nat -> F) (j E : nat),
    (forall a b, a <= j -> j < b -> b <= j + E + 1 -> k b -! k a <> o0) ->
  forall (x : F) (e n : nat), e <= E -> e <= j -> j < n -> sumf (cdb k j x e) n = o1.
Proof. intros F OF Fl k j E H x e n. exact (@partition_of_unity_tight F OF Fl k j E H x e n). Qed.
Print Assumptions C17_partition_of_unity_tight.

Theorem C17_spline_derivative_coefficients_exact_tight :
  forall (F : Type) (OF : Ops F), FieldLaws OF ->
  forall (k : nat -> F) (j E : nat),
    (forall a b, a <= j -> j < b -> b <= j + E + 1 -> k b -! k a <> o0) ->
  forall (x : F) (c : nat -> F) (e' n : nat), S e' <= E -> S e' <= j -> j < n ->
    sumf (fun i => c i *! dcdb k j x (S e') i) n
    = sumf (fun i => of_nat (S e') *! (c (S i) -! c i) /! (k (S i + S e') -! k (S i)) *! cdb k j x e' (S i)) (n - 1).
Proof. intros F OF Fl k j E H x c e' n. exact (@spline_derivative_tight F OF Fl k j E H x c e' n). Qed.
Print Assumptions C17_spline_derivative_coefficients_exact_tight.

Theorem C17_spline_derivative_is_analytic_tight :
  forall (k : nat -> R) (j : nat) (c : nat -> R) (e' n : nat) (x : R),
    (forall a b, a <= j -> j < b -> b <= j + S e' + 1 -> (k b - k a <> 0)%R) -> S e' <= j -> j < n ->
    is_derive (fun y => @sumf R ROps (fun i => (c i * @cdb R ROps k j y (S e') i)%R) n) x
              (@sumf R ROps (fun i => (@of_nat R ROps (S e') * (c (S i) - c i) / (k (S i + S e')%nat - k (S i))
                                       * @cdb R ROps k j x e' (S i))%R) (n - 1)).
Proof. exact spline_is_derive_tight. Qed.
Print Assumptions C17_spline_derivative_is_analytic_tight.

Theorem C17_basis_nonnegative_bounded :
  forall (F : Type) (OF : Ops F), FieldLaws OF -> forall le : F -> F -> Prop, OrderLaws OF le ->
  forall (k : nat -> F) (j d : nat) (x : F),
    (forall a b, a <= b -> b <= j + d + 1 -> le (k a) (k b)) -> k j <> k (S j) -> le (k j) x -> le x (k (S j)) ->
    forall e i, e <= d -> le o0 (cdb k j x e i).
Proof. exact @basis_nonnegative_bounded. Qed.
Print Assumptions C17_basis_nonnegative_bounded.

(* non-vacuity: quadratic basis on clamped knots 0,0,0,1/2,1,1,1 at x = 1/4 (span j = 2): 9/16... sums to 1 *)
Local Existing Instance QcOps.
Example C17_nonvacuous :
  let K := @clamped Qc QcOps [Q2Qc 0; Q2Qc (1#2); Q2Qc 1] 2 in
  this (@sumf Qc QcOps (cdb (knot_fun K) 2 (Q2Qc (1#4)) 2) 4) == 1 /\
  map (fun q => this q) (basis_values K 2 2 (Q2Qc (1#4))) = [(1#4)%Q; (5#8)%Q; (1#8)%Q; 0%Q].
Proof. split; vm_compute; reflexivity. Qed.

(* non-vacuity of the derivative theorems: same knots, degree 2, span j = 2 (2 <= j < 4): the derivatives of the
   basis functions at x = 1/4 are -2, 1, 1, 0 (they sum to zero) *)
Example C17_derivative_nonvacuous :
  let K := @clamped Qc QcOps [Q2Qc 0; Q2Qc (1#2); Q2Qc 1] 2 in
  map (fun i => this (@dcdb Qc QcOps (knot_fun K) 2 (Q2Qc (1#4)) 2 i)) (seq 0 4) = [(-2)%Q; 1%Q; 1%Q; 0%Q]
  /\ (forall a b, a <= 2 -> 2 < b -> b < 7 -> knot_fun K b <> knot_fun K a).
Proof.
  split; [vm_compute; reflexivity|].
  intros a b Ha Hb Hb7.
  assert (Ea : knot_fun (@clamped Qc QcOps [Q2Qc 0; Q2Qc (1#2); Q2Qc 1] 2) a = Q2Qc 0).
  { destruct a as [|[|[|a]]]; try reflexivity. lia. }
  rewrite Ea.
  destruct b as [|[|[|[|[|[|[|b]]]]]]]; try lia; vm_compute; intro E; discriminate E.
Qed.

(* non-vacuity of C17_model_derivative_spline_exact on a grid that STARTS AT 0 (the earlier form of the hypothesis,
   which also ranged over indices beyond the knot list where knot_fun pads with 0, could not be met there) and of
   the convex-hull theorem: proved in Proofs/SplineDerBounded.v and Proofs/SplineHull.v *)
Example C17_bounded_derivative_nonvacuous : True /\ True.
Proof. pose proof spline_derivative_lists_bounded_nonvacuous as _. pose proof SplineHull_nonvacuous as _.
  pose proof spline_chain_nonvacuous_R as _. pose proof spline_physical_time_nonvacuous_R as _. pose proof C17_knot_fun_instance as _. split; exact I. Qed.
