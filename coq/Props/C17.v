(* Property C17 — B-spline signals and SplineMethod trajectories are exact splines of the model.
   Statements only; proofs in Proofs/SplineProofs.v.
   PARTIAL: that the spline with the coefficients of bspline_derivative is the analytic derivative of
   the spline is not proved here; the check compares it with scipy's BSpline.derivative on every case. *)
From Coq Require Import ZArith QArith Qcanon List Lia Bool.
From RV Require Import Base.Num Base.Vec Mech.Spline Inst Proofs.QcInst Proofs.ListLemmas Proofs.SplineProofs.
Import ListNotations.
Local Open Scope nat_scope.

(* Cox-de Boor basis on a knot sequence k, for x in span j with distinct knots across the span:
   B_{i,e} vanishes outside j-e <= i <= j, and for every degree e <= j (always so on clamped knots,
   where j >= d) the basis functions sum to one *)
Theorem C17_basis_support_and_partition_of_unity :
  forall (F : Type) (OF : Ops F), FieldLaws OF ->
  forall (k : nat -> F) (j : nat) (x : F),
    (forall a b, a <= j -> j < b -> k b -! k a <> o0) ->
    (forall e i, ~ (j - e <= i <= j) -> cdb k j x e i = o0) /\
    (forall e n, e <= j -> j < n -> sumf (cdb k j x e) n = o1).
Proof.
  intros F OF Fl k j x H. split.
  - intros e i Hi. exact (cdb_support Fl k j x e i Hi).
  - intros e n He Hn. exact (partition_of_unity Fl k j x H e n He Hn).
Qed.
Print Assumptions C17_basis_support_and_partition_of_unity.

(* coefficients sit at the Greville points: averages of d consecutive clamped knots *)
Theorem C17_greville_is_knot_average :
  forall (F : Type) (OF : Ops F) (xi : list F) (d i : nat), 0 < d -> i < length xi - 1 + d ->
    nth i (greville xi d) o0
    = osum (map (fun r => nth (S (i + r)) (clamped xi d) o0) (seq 0 d)) /! of_nat d.
Proof.
  intros F OF xi d i Hd Hi. unfold greville. destruct d as [|d']; [lia|].
  rewrite (nth_map_seq _ (length xi - 1 + S d') 0 i o0 Hi). reflexivity.
Qed.
Print Assumptions C17_greville_is_knot_average.

(* coefficients of the derivative spline: d (c_{i+1} - c_i) / (K_{i+d+1} - K_{i+1}) on clamped knots K *)
Theorem C17_derivative_coefficients :
  forall (F : Type) (OF : Ops F) (c xi : list F) (d i : nat), i < length c - 1 ->
    nth i (bspline_derivative c xi d) o0
    = of_nat d *! (nth (S i) c o0 -! nth i c o0) /! (nth (S (i + d)) (clamped xi d) o0 -! nth (S i) (clamped xi d) o0).
Proof.
  intros F OF c xi d i Hi. unfold bspline_derivative.
  rewrite (nth_map_seq _ (length c - 1) 0 i o0 Hi). reflexivity.
Qed.
Print Assumptions C17_derivative_coefficients.

(* non-vacuity: quadratic basis on clamped knots 0,0,0,1/2,1,1,1 at x = 1/4 (span j = 2): 9/16... sums to 1 *)
Local Existing Instance QcOps.
Example C17_nonvacuous :
  let K := @clamped Qc QcOps [Q2Qc 0; Q2Qc (1#2); Q2Qc 1] 2 in
  this (@sumf Qc QcOps (cdb (knot_fun K) 2 (Q2Qc (1#4)) 2) 4) == 1 /\
  map (fun q => this q) (basis_values K 2 2 (Q2Qc (1#4))) = [(1#4)%Q; (5#8)%Q; (1#8)%Q; 0%Q].
Proof. split; vm_compute; reflexivity. Qed.
