#!/bin/bash
# Build the verification framework from files on disk only (offline).
set -e
cd "$(dirname "$0")"
mkdir -p pydeps work replays evidence
if [ ! -d pydeps/networkx ]; then
  (cd pydeps && /venv/bin/python -m zipfile -e /opt/veriftools/wheels/networkx-3.6.1-py3-none-any.whl . >/dev/null 2>&1 || true)
fi
cd coq
coq_makefile -f _CoqProject -o Makefile >/dev/null
timeout 3000 make -j16 >/dev/null
echo "setup ok"
